#!/bin/sh
# Offline setup after a fresh restore: full Coq build (all proof obligations), extraction,
# OCaml driver. The Go harness is rebuilt by every check from /repo's working tree.
set -e
cd "$(dirname "$0")"
mkdir -p build replays evidence
cd coq
coq_makefile -f _CoqProject -o Makefile >/dev/null
timeout 3000 make -j"$(nproc)"
cd ..
sh driver/build.sh
echo setup ok
