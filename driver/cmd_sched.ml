(* Driver command for the interleaving model of concurrent Match* calls (Model/Sched.v).

   Replays an event trace observed on the implementation against the extracted model:

     sched proto=<repaired|pinned> file=<hex | ~ (missing)>
           calls=<g>:<tidhex>:<snaphex>:<expecthex | ~>:<create 0|1>:<update 0|1>;...
           events=<g>:<kind>[,<g>:<kind>...]        ("~" = no event)

   calls : in program order per goroutine <g> (goroutine ids are 0,1,2,...; the number of
           goroutines is 1 + the largest id seen in calls/events).  <expect> is the text the
           stored body is compared with (as matchSnapshot does: equality after
           unescapeEndChars on both sides); "~" = compare with <snap>.
   events: the exact trace, one entry per instrumented operation; kinds are
           RLock RUnlock Lock Unlock Read Mkdir Open Append Trunc Write.

   For each (g, kind) goroutine g is advanced by ONE event; the kind must be the one the
   model expects next for g and the event must be enabled.  Results:

     sched <idx> ok=1 finished=<0|1> file=<hex | ~> outcomes=<g>:<o1>/<o2>...;<g>:...
        (outcomes among passed added updated failed:notfound failed:diff; "~" = none yet;
         every goroutine is listed; "outcomes=~" when there is no goroutine)
     sched <idx> ok=0 reason=<text without spaces>
        reason = mismatch:i=<n>:g=<g>:expected=<kind>:got=<kind>   wrong next operation
               | blocked:i=<n>:g=<g>:kind=<kind>                   lock not available
               | finished:i=<n>:g=<g>:got=<kind>                   g has no call left
               | nogoroutine:i=<n>:g=<g>
               | parse:<what>

   Needs these identifiers in the Extraction command of Extract.v
   (with `Model.Sched` added to its `From Snaps Require Import` line):
     init_cfg next_ev enabled sched_step run_sched finished outcomes final_file
     run_serial group_outcomes lin_order call_atomic tally_of *)
open Model
open Util

exception Sched_fail of str

let kind_of_ev = function
  | ERLock -> "RLock" | ERUnlock -> "RUnlock" | ELock -> "Lock" | EUnlock -> "Unlock"
  | ERead -> "Read" | EMkdir -> "Mkdir" | EOpen -> "Open" | EAppend _ -> "Append"
  | ETrunc -> "Trunc" | EWrite _ -> "Write"

let soutcome_s = function
  | OPassed -> "passed" | OAdded -> "added" | OUpdated -> "updated"
  | OFailedNotFound -> "failed:notfound" | OFailedDiff -> "failed:diff"

let parse_proto = function
  | "repaired" -> Repaired | "pinned" -> Pinned
  | s -> raise (Sched_fail ("parse:proto=" ^ s))

let parse_int what (s : str) : int =
  match int_of_string_opt s with
  | Some i when i >= 0 -> i
  | _ -> raise (Sched_fail ("parse:" ^ what ^ "=" ^ s))

let parse_bool what = function
  | "1" -> true | "0" -> false
  | s -> raise (Sched_fail ("parse:" ^ what ^ "=" ^ s))

(* <g>:<tid>:<snap>:<expect|~>:<create>:<update> *)
let parse_call (s : str) : int * call =
  match String.split_on_char ':' s with
  | [g; tid; snap; expect; cr; up] ->
    let snap_b = unhex snap in
    let expect_b = if expect = "~" then snap_b else unhex expect in
    let expect_u = unescape expect_b in
    (parse_int "g" g,
     { cl_tid = unhex tid; cl_snap = snap_b;
       cl_same = (fun body -> beq (unescape body) expect_u);
       cl_create = parse_bool "create" cr; cl_update = parse_bool "update" up })
  | _ -> raise (Sched_fail ("parse:call=" ^ s))

let parse_calls (s : str) : (int * call) list =
  if s = "~" || s = "" then []
  else List.map parse_call (List.filter (fun x -> x <> "") (String.split_on_char ';' s))

let parse_events (s : str) : (int * str) list =
  if s = "~" || s = "" then []
  else
    List.map (fun e ->
      match String.split_on_char ':' e with
      | [g; k] -> (parse_int "g" g, k)
      | _ -> raise (Sched_fail ("parse:event=" ^ e)))
      (List.filter (fun x -> x <> "") (String.split_on_char ',' s))

let file_s = function None -> "~" | Some b -> hex b

let outcomes_s (os : soutcome list list) : str =
  if os = [] then "~" else
  String.concat ";"
    (List.mapi (fun g l ->
       Printf.sprintf "%d:%s" g
         (match l with [] -> "~" | _ -> String.concat "/" (List.map soutcome_s l))) os)

(* Replay at the level of CRITICAL SECTIONS. The observed trace keeps its four lock operations per goroutine; what the
   library does to the file system inside a section (which os / io / bufio calls, how many) is not compared: when a goroutine
   releases a lock the model is first advanced through all the file-system events it has pending for that goroutine (under the
   write lock nothing can interleave with them, under the read lock they are reads, which commute). A file-system operation
   observed OUTSIDE any section of its goroutine is a protocol violation ("unprotected"): that is the F4 defect and the shape
   of every lock-narrowing mutation. *)
let replay proto (c0 : cfg) (evs : (int * str) list) : cfg =
  let c = ref c0 in
  let n = List.length !c.g_threads in
  let held = Array.make (max n 1) 0 in           (* 0 none, 1 read, 2 write *)
  let step_one where g kind_wanted =
    match List.nth_opt !c.g_threads g with
    | None -> raise (Sched_fail ("nogoroutine:" ^ where))
    | Some t ->
      (match next_ev t with
       | None -> raise (Sched_fail (Printf.sprintf "finished:%s:got=%s" where kind_wanted))
       | Some e ->
         let expected = kind_of_ev e in
         if kind_wanted <> "" && expected <> kind_wanted then
           raise (Sched_fail (Printf.sprintf "mismatch:%s:expected=%s:got=%s" where expected kind_wanted));
         let gn = nat_of_int g in
         if not (enabled !c.g_sh gn e) then
           raise (Sched_fail (Printf.sprintf "blocked:%s:kind=%s" where expected));
         (match sched_step proto !c gn with
          | Some c' -> c := c'
          | None -> raise (Sched_fail (Printf.sprintf "blocked:%s:kind=%s" where expected)))) in
  let is_lock_kind k = (k = "RLock" || k = "RUnlock" || k = "Lock" || k = "Unlock") in
  (* advance g through its pending file-system events (everything before its next lock operation) *)
  let rec drain where g =
    match List.nth_opt !c.g_threads g with
    | Some t ->
      (match next_ev t with
       | Some e when not (is_lock_kind (kind_of_ev e)) -> step_one where g ""; drain where g
       | _ -> ())
    | None -> () in
  List.iteri (fun i (g, kind) ->
    let where = Printf.sprintf "i=%d:g=%d" i g in
    if g >= n then raise (Sched_fail ("nogoroutine:" ^ where));
    (* an EXCLUSIVE lock taken where the model takes the shared one is a stronger protocol, not another one: whenever the
       exclusive lock was granted the shared one would have been, so the model follows with its shared section (the schedules
       such an implementation can show are a subset of the model's). The converse - shared where the model is exclusive - is
       rejected. *)
    let next_kind () =
      match List.nth_opt !c.g_threads g with
      | Some t -> (match next_ev t with Some e -> kind_of_ev e | None -> "")
      | None -> "" in
    match kind with
    | "RLock" -> step_one where g "RLock"; held.(g) <- 1
    | "Lock" -> if next_kind () = "RLock" then step_one where g "RLock" else step_one where g "Lock"; held.(g) <- 2
    | "RUnlock" -> drain where g; step_one where g "RUnlock"; held.(g) <- 0
    | "Unlock" -> drain where g;
      if held.(g) = 2 && next_kind () = "RUnlock" then step_one where g "RUnlock" else step_one where g "Unlock";
      held.(g) <- 0
    | "FSd" | "FSu" -> ()
      (* FSd: making sure a directory exists (idempotent, safe to repeat concurrently); FSu: an operation on an io.Writer /
         io.Reader PARAMETER, behind which there may or may not be a file. Neither needs the lock to keep the file whole. *)
    | _ ->
      if held.(g) = 0 then raise (Sched_fail (Printf.sprintf "unprotected:%s:kind=%s" where kind)))
    evs;
  !c

let () =
  register "sched" (fun idx f ->
    try
      let proto = parse_proto (get_or f "proto" "repaired") in
      let file = opt_hex (get_or f "file" "~") in
      let calls = parse_calls (get_or f "calls" "~") in
      let evs = parse_events (get_or f "events" "~") in
      let n =
        1 + List.fold_left max (-1) (List.map fst calls @ List.map fst evs) in
      let prog =
        List.init n (fun g -> List.map snd (List.filter (fun (g', _) -> g' = g) calls)) in
      let c = replay proto (init_cfg file prog) evs in
      Printf.printf "sched %d ok=1 finished=%s file=%s outcomes=%s\n" idx
        (if finished c then "1" else "0") (file_s (final_file c)) (outcomes_s (outcomes c))
    with
    | Sched_fail r -> Printf.printf "sched %d ok=0 reason=%s\n" idx r
    | Failure r ->
      Printf.printf "sched %d ok=0 reason=parse:%s\n" idx
        (String.map (fun ch -> if ch = ' ' then '_' else ch) r))
