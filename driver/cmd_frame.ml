(* frame: the file-format functions on one (file, header, value) triple - the pure core of C01-C04:
   get_prev / add_entry / update_entry / escape / unescape. *)
open Model
open Util

let () =
  register "frame" (fun idx f ->
    let file = unhex (get f "file") and id = unhex (get f "id") and v = unhex (get f "value") in
    let prev = match get_prev id file with
      | Some (b, line) -> Printf.sprintf "%s@%d" (hex b) (int_of_nat line)
      | None -> "~" in
    Printf.printf "frame %d prev=%s added=%s updated=%s esc=%s unesc=%s\n" idx prev
      (if prev = "~" then hex (add_entry id v file) else "~")
      (if prev = "~" then "~" else hex (update_entry id v file)) (hex (escape v)) (hex (unescape v)))
