(* Driver for the extracted model: reads resolved op lines, prints observation lines.
   Line protocol (ASCII): <cmd> key=val ...; byte strings are lowercase hex, "-" = empty,
   "~" = absent / empty list; lists are comma separated. *)
open Model
open Util

let dummy_env = { ci = false; upd = UUnset; colour = false }

let () =
  let st = ref (init_state dummy_env [] []) in
  let idx = ref 0 in
  (try
    while true do
      let line = input_line stdin in
      let toks = String.split_on_char ' ' (String.trim line) in
      match toks with
      | [] | [""] -> ()
      | cmd :: rest ->
        let f = fields rest in
        (match cmd with
         | "case" -> Printf.printf "%s\n" line; idx := 0
         | "init" ->
           st := init_state (parse_env f) (unhex (get f "caller")) (unhex (get f "defdir"))
         | "dumpfs" -> print_fs !idx !st; Printf.printf "dirs %d list=*\n" !idx
         | "counters" -> print_counters !idx !st
         | "readslots" ->
           let path = unhex (get f "path") in
           let content = (match List.assoc_opt path (!st).s_fs with Some c -> c | None -> []) in
           let ids = List.filter (fun x -> x <> "") (String.split_on_char ',' (get f "ids")) in
           Printf.printf "slots %d %s\n" !idx
             (String.concat " " (List.map (fun ih ->
                ih ^ "=" ^ (match (if List.mem_assoc path (!st).s_fs then get_prev (unhex ih) content else None) with
                            | Some (b, _) -> hex b | None -> "~")) ids))
         | "clean" -> incr idx; st := Cmd_clean.run_clean !idx !st f
         | "readsum" -> incr idx; Cmd_clean.run_readsum !idx f
         | c when Hashtbl.mem extra_cmds c ->
           incr idx; (Hashtbl.find extra_cmds c) !idx f
         | _ ->
           let o =
             match cmd with
             | "match" ->
               OMatch (parse_api (get f "api"), nat_of_int (int_of_string (get f "h")),
                       unhex (get f "test"), parse_pre (get f "pre"))
             | "endtest" -> OEndTest (unhex (get f "test"))
             | "skip" -> OSkip (unhex (get f "test"))
             | "newconfig" ->
               ONewConfig (opt_hex (get f "fn"), opt_hex (get f "dir"), opt_hex (get f "ext"),
                           parse_optbool (get f "upd"))
             | "setenv" -> OSetEnv (parse_env f)
             | "putfile" -> OPutFile (unhex (get f "path"), unhex (get f "content"))
             | "putdir" -> OPutDir (unhex (get f "path"))
             | "newprocess" -> ONewProcess
             | c -> failwith ("unknown command " ^ c) in
           let (s', ob) = step !st o in
           st := s';
           incr idx;
           print_obs ~jpre:(if cmd = "match" then Cmd_jpre.jpre f else "*") !idx ob)
    done
  with End_of_file -> ());
  flush stdout
