(* snappath: base_caller over the recorded frames + snapshot_path_gen *)
open Model
open Util

let () =
  register "snappath" (fun idx f ->
    let opt k d = let v = get f k in if v = "~" then d else unhex v in
    let c = { c_filename = opt "fn" []; c_dir = unhex (get f "dir"); c_ext = opt "ext" []; c_update = None } in
    let frames =
      let s = get f "frames" in
      if s = "" || s = "~" then [] else
      List.map (fun it ->
        match String.split_on_char '@' it with
        | [fn; file] -> { fr_func = unhex fn; fr_file = unhex file }
        | _ -> failwith "frame") (String.split_on_char ',' s) in
    let caller = base_caller frames in
    let p = snapshot_path_gen (get f "trim" = "1") c caller (unhex (get f "test")) (get f "standalone" = "1") in
    Printf.printf "snappath %d probe=1 cfgsame=1 path=%s first=*\n" idx (hex p))
