(* Shared helpers for the driver of the extracted model.
   Line protocol (ASCII): <cmd> key=val ...; byte strings are lowercase hex, "-" = empty,
   "~" = absent. *)
type str = string
module SString = String
module LList = List
open Model

let rec pos_of_int (i : int) : positive =
  if i = 1 then XH
  else if i land 1 = 0 then XO (pos_of_int (i lsr 1))
  else XI (pos_of_int (i lsr 1))
let n_of_int (i : int) : n = if i = 0 then N0 else Npos (pos_of_int i)
let rec int_of_pos (p : positive) : int =
  match p with XH -> 1 | XO q -> 2 * int_of_pos q | XI q -> 2 * int_of_pos q + 1
let int_of_n (x : n) : int = match x with N0 -> 0 | Npos p -> int_of_pos p
let rec nat_of_int (i : int) : nat = if i <= 0 then O else S (nat_of_int (i - 1))
let int_of_nat (x : nat) : int =
  let rec go acc = function O -> acc | S y -> go (acc + 1) y in go 0 x

let byte_table : n array = Array.init 256 n_of_int

let unhex (s : str) : bytes =
  if s = "-" then [] else begin
    let len = String.length s / 2 in
    let rec go i acc =
      if i < 0 then acc
      else go (i - 1) (byte_table.(int_of_string ("0x" ^ String.sub s (2 * i) 2)) :: acc) in
    go (len - 1) []
  end

let hex (b : bytes) : str =
  match b with
  | [] -> "-"
  | _ ->
    let buf = Buffer.create 64 in
    List.iter (fun c -> Buffer.add_string buf (Printf.sprintf "%02x" (int_of_n c land 0xff))) b;
    Buffer.contents buf

let opt_hex (s : str) : bytes option = if s = "~" then None else Some (unhex s)

let fields (toks : str list) : (str * str) list =
  List.filter_map (fun t ->
    match String.index_opt t '=' with
    | Some i -> Some (String.sub t 0 i, String.sub t (i + 1) (String.length t - i - 1))
    | None -> None) toks

let get f k = try List.assoc k f with Not_found -> failwith ("missing field " ^ k)
let get_or f k d = try List.assoc k f with Not_found -> d

let parse_upd = function
  | "unset" -> UUnset | "true" | "raw:true" -> UTrue | "clean" | "raw:clean" -> UClean
  | "raw:" -> UUnset | _ -> UOther
let parse_env f : env =
  { ci = (get f "ci" = "1"); upd = parse_upd (get f "upd"); colour = (get_or f "colour" "0" = "1") }
let parse_api = function
  | "snap" -> ASnap | "json" -> AJson | "yaml" -> AYaml
  | "stand" -> AStand | "standjson" -> AStandJson
  | s -> failwith ("api " ^ s)
let parse_pre (s : str) : pre =
  if s = "novalues" then PNoValues else if s = "invalid" then PInvalid
  else if s = "matcherr" then PMatchErr
  else if String.length s >= 3 && String.sub s 0 3 = "ok:" then
    POk (unhex (String.sub s 3 (String.length s - 3)))
  else failwith ("pre " ^ s)
let parse_optbool = function "~" -> None | "1" -> Some true | _ -> Some false

let outcome_s = function
  | Passed -> "passed" | Added -> "added" | Updated -> "updated"
  | Failed ENotFound -> "failed:notfound" | Failed EDiff -> "failed:diff"
  | Failed EInvalid -> "failed:invalid" | Failed EMatchers -> "failed:matchers"
  | Warned -> "warned" | SkipLogged -> "skiplogged" | NoCall -> "nocall"
let log_s = function LAdded -> "added" | LUpdated -> "updated" | LSkipped -> "skipped" | LWarning -> "warning"
let wkind_s = function WCreate -> "create" | WAppend -> "append" | WRewrite -> "rewrite" | WRemove -> "remove"
let list_s f l = match l with [] -> "-" | _ -> String.concat "," (List.map f l)

let print_obs ?(jpre = "*") (i : int) (o : obs) =
  Printf.printf "obs %d outcome=%s errors=%d logs=%s path=%s id=%s line=%d writes=%s jpre=%s cfgsame=1\n" i
    (outcome_s o.o_outcome) (int_of_nat o.o_errors) (list_s log_s o.o_logs)
    (hex o.o_path) (hex o.o_id) (int_of_nat o.o_line)
    (list_s (fun (k, p) -> wkind_s k ^ ":" ^ hex p) o.o_writes) jpre

let print_fs (i : int) (s : state) =
  let l = List.map (fun (p, c) -> (hex p, hex c)) s.s_fs in
  let l = List.sort compare l in
  Printf.printf "fs %d %s\n" i (String.concat " " (List.map (fun (p, c) -> p ^ "=" ^ c) l))

let print_counters (i : int) (s : state) =
  let c = s.s_events in
  Printf.printf "counters %d erred=%d added=%d updated=%d passed=%d skipped=%d\n" i
    (int_of_nat c.n_erred) (int_of_nat c.n_added) (int_of_nat c.n_updated)
    (int_of_nat c.n_passed) (List.length s.s_skipped)


(* registry of additional commands: name -> handler(idx, fields); handlers print their own result lines *)
let extra_cmds : (str, (int -> (str * str) list -> unit)) Hashtbl.t = Hashtbl.create 16
let register (name : str) (h : int -> (str * str) list -> unit) = Hashtbl.replace extra_cmds name h

let hex_list (l : bytes list) : str = match l with [] -> "~" | _ -> String.concat "," (List.map hex l)
let unhex_list (s : str) : bytes list =
  if s = "~" then [] else List.map unhex (String.split_on_char ',' s)
