(* Clean, natural order and getTestID over the extracted model. The "clean" command needs the
   running state, so it is dispatched from main.ml; the pure ones are registered here. *)
open Model
open Util

let b01 b = if b then "1" else "0"

let () =
  register "natural" (fun idx f ->
    let ids = unhex_list (get f "ids") in
    let rec pairs l = match l with
      | [] -> [] | x :: r -> List.map (fun y -> (x, y)) l @ pairs r in
    let less = String.concat "" (List.map (fun (x, y) -> b01 (natural_less x y) ^ b01 (natural_less y x)) (pairs ids)) in
    Printf.printf "natural %d less=%s sorted=%s issorted=%s\n" idx (if less = "" then "-" else less)
      (hex_list (sort_nat ids)) (b01 (is_sorted_nat ids)));
  register "testid" (fun idx f ->
    let l = unhex (get f "line") in
    match get_test_id l with
    | Some id -> Printf.printf "testid %d ok=1 id=%s\n" idx (hex id)
    | None -> Printf.printf "testid %d ok=0 id=-\n" idx)

let run_clean (idx : int) (st : state) (f : (str * str) list) : state =
  let sort = get f "sort" = "1" in
  let count = nat_of_int (int_of_string (get f "count")) in
  let (st', r) = clean_run st sort count in
  let sl l = match l with [] -> "~" | _ -> String.concat "," (List.sort compare (List.map hex l)) in
  let ws = List.sort compare (List.map (fun (k, p) -> (match k with WRemove -> "remove" | _ -> "mod") ^ ":" ^ hex p) r.cr_writes) in
  let c = r.cr_counts in
  Printf.printf "clean %d ofiles=%s otests=%s writes=%s printed=%s passed=%d failed=%d added=%d updated=%d skipped=%d removed=%s\n"
    idx (sl r.cr_obsolete_files) (sl r.cr_obsolete_tests)
    (match ws with [] -> "-" | _ -> String.concat "," ws)
    (b01 r.cr_printed) (int_of_nat c.n_passed) (int_of_nat c.n_erred) (int_of_nat c.n_added)
    (int_of_nat c.n_updated) (int_of_nat r.cr_skipped) (b01 r.cr_removed);
  st'
