(* Clean, natural order and getTestID over the extracted model. The "clean" command needs the
   running state, so it is dispatched from main.ml; the pure ones are registered here. *)
open Model
open Util

let b01 b = if b then "1" else "0"

let () =
  register "natural" (fun idx f ->
    let ids = unhex_list (get f "ids") in
    let rec pairs l = match l with
      | [] -> [] | x :: r -> List.map (fun y -> (x, y)) l @ pairs r in
    let less = String.concat "" (List.map (fun (x, y) -> b01 (natural_less x y) ^ b01 (natural_less y x)) (pairs ids)) in
    Printf.printf "natural %d less=%s sorted=%s issorted=%s\n" idx (if less = "" then "-" else less)
      (hex_list (sort_nat ids)) (b01 (is_sorted_nat ids)));
  register "testid" (fun idx f ->
    let l = unhex (get f "line") in
    match get_test_id l with
    | Some id -> Printf.printf "testid %d ok=1 id=%s\n" idx (hex id)
    | None -> Printf.printf "testid %d ok=0 id=-\n" idx)

let last_clean : clean_result option ref = ref None

(* readsum: the bytes the implementation's Clean printed, read by the verified reader [read_summary]:
   ok = accepted; agree = what was read equals this model's own Clean result (lists as multisets);
   render = printing what was read (in the implementation's order) gives back exactly those bytes *)
let run_readsum (idx : int) (f : (str * str) list) : unit =
  let raw = unhex (get f "raw") in
  let nocolor = get f "nocolor" = "1" in
  match read_summary raw, !last_clean with
  | None, _ -> Printf.printf "readsum %d ok=0 agree=0 render=0\n" idx
  | Some _, None -> Printf.printf "readsum %d ok=1 agree=0 render=0\n" idx
  | Some rd, Some r ->
    let exp = sumread_of (sumdata_of_result r) in
    let srt l = List.sort compare (List.map hex l) in
    let agree = srt rd.sr_files = srt exp.sr_files && srt rd.sr_tests = srt exp.sr_tests
                && rd.sr_skipped = exp.sr_skipped && rd.sr_counts = exp.sr_counts && rd.sr_wording = exp.sr_wording in
    let d = { sd_files = rd.sr_files; sd_tests = rd.sr_tests; sd_skipped = rd.sr_skipped; sd_counts = rd.sr_counts;
              sd_update = r.cr_removed } in
    let render = clean_stdout nocolor d = raw in
    Printf.printf "readsum %d ok=1 agree=%s render=%s\n" idx (b01 agree) (b01 render)

let run_clean (idx : int) (st : state) (f : (str * str) list) : state =
  let sort = get f "sort" = "1" in
  let count = nat_of_int (int_of_string (get f "count")) in
  let (st', r) = clean_run st sort count in
  last_clean := Some r;
  let sl l = match l with [] -> "~" | _ -> String.concat "," (List.sort compare (List.map hex l)) in
  let ws = List.sort compare (List.map (fun (k, p) -> (match k with WRemove -> "remove" | _ -> "mod") ^ ":" ^ hex p) r.cr_writes) in
  let c = r.cr_counts in
  Printf.printf "clean %d layout=1 ofiles=%s otests=%s writes=%s printed=%s passed=%d failed=%d added=%d updated=%d skipped=%d removed=%s\n"
    idx (sl r.cr_obsolete_files) (sl r.cr_obsolete_tests)
    (match ws with [] -> "-" | _ -> String.concat "," ws)
    (b01 r.cr_printed) (int_of_nat c.n_passed) (int_of_nat c.n_erred) (int_of_nat c.n_added)
    (int_of_nat c.n_updated) (int_of_nat r.cr_skipped) (b01 r.cr_removed);
  st'
