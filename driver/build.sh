#!/bin/sh
# Builds the extracted model + driver into /verif/build/driver/model_driver
# Command modules are listed in driver/cmds.txt (one file name per line).
set -e
cd "$(dirname "$0")"
OUT=../build/driver
mkdir -p $OUT
CMDS=$(cat cmds.txt 2>/dev/null | tr '\n' ' ')
cp ../coq/model.ml ../coq/model.mli util.ml $CMDS main.ml $OUT/
cd $OUT
ocamlfind ocamlopt -O3 -w -a model.mli model.ml util.ml $CMDS main.ml -o model_driver 2>/dev/null || \
ocamlfind ocamlopt -w -a model.mli model.ml util.ml $CMDS main.ml -o model_driver
