#!/bin/sh
# Builds the extracted model + driver into /verif/build/driver/model_driver
set -e
cd "$(dirname "$0")"
OUT=../build/driver
mkdir -p $OUT
cp ../coq/model.ml ../coq/model.mli util.ml cmd_*.ml main.ml $OUT/ 2>/dev/null || cp ../coq/model.ml ../coq/model.mli util.ml main.ml $OUT/
cd $OUT
CMDS=$(ls cmd_*.ml 2>/dev/null || true)
ocamlfind ocamlopt -O3 -w -a model.mli model.ml util.ml $CMDS main.ml -o model_driver 2>/dev/null || \
ocamlfind ocamlopt -w -a model.mli model.ml util.ml $CMDS main.ml -o model_driver
