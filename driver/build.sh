#!/bin/sh
# Builds the extracted model + driver into /verif/build/driver/model_driver
set -e
cd "$(dirname "$0")"
OUT=../build/driver
mkdir -p $OUT
cp ../coq/model.ml ../coq/model.mli main.ml $OUT/
cd $OUT
ocamlfind ocamlopt -O2 -w -a -package str model.mli model.ml main.ml -o model_driver 2>/dev/null || \
ocamlfind ocamlopt -w -a model.mli model.ml main.ml -o model_driver
