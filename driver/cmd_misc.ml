(* Commands whose result the model does not speak about ("*" = not compared): they exist so that
   oracle-only ops can travel through the same transcript. *)
open Util

let () =
  register "yamlset" (fun idx _ -> Printf.printf "yamlset %d err=* valid=* result=*\n" idx)

let () =
  register "sched" (fun idx _ -> Printf.printf "sched %d ok=* finished=* file=* outcomes=*\n" idx);
  register "parallel" (fun idx _ -> Printf.printf "parallel %d rounds=* bad=*\n" idx)

let () =
  register "lockfiles" (fun idx _ -> Printf.printf "lockfiles %d ok=* n=*\n" idx);
  register "unlockfiles" (fun idx _ -> Printf.printf "unlockfiles %d n=*\n" idx)

(* symlink: the model's file system has no links (cases that use one are oracle-only); the line keeps the transcripts aligned *)
let () =
  register "symlink" (fun idx _ -> Printf.printf "obs %d outcome=nocall errors=0 logs=- writes=- line=0\n" idx)
