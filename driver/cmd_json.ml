(* Driver commands for the JSON model (Model/Json.v).
   Same line protocol as /verif/harness/whitebox/snaps_json_test.go:

     jsonsnap doc=<hex> width=<n> indent=<hex> sort=<0|1>
       -> jsonsnap <idx> valid=<0|1> text=<hex|->
          valid = Json.valid doc; text = Json.snapshot_json width indent sort doc
     jsonset doc=<hex> path=<hex> value=<hex>
       -> jsonset <idx> err=<0|1> result=<hex|-> caller_unchanged=1
          result = Json.set_path_text doc path value (default snapshot of the updated document);
          err=1 when the document/value is invalid, the path is not a simple dotted path or
          it does not exist.  The model has no buffers: caller_unchanged is always 1.

   Needs these identifiers in the Extraction command of Extract.v:
     valid snapshot_json set_path_text *)
open Model
open Util

let () =
  register "jsonsnap" (fun idx f ->
    let doc = unhex (get f "doc") in
    let width = nat_of_int (int_of_string (get f "width")) in
    let indent = unhex (get f "indent") in
    let sort = (get f "sort" = "1") in
    if valid doc then
      Printf.printf "jsonsnap %d valid=1 text=%s\n" idx (hex (snapshot_json width indent sort doc))
    else
      Printf.printf "jsonsnap %d valid=0 text=-\n" idx);

  register "jsonset" (fun idx f ->
    let doc = unhex (get f "doc") in
    let path = unhex (get f "path") in
    let value = unhex (get f "value") in
    (* the default layout (width, indentation) is a parameter handed over by the harness; members are sorted *)
    let width = nat_of_int (int_of_string (get_or f "width" "0")) in
    let indent = unhex (get_or f "indent" "20") in
    let res =
      if width = nat_of_int 0 && indent = unhex "20" then set_path_text doc path value
      else
        (match parse (nat_of_int (List.length value + 1)) value with
         | None -> None
         | Some x ->
           (match apply_matchers_snapshot width indent true [MAny ([path], x, true)] doc with
            | Some (r, []) -> Some r
            | _ -> None)) in
    match res with
    | Some r -> Printf.printf "jsonset %d err=0 result=%s caller_unchanged=1\n" idx (hex r)
    | None -> Printf.printf "jsonset %d err=1 result=- caller_unchanged=1\n" idx)
