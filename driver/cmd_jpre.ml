(* jpre: the model's OWN computation of what a MatchJSON / MatchStandaloneJSON call is about (validity, matcher application
   left to right with the discard rule, rendering under the Config's JSON options), compared with the payload `pre` the
   harness resolved by running the library's matcher / rendering code. "1" agree, "0" disagree, "*" not applicable
   (no JSON call, a matcher outside the model: Type[uint64], non-simple path, unparsable placeholder). *)
open Model
open Util

let parse_json (t : bytes) : jv option = parse (nat_of_int (List.length t + 1)) t

let jtype_of_string = function
  | "string" -> Some TString | "float64" -> Some TNumber | "bool" -> Some TBool
  | "map" -> Some TObject | "slice" -> Some TArray | _ -> None

exception Outside

let parse_matcher (s : str) : matcher =
  match String.split_on_char '|' s with
  | [kind; eom; arg; paths] ->
    let eom = (eom = "1") in
    let ps = List.map unhex (String.split_on_char '+' paths) in
    (match kind with
     | "any" ->
       let ph = if arg = "~" then Some (JStr (unhex "3c416e792076616c75653e")) else parse_json (unhex arg) in
       (match ph with Some v -> MAny (ps, v, eom) | None -> raise Outside)
     | "type" -> (match jtype_of_string arg with Some t -> MType (ps, t, eom) | None -> raise Outside)
     | "custom" ->
       let r = if arg = "!err" then CRError
         else (match parse_json (unhex arg) with Some v -> CRValue v | None -> raise Outside) in
       (match ps with [p] -> MCustom (p, r, eom) | _ -> raise Outside)
     | _ -> raise Outside)
  | _ -> raise Outside

let jpre (f : (str * str) list) : str =
  match List.assoc_opt "jdoc" f, List.assoc_opt "jms" f, List.assoc_opt "jopt" f with
  | Some doc, Some ms, Some opt when ms <> "~" ->
    (try
       let ms = if ms = "-" then [] else List.map parse_matcher (String.split_on_char ';' ms) in
       let (w, ind, srt) = match String.split_on_char ':' opt with
         | [w; i; s] -> (nat_of_int (int_of_string w), unhex i, s = "1") | _ -> raise Outside in
       let pre = get f "pre" in
       let unsupported = ref false in
       let expected =
         match apply_matchers_snapshot w ind srt ms (unhex doc) with
         | None -> "invalid"
         | Some (text, errs) ->
           List.iter (fun e -> match e.me_reason with RUnsupportedPath -> unsupported := true | _ -> ()) errs;
           (match errs with [] -> "ok:" ^ hex text | _ -> "matcherr") in
       if !unsupported then "*" else if expected = pre then "1" else "0"
     with Outside | Failure _ | Not_found -> "*")
  | _ -> "*"
