(* Driver commands for the line-diff engine and the NO_COLOR failure report (C13).
   Same line protocol as /verif/harness/whitebox/snaps_diff_test.go:

     opcodes a=<hex> b=<hex>
       -> opcodes <idx> na=<n> nb=<n> all=<groups> groups=<groups>
          groups = grouped_opcodes 3, all = grouped_opcodes (na+nb+1)
          <groups>: groups separated by "/", opcodes by ",", "~" = no group;
          opcode = <tag>:<i1>:<i2>:<j1>:<j2>, tag e|i|d|r
     diff a=<hex> b=<hex> name=<hex> line=<n> colour=0
       -> diff <idx> empty=<0|1> report=<hex>
          (colour=1 is not modelled: prints "diff <idx> unsupported=colour")

   Needs these identifiers in the Extraction command of Extract.v:
     split_newlines get_opcodes grouped_opcodes pretty_diff_nocolor *)
open Model
open Util

let tag_letter = function Equal -> "e" | Insert -> "i" | Delete -> "d" | Replace -> "r"

let opcode_s (c : opcode) : str =
  Printf.sprintf "%s:%d:%d:%d:%d" (tag_letter c.op_tag)
    (int_of_nat c.i1) (int_of_nat c.i2) (int_of_nat c.j1) (int_of_nat c.j2)

let groups_s (gs : opcode list list) : str =
  match gs with
  | [] -> "~"
  | _ -> String.concat "/" (List.map (fun g -> String.concat "," (List.map opcode_s g)) gs)

let () =
  register "opcodes" (fun idx f ->
    let al = split_newlines (unhex (get f "a")) in
    let bl = split_newlines (unhex (get f "b")) in
    let na = List.length al and nb = List.length bl in
    let all = grouped_opcodes (nat_of_int (na + nb + 1)) al bl in
    let groups = grouped_opcodes (nat_of_int 3) al bl in
    Printf.printf "opcodes %d na=%d nb=%d all=%s groups=%s\n" idx na nb (groups_s all) (groups_s groups));

  register "diff" (fun idx f ->
    if get_or f "colour" "0" <> "0" then begin
      (* colours on: only the pass/fail decision is modelled ("*" = not compared) *)
      let a = unhex (get f "a") and b = unhex (get f "b") in
      Printf.printf "diff %d empty=%s report=*\n" idx (if diff_empty a b then "1" else "0")
    end else begin
      let a = unhex (get f "a") and b = unhex (get f "b") in
      let name = unhex (get f "name") in
      let line = nat_of_int (int_of_string (get f "line")) in
      let report = pretty_diff_nocolor a b name line in
      Printf.printf "diff %d empty=%s report=%s\n" idx
        (match report with [] -> "1" | _ -> "0") (hex report)
    end)
