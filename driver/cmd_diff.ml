(* Driver commands for the line-diff engine and the NO_COLOR failure report (C13).
   Same line protocol as /verif/harness/whitebox/snaps_diff_test.go:

     opcodes a=<hex> b=<hex>
       -> opcodes <idx> na=<n> nb=<n> all=<groups> groups=<groups>
          groups = grouped_opcodes 3, all = grouped_opcodes (na+nb+1)
          <groups>: groups separated by "/", opcodes by ",", "~" = no group;
          opcode = <tag>:<i1>:<i2>:<j1>:<j2>, tag e|i|d|r
     diff a=<hex> b=<hex> name=<hex> line=<n> colour=0
       -> diff <idx> empty=<0|1> report=<hex>
          (colour=1 is not modelled: prints "diff <idx> unsupported=colour")

   Needs these identifiers in the Extraction command of Extract.v:
     split_newlines get_opcodes grouped_opcodes pretty_diff_nocolor valid_script groups_of_script report_of_script unified_of_script read_report report_read_of groups_of_script_n unified_of_script_n report_of_script_n *)
open Model
open Util

let tag_letter = function Equal -> "e" | Insert -> "i" | Delete -> "d" | Replace -> "r"

let opcode_s (c : opcode) : str =
  Printf.sprintf "%s:%d:%d:%d:%d" (tag_letter c.op_tag)
    (int_of_nat c.i1) (int_of_nat c.i2) (int_of_nat c.j1) (int_of_nat c.j2)

let groups_s (gs : opcode list list) : str =
  match gs with
  | [] -> "~"
  | _ -> String.concat "/" (List.map (fun g -> String.concat "," (List.map opcode_s g)) gs)

let b01 b = if b then "1" else "0"

(* a context larger than both texts yields ONE group holding the whole script - except for two identical texts, whose
   single Equal opcode GetGroupedOpCodes drops: the script is then that opcode *)
let script_of (al : bytes list) (bl : bytes list) (gs : opcode list list) : opcode list =
  match gs with
  | [] when al = bl ->
    let n = nat_of_int (List.length al) in
    [{ op_tag = Equal; i1 = nat_of_int 0; i2 = n; j1 = nat_of_int 0; j2 = n }]
  | _ -> List.concat gs

let tag_of_letter = function
  | "e" -> Equal | "i" -> Insert | "d" -> Delete | "r" -> Replace
  | s -> failwith ("opcode tag " ^ s)

let parse_groups (s : str) : opcode list list =
  if s = "~" || s = "" then []
  else
    List.map (fun g ->
      List.map (fun c ->
        match String.split_on_char ':' c with
        | [t; a1; a2; b1; b2] ->
          { op_tag = tag_of_letter t; i1 = nat_of_int (int_of_string a1); i2 = nat_of_int (int_of_string a2);
            j1 = nat_of_int (int_of_string b1); j2 = nat_of_int (int_of_string b2) }
        | _ -> failwith ("opcode " ^ c))
        (String.split_on_char ',' g))
      (String.split_on_char '/' s)

(* The script the IMPLEMENTATION chose (iall, obtained with a context larger than both texts: one group holding every opcode)
   is checked, not re-derived: valid = it passes [valid_script] (Properties/C13.v: C13_script_* hold for every such script);
   hunks = the implementation's hunks are [groups_of_script] of its script. The model's own matcher's choice is printed too
   (all / groups): a difference there is presentation drift (another valid script), not a broken tie. *)
let () =
  register "opcodes" (fun idx f ->
    let al = split_newlines (unhex (get f "a")) in
    let bl = split_newlines (unhex (get f "b")) in
    let na = List.length al and nb = List.length bl in
    let all = grouped_opcodes (nat_of_int (na + nb + 1)) al bl in
    let groups = grouped_opcodes (nat_of_int 3) al bl in
    (* the number of context lines is presentation (C13_script_n_*: every statement holds for every n): the library's own
       constant is handed over and used to group and print the library's script *)
    let ctx = nat_of_int (int_of_string (get_or f "ctx" "3")) in
    let v, h =
      match List.assoc_opt "iall" f, List.assoc_opt "igroups" f with
      | Some ia, Some ig ->
        (try
           let script = script_of al bl (parse_groups ia) in
           (b01 (valid_script al bl script), b01 (groups_of_script_n ctx script = parse_groups ig))
         with Failure _ -> ("0", "0"))
      | _ -> ("*", "*") in
    Printf.printf "opcodes %d na=%d nb=%d valid=%s hunks=%s all=%s groups=%s\n" idx na nb v h (groups_s all) (groups_s groups));

  register "diff" (fun idx f ->
    if get_or f "colour" "0" <> "0" then begin
      (* colours on: only the pass/fail decision is modelled ("*" = not compared) *)
      let a = unhex (get f "a") and b = unhex (get f "b") in
      Printf.printf "diff %d empty=%s valid=* readable=* report=* own=*\n" idx (if diff_empty a b then "1" else "0")
    end else begin
      let a = unhex (get f "a") and b = unhex (get f "b") in
      let name = unhex (get f "name") in
      let line = nat_of_int (int_of_string (get f "line")) in
      let own = pretty_diff_nocolor a b name line in
      (* the report printed from the implementation's own script, when it handed one over *)
      (* readable: the bytes the implementation printed (ireport), read by the verified reader [read_report], give exactly the
         counts, the shown lines and the footer of the structured report of the implementation's script - whatever the two
         header labels and their padding are (Proofs/ReportReaderP.v: read_report_label_irrelevant) *)
      let (valid, readable, report) =
        match List.assoc_opt "iall" f with
        | Some ia ->
          (try
             let al = split_newlines a and bl = split_newlines b in
             let script = script_of al bl (parse_groups ia) in
             let ctx = nat_of_int (int_of_string (get_or f "ctx" "3")) in
             let report = report_of_script_n ctx a b script name line in
             let readable =
               match List.assoc_opt "ireport" f with
               | Some "*" | None -> "*"
               | Some ir ->
                 let bytes_printed = if ir = "-" then [] else unhex ir in
                 if a = b then b01 (bytes_printed = [])
                 else if List.mem (n_of_int 10) name then "*"        (* outside the reader's hypothesis name_ok *)
                 else b01 (read_report bytes_printed = Some (report_read_of (unified_of_script_n ctx al bl script) name line)) in
             (b01 (valid_script al bl script), readable, report)
           with Failure _ -> ("0", "0", own))
        | None -> ("*", "*", own) in
      Printf.printf "diff %d empty=%s valid=%s readable=%s report=%s own=%s\n" idx
        (match report with [] -> "1" | _ -> "0") valid readable (hex report) (hex own)
    end)
