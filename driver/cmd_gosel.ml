(* gosel: which tests `go test -run <pat>` selects (Model/GoRun.v) and what go-snaps' whole-id match says (Model/RunFilter.v) *)
open Model
open Util

let () =
  register "gosel" (fun idx f ->
    let pat = unhex (get f "pat") in
    let names = List.filter (fun x -> x <> "") (String.split_on_char ',' (get f "names")) in
    Printf.printf "gosel %d sel=%s\n" idx
      (String.concat "," (List.map (fun nh -> nh ^ ":" ^ (if go_selects pat (unhex nh) then "1" else "0")) names)))

(* skiprun / fileskip: go-snaps' own -run decisions (Model/RunFilter.v), compared with the library's testSkipped / isFileSkipped *)
let hexlist s = if s = "~" || s = "" then [] else List.map unhex (String.split_on_char ',' s)

let () =
  register "skiprun" (fun idx f ->
    let pat = unhex (get f "pat") in
    let skipped = hexlist (get f "skipped") in
    let ids = if get f "ids" = "~" then [] else String.split_on_char ',' (get f "ids") in
    let res = List.map (fun ih -> ih ^ ":" ^ (if test_skipped_run skipped pat (unhex ih) then "1" else "0")) ids in
    Printf.printf "skiprun %d res=%s\n" idx (if res = [] then "~" else String.concat "," res));
  register "fileskip" (fun idx f ->
    let pat = unhex (get f "pat") in
    let funcs = if get f "sibling" = "1" then Some (hexlist (get f "funcs")) else None in
    Printf.printf "fileskip %d res=%s\n" idx (if file_skipped_run pat funcs then "1" else "0"))
