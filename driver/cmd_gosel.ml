(* gosel: which tests `go test -run <pat>` selects (Model/GoRun.v) and what go-snaps' whole-id match says (Model/RunFilter.v) *)
open Model
open Util

let () =
  register "gosel" (fun idx f ->
    let pat = unhex (get f "pat") in
    let names = List.filter (fun x -> x <> "") (String.split_on_char ',' (get f "names")) in
    Printf.printf "gosel %d sel=%s\n" idx
      (String.concat "," (List.map (fun nh -> nh ^ ":" ^ (if go_selects pat (unhex nh) then "1" else "0")) names)))
