"""Generic property runner: proofs + correspondence + oracle + verdict + evidence."""
import json, os, shutil, sys, tempfile, time, zlib, collections
import common
from common import (Rng, build_coq, build_driver, build_go, run_impl, run_model, parse_results, parse_ops,
                    compare, check_property_file, coqchk_property, grep_gate, assumptions_summary, load_known, write_evidence,
                    write_replay, case_hash, BuildError, VERIF, BUILD)


class Prop:
    """Base class; property modules override what they need."""
    pid = "C00"
    pkg = "snaps"
    test = "^TestVerifTrace$"
    fields = {"obs": ["outcome", "errors", "logs", "writes", "cfgsame", "~line"], "fs": "*", "counters": "*"}
    rule = ""
    outside_model = ""
    trusted = []

    def gen(self, rng, tier):
        return []

    def skip(self, why="guard"):
        """an oracle guard: the case does not have the shape the oracle judges (shrunk case, failed set-up, other API ...).
        Counted, so that the evidence says how many generated cases were actually judged."""
        if not hasattr(self, "_skipped"):
            self._skipped = collections.Counter()
        self._skipped[why] += 1
        return []

    def oracle(self, case, ops, results):
        """Property oracle on one transcript. -> list of {'msg':..., ...}"""
        return []

    def in_model_domain(self, case):
        """False => the case is outside the hypotheses under which the model claims to follow the code
        (only the oracle is evaluated on the implementation)."""
        return not case.get("meta", {}).get("oracle_only")

    def nontrivial(self, case, ops, results):
        return True

    def known_signature(self, finding, case, ops, results, failure):
        """True when this oracle failure is the (narrow) known finding `finding`."""
        return False

    def stats(self, case, ops, results, dist):
        pass

    def extra_coverage(self):
        return {}

    def extra_run(self, tier, seed, workdir):
        """Optional black-box part. -> (list of failure dicts, coverage dict)"""
        return [], {}


def load_corpus(pid):
    d = os.path.join(VERIF, "corpus", pid)
    res = []
    if os.path.isdir(d):
        for f in sorted(os.listdir(d)):
            if f.endswith(".json"):
                c = json.load(open(os.path.join(d, f)))
                c = c.get("case", c)
                c.setdefault("meta", {})["corpus"] = f
                res.append(c)
    return res


def fail_kind(msg):
    """the complaint with its data removed: numbers, byte strings, quoted text, lists"""
    import re
    return re.sub(r"b'(?:[^'\\]|\\.)*'|b\"(?:[^\"\\]|\\.)*\"|\[[^\]]*\]|[0-9a-f]{6,}|[0-9]+", "#", msg)[:60]


def safe_oracle(prop, c, ops, results, side):
    """The oracle reads transcripts; a transcript it cannot interpret (a side that stopped early or answered in another
    shape) is a failure of that side, never a crash of the check."""
    try:
        if any(r[0] == "clean" and r[2].get("layout") == "0" for r in results or []):
            return prop.skip("the summary Clean printed has a layout the harness cannot read: nothing is judged from it")
        if not getattr(prop, "wants_dirs", False):
            # (the directory listings printed at checkpoints are read by the oracles that ask for them; the others - some walk
            # ops and results side by side - see the transcript without them)
            results = [r for r in (results or []) if r[0] != "dirs"]
        return prop.oracle(c, ops, results)
    except Exception as e:                                   # noqa: BLE001
        return [{"msg": "the %s transcript could not be interpreted by the oracle (%s: %s)" % (side, type(e).__name__, e), "oracle_error": True}]


def evaluate(prop, cases, bins, driver, workdir, want_model=True):
    impl = run_impl(bins[prop.pkg], cases, workdir, test=prop.test)
    # (cases outside the model's domain are not replayed on the model at all: nothing of its answer would be used, and some of
    # them - documents nested ten thousand levels deep - cost the extracted model more time than a check has)
    by_id = {c["id"]: c for c in cases}
    model = run_model(driver, {cid: l for cid, l in impl.items() if cid in by_id and prop.in_model_domain(by_id[cid])}) if want_model else {}
    out = {}
    for c in cases:
        cid = c["id"]
        lines = impl.get(cid)
        if lines is None:
            raise BuildError("implementation produced no transcript for case %d" % cid)
        ops = [o for o in parse_ops(lines) if o[0] != "readsum"]   # pseudo-op emitted by the harness itself (Clean's stdout)
        ri = parse_results(lines)
        rm = parse_results(model.get(cid, [])) if want_model else None
        mism = []
        if want_model and prop.in_model_domain(c):
            mism = compare(ri, rm, prop.fields)
        fi = safe_oracle(prop, c, ops, ri, "implementation")
        fm = safe_oracle(prop, c, ops, rm, "model") if (want_model and prop.in_model_domain(c)) else []
        out[cid] = dict(ops=ops, ri=ri, rm=rm, mism=mism, fi=fi, fm=fm, lines=lines,
                        model_lines=model.get(cid, []))
    return out


def shrink(prop, case, pred_batch, max_rounds=40):
    """Greedy delta debugging on the op list. pred_batch(list of cases) -> list of bool (still failing)."""
    cur = case
    n = 2
    rounds = 0
    while rounds < max_rounds and len(cur["ops"]) > 1:
        rounds += 1
        ops = cur["ops"]
        size = max(1, len(ops) // n)
        cands = []
        for start in range(0, len(ops), size):
            sub = ops[:start] + ops[start + size:]
            if sub:
                c = dict(cur)
                c["ops"] = sub
                cands.append(c)
        if not cands:
            break
        for i, c in enumerate(cands):
            c["id"] = 900000 + i
        res = pred_batch(cands)
        hit = next((c for c, r in zip(cands, res) if r), None)
        if hit is not None:
            cur = hit
            n = max(2, n - 1)
        else:
            if size == 1:
                break
            n = min(len(ops), n * 2)
    return cur


def run_property(prop, tier, seed, replay_path=None):
    if replay_path:
        try:
            rp0 = json.load(open(replay_path))
        except Exception:                                      # noqa: BLE001
            rp0 = {}
        if "case" not in rp0 and "ops" not in rp0:
            # replays of black-box, build and proof failures carry no op list: they are replayed by running the whole check again
            replay_path = None
    t0 = time.time()
    pid = prop.pid
    out_lines = []
    violations = []      # (replay_path, suffix)
    known_printed = []

    def say(s):
        print(s, flush=True)

    # ---- 1. proof obligations
    # VERIF_SKIP_COQ=1 is for the mutation tooling only (tools/mutrun.py, tools/mutone.py): the proof obligations do not
    # depend on /repo, so re-checking them for each of a thousand mutants of /repo would only burn time. Never set by the
    # commands registered in MANIFEST.json.
    skip_coq = os.environ.get("VERIF_SKIP_COQ") == "1" and os.path.realpath(common.OUTDIR) != os.path.realpath(common.VERIF)
    # (the switch is ignored unless evidence and replays are redirected away from /verif: a run that writes /verif/evidence
    # always re-checks the proofs)
    coq_ok, coq_log = (True, "") if skip_coq else build_coq()
    gate = grep_gate()
    proof_ok, theorems, examples, pa_text = False, [], [], ""
    if skip_coq:
        proof_ok = True
    elif coq_ok:
        proof_ok, theorems, examples, pa_text, _ = check_property_file(pid)
    closed, axioms = assumptions_summary(pa_text)
    broken = []
    if not coq_ok:
        broken.append("coq build failed: " + coq_log[-1500:])
    elif not proof_ok:
        broken.append("Properties/%s.v does not check: %s" % (pid, pa_text[-1500:]))
    if gate:
        broken.append("forbidden constructs: " + "; ".join(gate[:5]))
    chk_note = None
    if coq_ok and proof_ok and tier == "thorough" and not replay_path:
        chk_ok, chk_ax, chk_tail = coqchk_property(pid)
        chk_note = "coqchk -o: %s; axioms: %s" % ("ok" if chk_ok else "FAILED", chk_ax)
        if not chk_ok:
            broken.append("coqchk rejects Properties/%s.vo: %s" % (pid, chk_tail))
        elif chk_ax not in ("<none>",):
            broken.append("coqchk reports axioms: " + chk_ax)
    if axioms:
        # DESIGN.md section 8 claims NO axiom at all (not even the standard library's): any is a broken obligation
        broken.append("axioms reported by Print Assumptions: " + " | ".join(a.strip().replace("\n", " ") for a in axioms))
    if coq_ok and proof_ok and not skip_coq and closed < len(theorems):
        broken.append("Print Assumptions answered 'Closed under the global context' %d times for %d theorems: every theorem of "
                      "Properties/%s.v must be followed by its Print Assumptions" % (closed, len(theorems), pid))

    # ---- 2. executables
    workdir = tempfile.mkdtemp(prefix="run-%s-" % pid, dir=ensure(os.path.join(BUILD, "run")))
    try:
        driver = build_driver()
        bins = build_go(pid, instrument=getattr(prop, "instrument", False))

        # ---- 3. cases
        rng = Rng(seed * 1000003 + zlib.crc32(pid.encode()))
        known = load_known(pid)
        cases = []
        if replay_path:
            rp = json.load(open(replay_path))
            c = rp.get("case", rp)
            c.setdefault("meta", {})["replay"] = True
            cases = [c]
        else:
            for k in known:
                if k.get("status") == "known" and k.get("witness"):
                    w = json.load(open(os.path.join(VERIF, k["witness"])))
                    c = w.get("case", w)
                    c.setdefault("meta", {})["witness_of"] = k["id"]
                    cases.append(c)
            cases += load_corpus(pid)
            cases += prop.gen(rng, tier)
        for i, c in enumerate(cases):
            c["id"] = i + 1
            c.setdefault("meta", {})
        if not cases:
            raise BuildError("the generator produced no case: nothing would be checked")

        # ---- 4./5. run and evaluate
        prop._skipped = collections.Counter()
        common.DRIFT.clear()
        common.CANARY.clear()
        ev = evaluate(prop, cases, bins, driver, workdir)
        drift0 = dict(common.DRIFT)
        # (the oracle runs on the implementation transcript and on the model transcript of every case: halve)
        not_judged = {k: (v + 1) // 2 for k, v in prop._skipped.items()}

        def pred_oracle(finding_filter, kinds=None):
            def pb(cands):
                e = evaluate(prop, cands, bins, driver, workdir, want_model=False)
                # a shrunk candidate the oracle cannot read is not "still failing"; and the failure must stay of the
                # same kind (shrinking must not drift to a different complaint about a mangled case)
                return [any(finding_filter(c, e[c["id"]], f) for f in e[c["id"]]["fi"]
                            if not f.get("oracle_error") and not f.get("tie") and (kinds is None or fail_kind(f["msg"]) in kinds)) for c in cands]
            return pb

        def pred_mismatch(cands):
            e = evaluate(prop, cands, bins, driver, workdir, want_model=True)
            return [bool(e[c["id"]]["mism"]) or any(f.get("tie") for f in e[c["id"]]["fi"]) for c in cands]

        dist = collections.Counter()
        seen = set()
        nontrivial = 0
        witness_seen = set()
        unknown_fail, mism_cases = [], []
        for c in cases:
            r = ev[c["id"]]
            prop.stats(c, r["ops"], r["ri"], dist)
            h = case_hash(c)
            if h not in seen:
                seen.add(h)
                if prop.nontrivial(c, r["ops"], r["ri"]):
                    nontrivial += 1
            fails_unknown = []
            for f in r["fi"]:
                kid = None
                for k in known:
                    if k.get("status") == "known" and prop.known_signature(k, c, r["ops"], r["ri"], f):
                        kid = k["id"]
                        break
                if kid:
                    dist["known:" + kid] += 1
                    if c["meta"].get("witness_of") == kid:
                        witness_seen.add(kid)
                else:
                    fails_unknown.append(f)
            # complaints that are about the TIE, not about an input: the oracle could not read the transcript, or says itself that
            # what it sees may be the harness's blindness (flag "tie"). They are reported, never as a failing input.
            tie_only = [f for f in fails_unknown if f.get("oracle_error") or f.get("tie")]
            fails_unknown = [f for f in fails_unknown if not (f.get("oracle_error") or f.get("tie"))]
            if fails_unknown:
                unknown_fail.append((c, fails_unknown))
            elif r["mism"] or tie_only:
                mism_cases.append((c, r["mism"] + ["oracle: " + f["msg"] for f in tie_only]))

        # ---- 5b. black-box part (no model involved)
        bb_fails, bb_cov = ([], {}) if replay_path else prop.extra_run(tier, seed, workdir)

        witness_seen |= set(bb_cov.pop("_known_hits", []))
        for k in known:
            if k.get("status") == "known":
                tag = "" if k["id"] in witness_seen else " (witness not reproduced on this tree)"
                say("KNOWN-FINDING: property=%s %s: %s%s" % (pid, k["id"], k.get("what", ""), tag))

        # ---- 6. verdict
        def is_unknown(c, r, f):
            return not any(k.get("status") == "known" and prop.known_signature(k, c, r["ops"], r["ri"], f)
                           for k in known)

        dead = sorted(k for k, v in common.CANARY.items() if v == "0")
        if unknown_fail and dead and not getattr(prop, "black_box_only", False):
            # the harness no longer controls the library (a lever it pulls between "processes" is dead): the transcripts
            # describe processes that cannot exist, so the oracle failures are no evidence of a failing input
            c, fs = unknown_fail[0]
            path = write_replay(pid, {"property": pid, "kind": "harness-levers", "seed": seed, "dead_levers": dead,
                                      "note": "canaries of harness/whitebox/snaps_canary_test.go: the library no longer follows the package "
                                              "variables / flags / stdout swap / directory resets this harness uses to play several processes in one; "
                                              "the oracle complaints below were made on such transcripts and are NOT claimed as failing inputs",
                                      "oracle_complaints": [f["msg"] for f in fs][:5], "case": strip(c),
                                      "failing_cases": len(unknown_fail)})
            say("VIOLATION property=%s replay=%s no-failing-input-found" % (pid, path))
            violations.append(path)
        elif unknown_fail:
            c, fs = unknown_fail[0]
            kinds = {fail_kind(f["msg"]) for f in fs if not f.get("oracle_error")} or None
            # (properties whose cases are a fixed few ops long and whose oracle reads the cell from meta are not shrunk)
            small = shrink(prop, strip(c), pred_oracle(is_unknown, kinds)) if (not replay_path and getattr(prop, "shrinkable", True)) else strip(c)
            small["id"] = 1
            e = evaluate(prop, [small], bins, driver, workdir)[1]
            path = write_replay(pid, {"property": pid, "kind": "oracle", "seed": seed,
                                      "failures": [f["msg"] for f in (e["fi"] or fs)][:5],
                                      "case": strip(small), "shrunk_from_ops": len(c["ops"]),
                                      "implementation_transcript": e["lines"],
                                      "model_transcript": e["model_lines"],
                                      "mismatches": e["mism"][:5],
                                      "other_failing_cases": len(unknown_fail) - 1})
            say("VIOLATION property=%s replay=%s" % (pid, path))
            violations.append(path)
        elif bb_fails and any(not f.get("tie") for f in bb_fails):
            conc = [f for f in bb_fails if not f.get("tie")]
            path = write_replay(pid, {"property": pid, "kind": "oracle", "seed": seed, "engine": "black-box program",
                                      "failures": [f["msg"] for f in conc][:8], "detail": conc[0]})
            say("VIOLATION property=%s replay=%s" % (pid, path))
            violations.append(path)
        elif bb_fails:
            # the black-box part compared a MODEL function with an independent oracle (e.g. Go's own test runner) and they differ:
            # a broken tie, no input on which the library fails
            path = write_replay(pid, {"property": pid, "kind": "correspondence", "seed": seed, "engine": "black-box program",
                                      "relation": "model function against the independent oracle of the black-box part",
                                      "mismatches": [f["msg"] for f in bb_fails][:8]})
            say("VIOLATION property=%s replay=%s no-failing-input-found" % (pid, path))
            violations.append(path)
        elif mism_cases:
            c, mm = mism_cases[0]
            small = shrink(prop, strip(c), pred_mismatch) if not replay_path else strip(c)
            small["id"] = 1
            e = evaluate(prop, [small], bins, driver, workdir)[1]
            # targeted search around the mismatch: the property's adversarial stream
            found = None
            extra = prop.gen(Rng(seed + 7919), "thorough")[:4000] if hasattr(prop, "gen") else []
            for i, x in enumerate(extra):
                x["id"] = i + 1
                x.setdefault("meta", {})
            if extra:
                e2 = evaluate(prop, extra, bins, driver, workdir, want_model=False)
                for x in extra:
                    r2 = e2[x["id"]]
                    bad = [f for f in r2["fi"] if is_unknown(x, r2, f) and not f.get("tie") and not f.get("oracle_error")]
                    if bad:
                        found = (x, bad)
                        break
            if found:
                x, bad = found
                sm = shrink(prop, strip(x), pred_oracle(is_unknown))
                sm["id"] = 1
                e3 = evaluate(prop, [sm], bins, driver, workdir)[1]
                path = write_replay(pid, {"property": pid, "kind": "oracle", "seed": seed,
                                          "failures": [f["msg"] for f in e3["fi"]][:5], "case": strip(sm),
                                          "implementation_transcript": e3["lines"],
                                          "model_transcript": e3["model_lines"],
                                          "found_by": "targeted search after correspondence mismatch",
                                          "correspondence_mismatch": mm[:5]})
                say("VIOLATION property=%s replay=%s" % (pid, path))
            else:
                path = write_replay(pid, {"property": pid, "kind": "correspondence", "seed": seed,
                                          "relation": "model/implementation observables: " + json.dumps(prop.fields),
                                          "mismatches": (e["mism"] or mm)[:8] + ["oracle: " + f["msg"] for f in e["fi"] if f.get("tie") or f.get("oracle_error")][:4], "case": strip(small),
                                          "implementation_transcript": e["lines"],
                                          "model_transcript": e["model_lines"],
                                          "mismatching_cases": len(mism_cases),
                                          "note": "theorems of Properties/%s.v no longer speak about this code" % pid})
                say("VIOLATION property=%s replay=%s no-failing-input-found" % (pid, path))
            violations.append(path)
        elif broken:
            # proof obligation broken: search the model for a failing input
            mf = next(((c, ev[c["id"]]) for c in cases if ev[c["id"]]["fm"]), None)
            payload = {"property": pid, "kind": "proof", "seed": seed, "broken": broken,
                       "theorems": theorems}
            if mf:
                payload["case"] = strip(mf[0])
                payload["failures"] = [f["msg"] for f in mf[1]["fm"]][:5]
                path = write_replay(pid, payload)
                say("VIOLATION property=%s replay=%s" % (pid, path))
            else:
                path = write_replay(pid, payload)
                say("VIOLATION property=%s replay=%s no-failing-input-found" % (pid, path))
            violations.append(path)

        # ---- 7. evidence
        samples = []
        for c in cases[:400]:
            if not c["meta"].get("witness_of") and len(samples) < 3:
                samples.append({"ops": c["ops"][:12], "env": {k: c.get(k) for k in ("ci", "updvar", "colour")}})
        obligations = len(theorems) + len(examples)
        cov = {
            "obligations": obligations,
            "discharged": obligations if (coq_ok and proof_ok and not gate) else 0,
            "checker_cmd": "make -C /verif/coq (coqc 8.16.1, full .vo build) && coqc -Q theories Snaps theories/Properties/%s.v" % pid,
            "trusted_base": [
                "Coq 8.16.1 kernel (coqc; vm_compute used for examples/finite tables; no native_compute)",
                "Print Assumptions: %d theorem(s) closed under the global context; axioms: %s" % (closed, "; ".join(a.strip().replace("\n", " ") for a in axioms) or "none"),
                "extraction (ExtrOcamlBasic only, no Extract Constant of our own) + OCaml 4.13.1 driver /verif/driver/main.ml",
                "correspondence check: Go harness /verif/harness/whitebox (overlay-injected, tag verif) + this orchestrator",
            ] + ([chk_note] if chk_note else []) + list(prop.trusted),
            "theorems": theorems, "examples": examples,
            "evaluations": len(cases),
            "distinct_nontrivial": nontrivial,
            "rule": prop.rule,
            "samples": samples,
            "traces_validated_against_impl": sum(1 for c in cases if prop.in_model_domain(c)),
            "correspondence_mismatches": len(mism_cases),
            "oracle_failures_unknown": len(unknown_fail),
            "oracle_guarded_out": dict(sorted(not_judged.items())),
            "presentation_drift": dict(sorted(drift0.items())),
            "harness_canaries": dict(sorted(common.CANARY.items())),
            "oracle_judged_cases_at_least": max(0, len(cases) - sum(not_judged.values())),
            "distribution": dict(sorted(dist.items())),
            "outside_model": prop.outside_model,
        }
        cov.update(prop.extra_coverage())
        cov.update(bb_cov)
        write_evidence(pid, tier, seed, cov,
                       ["FS calls succeed", "model hand-written; tied to the code only by the correspondence run above"]
                       + list(prop.trusted), time.time() - t0, len(violations))
    except Exception as e:                                     # noqa: BLE001  (BuildError or an internal error of the machinery)
        import traceback
        kind = "build" if isinstance(e, BuildError) else "internal"
        path = write_replay(pid, {"property": pid, "kind": kind, "error": (str(e) if kind == "build" else traceback.format_exc())[-3000:]})
        say("VIOLATION property=%s replay=%s no-failing-input-found" % (pid, path))
        write_evidence(pid, tier, seed, {"evaluations": 1, "distinct_nontrivial": 0, "explanation": "build failed",
                                         "obligations": 1, "discharged": 0, "checker_cmd": "n/a", "trusted_base": []},
                       [], time.time() - t0, 1)
        return 1
    finally:
        shutil.rmtree(workdir, ignore_errors=True)
    say("%s: %d cases, %.1fs, %s" % (pid, len(cases), time.time() - t0, "VIOLATION" if violations else "ok"))
    return 1 if violations else 0


def strip(c):
    return {k: v for k, v in c.items() if k not in ("id",)}


def ensure(d):
    os.makedirs(d, exist_ok=True)
    return d


STD_AXIOMS = ("functional_extensionality", "classic", "proof_irrelevance", "JMeq_eq", "Eqdep.Eq_rect_eq", "eq_rect_eq")


def prop_axioms_allowed(text):
    names = [l.split(":")[0].strip() for l in text.strip().splitlines() if ":" in l and not l.startswith(" ")]
    return all(any(s in n for s in STD_AXIOMS) for n in names)
