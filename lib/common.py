"""Shared machinery: builds, PRNG, transcript parsing, comparison, evidence, verdicts."""
import collections, fcntl, hashlib, json, os, re, subprocess, sys, time, shutil, tempfile

VERIF = os.path.dirname(os.path.dirname(os.path.abspath(__file__)))
REPO = os.environ.get("VERIF_REPO", "/repo")
COQ = os.path.join(VERIF, "coq")
BUILD = os.path.join(VERIF, "build")
# scratch evaluations (mutation testing) redirect evidence/replays and tag their builds
OUTDIR = os.environ.get("VERIF_OUTDIR", VERIF)
BUILD_TAG = os.environ.get("VERIF_BUILD_TAG", "")
# Child processes get a WHITELISTED environment: nothing of the caller's CI / UPDATE_SNAPS / NO_COLOR / GOFLAGS / editor variables
# may leak into the library under test (ciinfo alone treats about sixty variables as "running on CI").
_KEEP = ("PATH", "HOME", "USER", "LOGNAME", "LANG", "LC_ALL", "TMPDIR", "GOPATH", "GOCACHE", "GOMODCACHE", "GOROOT", "GOTMPDIR", "XDG_CACHE_HOME")


def clean_env(**extra):
    env = {k: v for k, v in os.environ.items() if k in _KEEP}
    env.update(GOFLAGS="-mod=mod", GOPROXY="off", GOSUMDB="off", GOTOOLCHAIN="local")
    env.update(extra)
    return env


GOENV = clean_env()
NCPU = os.cpu_count() or 4


# ---------------------------------------------------------------- PRNG (splitmix64)
class Rng:
    def __init__(self, seed):
        self.s = seed & 0xFFFFFFFFFFFFFFFF

    def next(self):
        self.s = (self.s + 0x9E3779B97F4A7C15) & 0xFFFFFFFFFFFFFFFF
        z = self.s
        z = ((z ^ (z >> 30)) * 0xBF58476D1CE4E5B9) & 0xFFFFFFFFFFFFFFFF
        z = ((z ^ (z >> 27)) * 0x94D049BB133111EB) & 0xFFFFFFFFFFFFFFFF
        return z ^ (z >> 31)

    def below(self, n):
        return self.next() % n if n > 0 else 0

    def range(self, lo, hi):  # inclusive
        return lo + self.below(hi - lo + 1)

    def chance(self, num, den):
        return self.below(den) < num

    def choice(self, xs):
        return xs[self.below(len(xs))]

    def weighted(self, pairs):
        tot = sum(w for _, w in pairs)
        r = self.below(tot)
        for x, w in pairs:
            if r < w:
                return x
            r -= w
        return pairs[-1][0]

    def shuffle(self, xs):
        xs = list(xs)
        for i in range(len(xs) - 1, 0, -1):
            j = self.below(i + 1)
            xs[i], xs[j] = xs[j], xs[i]
        return xs

    def fork(self):
        return Rng(self.next())


def hx(b):
    if isinstance(b, str):
        b = b.encode("utf-8", "surrogateescape")
    return b.hex() if b else "-"


def unhx(s):
    return b"" if s in ("-", "") else bytes.fromhex(s)


# ---------------------------------------------------------------- builds
class Lock:
    def __init__(self, name):
        os.makedirs(BUILD, exist_ok=True)
        self.path = os.path.join(BUILD, name + ".lock")

    def __enter__(self):
        self.f = open(self.path, "w")
        fcntl.flock(self.f, fcntl.LOCK_EX)
        return self

    def __exit__(self, *a):
        fcntl.flock(self.f, fcntl.LOCK_UN)
        self.f.close()


def run(cmd, cwd=None, env=None, timeout=None, check=True, input=None):
    p = subprocess.run(cmd, cwd=cwd, env=env, timeout=timeout, input=input,
                       stdout=subprocess.PIPE, stderr=subprocess.STDOUT, text=True)
    if check and p.returncode != 0:
        raise BuildError("command failed: %s\n%s" % (" ".join(cmd), p.stdout[-4000:]))
    return p


class BuildError(Exception):
    pass


def build_coq():
    """Full .vo build of the Coq development (proof obligations). Returns (ok, log)."""
    with Lock("coq"):
        if not os.path.exists(os.path.join(COQ, "Makefile")):
            run(["coq_makefile", "-f", "_CoqProject", "-o", "Makefile"], cwd=COQ)
        p = run(["timeout", "3000", "make", "-j%d" % NCPU], cwd=COQ, check=False)
        return p.returncode == 0, p.stdout


def build_driver():
    with Lock("driver"):
        drv = os.path.join(BUILD, "driver", "model_driver")
        src = [os.path.join(COQ, "model.ml"), os.path.join(VERIF, "driver", "main.ml"), os.path.join(VERIF, "driver", "util.ml")] + [os.path.join(VERIF, "driver", f) for f in open(os.path.join(VERIF, "driver", "cmds.txt")).read().split()] + [os.path.join(VERIF, "driver", "cmds.txt")]
        if os.path.exists(drv) and all(os.path.getmtime(s) <= os.path.getmtime(drv) for s in src):
            return drv
        run(["sh", os.path.join(VERIF, "driver", "build.sh")])
        return drv


OVERLAYS = {
    # harness file -> (package dir in repo, injected name)
    "snaps_trace_test.go": ("snaps", "zz_verif_trace_test.go"),
    "snaps_util_test.go": ("snaps", "zz_verif_util_test.go"),
    "snaps_json_test.go": ("snaps", "zz_verif_json_test.go"),
    "snaps_diff_test.go": ("snaps", "zz_verif_diff_test.go"),
    "snaps_yaml_test.go": ("snaps", "zz_verif_yaml_test.go"),
    "snaps_clean_test.go": ("snaps", "zz_verif_clean_test.go"),
    "snaps_runfilter_test.go": ("snaps", "zz_verif_runfilter_test.go"),
    "snaps_c11_test.go": ("snaps", "zz_verif_c11_test.go"),
    "snaps_helper_nontest.go": ("snaps", "zz_verif_helper_nontest.go"),
    "snaps_sched_nontest.go": ("snaps", "zz_verif_sched_nontest.go"),
    "snaps_sched_test.go": ("snaps", "zz_verif_sched_test.go"),
    "snaps_frame_test.go": ("snaps", "zz_verif_frame_test.go"),
    "snaps_lock_test.go": ("snaps", "zz_verif_lock_test.go"),
    "snaps_canary_test.go": ("snaps", "zz_verif_canary_test.go"),
}


def register_overlay(fname, pkgdir, injected):
    OVERLAYS[fname] = (pkgdir, injected)


def build_yieldgen():
    with Lock("yieldgen"):
        binp = os.path.join(BUILD, "yieldgen")
        src = os.path.join(VERIF, "harness", "yieldgen", "main.go")
        if not os.path.exists(binp) or os.path.getmtime(binp) < os.path.getmtime(src):
            run(["go", "build", "-o", binp, "."], cwd=os.path.join(VERIF, "harness", "yieldgen"), env=GOENV)
        return binp


# VERIF_COVER=1 (tools/coverage.sh): statement coverage of the library under the correspondence runs
COVER = os.environ.get("VERIF_COVER") == "1"
COVER_BUILD = ["-cover", "-coverpkg=./snaps,./match,./internal/difflib,./internal/colors"] if COVER else []
_cover_n = [0]


def build_go(tag, instrument=False, race=False):
    """Builds the white-box harness test binary for ./snaps from REPO's current working tree.
    instrument=True: the library sources are replaced (overlay) by yield-instrumented copies."""
    out_dir = os.path.join(BUILD, "go", tag + BUILD_TAG)
    os.makedirs(out_dir, exist_ok=True)
    with Lock("go-" + tag + BUILD_TAG):       # two runs of the same property must not rewrite each other's binaries
        return _build_go(tag, out_dir, instrument, race)


def _build_go(tag, out_dir, instrument, race):
    wb = os.path.join(VERIF, "harness", "whitebox")
    repl = {}
    for f in sorted(os.listdir(wb)):
        if f in OVERLAYS:
            pkgdir, injected = OVERLAYS[f]
            repl[os.path.join(REPO, pkgdir, injected)] = os.path.join(wb, f)
    if instrument:
        yg = build_yieldgen()
        inst = os.path.join(out_dir, "instrumented")
        shutil.rmtree(inst, ignore_errors=True)
        p = run([yg, os.path.join(REPO, "snaps"), inst], check=False)
        if p.returncode != 0:
            raise BuildError("yieldgen failed:\n" + p.stdout[-3000:])
        for line in p.stdout.splitlines():
            if "\t" in line:
                orig, new = line.split("\t")
                repl[orig] = new
    ov = os.path.join(out_dir, "overlay.json")
    with open(ov, "w") as fh:
        json.dump({"Replace": repl}, fh)
    bins = {}
    for pkg in sorted(set(p for p, _ in OVERLAYS.values())):
        binp = os.path.join(out_dir, pkg.replace("/", "_") + ".test")
        p = run(["go", "test", "-c", "-tags", "verif", "-overlay", ov, "-vet=off"] + (["-race"] if race else []) + COVER_BUILD + ["-o", binp, "./" + pkg],
                cwd=REPO, env=GOENV, check=False, timeout=900)
        if p.returncode != 0:
            raise BuildError("go harness build failed for ./%s:\n%s" % (pkg, p.stdout[-4000:]))
        bins[pkg] = binp
    return bins


# ---------------------------------------------------------------- running cases
def run_impl(binp, cases, workdir, shards=None, test="^TestVerifTrace$", timeout=1800):
    """cases: list of dicts (JSON-serialisable, with 'id'). Returns transcript text per case id."""
    shards = shards or min(NCPU, max(1, len(cases) // 8))
    os.makedirs(workdir, exist_ok=True)
    procs = []
    for i in range(shards):
        part = cases[i::shards]
        if not part:
            continue
        fin = os.path.join(workdir, "in%d.jsonl" % i)
        fout = os.path.join(workdir, "out%d.txt" % i)
        with open(fin, "w") as fh:
            for c in part:
                fh.write(json.dumps({k: v for k, v in c.items() if k != "meta"}) + "\n")
        env = clean_env(VERIF_IN=fin, VERIF_OUT=fout, TMPDIR=workdir)
        covarg = []
        if COVER:
            _cover_n[0] += 1
            cd = os.path.join(BUILD, "cover")
            os.makedirs(cd, exist_ok=True)
            covarg = ["-test.coverprofile=" + os.path.join(cd, "%s-%d-%d.out" % (os.path.basename(workdir), os.getpid(), _cover_n[0]))]
        procs.append((subprocess.Popen([binp, "-test.run", test, "-test.count=1"] + covarg, env=env, cwd=workdir,
                                       stdout=subprocess.PIPE, stderr=subprocess.STDOUT, text=True), fout))
    texts = {}
    for p, fout in procs:
        try:
            outp, _ = p.communicate(timeout=timeout)
        except subprocess.TimeoutExpired:
            p.kill()
            raise BuildError("implementation harness timed out")
        if p.returncode != 0:
            raise BuildError("implementation harness failed:\n" + outp[-4000:])
        text = open(fout).read()
        for line in text.splitlines()[:3]:
            if line.startswith("canary "):
                for tok in line.split()[1:]:
                    k, _, v = tok.partition("=")
                    if v == "0" or k not in CANARY:
                        CANARY[k] = v
        texts.update(split_cases(text))
    return texts


# what the harness's canaries said (snaps_canary_test.go): lever -> "1" alive / "0" dead
CANARY = {}


def split_cases(text):
    res, cur, cid = {}, [], None
    for line in text.splitlines():
        if line.startswith("case "):
            if cid is not None:
                res[cid] = cur
            cid, cur = int(line.split()[1]), []
        elif cid is not None:
            cur.append(line)
    if cid is not None:
        res[cid] = cur
    return res


def run_model(driver, impl_lines_by_case, timeout=1800, shards=None):
    """Feeds the resolved ops (lines starting with 'op ') to the extracted model."""
    ids = sorted(impl_lines_by_case)
    shards = shards or min(NCPU, max(1, len(ids) // 50))
    procs = []
    for i in range(shards):
        part = ids[i::shards]
        if not part:
            continue
        buf = []
        for cid in part:
            buf.append("case %d" % cid)
            for l in impl_lines_by_case[cid]:
                if l.startswith("op "):
                    buf.append(l[3:])
        p = subprocess.Popen(["sh", "-c", "ulimit -s unlimited 2>/dev/null; exec " + driver],
                             stdin=subprocess.PIPE, stdout=subprocess.PIPE, stderr=subprocess.PIPE, text=True)
        procs.append((p, "\n".join(buf) + "\n"))
    res = {}
    # communicate sequentially (outputs are buffered by pipes; inputs are small enough)
    import threading
    outs = [None] * len(procs)

    def work(k):
        p, inp = procs[k]
        try:
            o, e = p.communicate(inp, timeout=timeout)
            outs[k] = (p.returncode, o, e)
        except subprocess.TimeoutExpired:
            p.kill()
            outs[k] = (-9, "", "timeout")

    ths = [threading.Thread(target=work, args=(k,)) for k in range(len(procs))]
    [t.start() for t in ths]
    [t.join() for t in ths]
    for rc, o, e in outs:
        if rc != 0:
            raise BuildError("model driver failed: rc=%s %s" % (rc, e[-2000:]))
        res.update(split_cases(o))
    return res


def parse_kv(line):
    toks = line.split(" ")
    kind = toks[0]
    idx = int(toks[1]) if len(toks) > 1 and toks[1].lstrip("-").isdigit() else None
    kv = {}
    for t in toks[2:]:
        if "=" in t:
            k, v = t.split("=", 1)
            kv[k] = v
    return kind, idx, kv


def parse_results(lines):
    """-> list of (kind, idx, dict) for result lines (everything not starting with 'op ')."""
    res = []
    for l in lines:
        if l.startswith("op ") or not l.strip():
            continue
        kind, idx, kv = parse_kv(l)
        if kind == "fs":
            kv = dict(t.split("=", 1) for t in l.split(" ")[2:] if "=" in t)
        elif "writes" in kv:
            # a file written with the bytes it already held is no modification: it is kept apart ("touched") for the
            # properties that say "no write at all" (C04, C10); everywhere else only content changes count
            ws = [w for w in kv["writes"].split(",") if w not in ("-", "")]
            kv["writes"] = ",".join(w for w in ws if not w.startswith("touch:")) or "-"
            kv["touched"] = ",".join(w.split(":", 1)[1] for w in ws if w.startswith("touch:")) or "-"
        res.append((kind, idx, kv))
    return res


def failed(outcome):
    """the property-level reading of an outcome: the call reported a failure (which kind of failure, and how the
    message is worded, is presentation)"""
    return outcome.startswith("failed")


def kind_may_be(outcome, kind):
    """the failure is of this kind as far as the harness can tell (an unrecognised wording is not evidence against)"""
    return outcome_agrees(outcome, "failed:" + kind)


def outcome_agrees(impl, model):
    """outcome classes must agree; the KIND of a failure is compared only when the harness could classify the
    implementation's message (a reworded message reads as failed:other... and agrees with any failure kind)"""
    ci, cm = impl.split(":", 1)[0], model.split(":", 1)[0]
    if ci != cm:
        return False
    if ci != "failed":
        return impl == model
    ki, km = impl.split(":")[1] if ":" in impl else "", model.split(":")[1] if ":" in model else ""
    return ki == km or ki.startswith("other") or ki in ("unknown", "")


def logs_agree(impl, model):
    """the same number of logs, each of the same kind; a log whose wording the harness does not recognise ("unknown") agrees
    with any kind"""
    a = [] if impl in ("-", "", None) else impl.split(",")
    b = [] if model in ("-", "", None) else model.split(",")
    return len(a) == len(b) and all(x == y or x == "unknown" for x, y in zip(a, b))


def outcomes_agree(got, want):
    """a sched line's outcomes (<g>:<o1>/<o2>;...): per goroutine, per call the same outcome class; failure kinds compared
    only where the harness recognised the message"""
    g, w = got.split(";"), want.split(";")
    if len(g) != len(w):
        return False
    for a, b in zip(g, w):
        ga, _, la = a.partition(":")
        gb, _, lb = b.partition(":")
        xa, xb = la.split("/"), lb.split("/")
        if ga != gb or len(xa) != len(xb) or not all(outcome_agrees(x, y) for x, y in zip(xa, xb)):
            return False
    return True


# presentation drift: observables no property (and no theorem statement) speaks about - footer line numbers, the bytes of
# the summary beyond what the verified reader reads, failure kinds. Differences are counted and reported in the evidence,
# never raised as a violation.
DRIFT = collections.Counter()


def parse_ops(lines):
    res = []
    for l in lines:
        if l.startswith("op "):
            toks = l[3:].split(" ")
            kv = dict(t.split("=", 1) for t in toks[1:] if "=" in t)
            res.append((toks[0], kv))
    return res


def norm_writes(w):
    if w in ("-", ""):
        return []
    out = []
    for it in w.split(","):
        k, p = it.split(":", 1)
        if k in ("append", "rewrite"):
            k = "mod"
        out.append(k + ":" + p)
    return sorted(out)


def compare(impl, model, fields_by_kind):
    """Compare two parsed result lists on the projected fields. Returns list of mismatch strings."""
    mism = []
    if len(impl) != len(model):
        mism.append("result count differs: impl=%d model=%d" % (len(impl), len(model)))
    for a, b in zip(impl, model):
        if a[0] != b[0] or a[1] != b[1]:
            mism.append("result kind/index differs: impl=%s/%s model=%s/%s" % (a[0], a[1], b[0], b[1]))
            break
        kind = a[0]
        fields = fields_by_kind.get(kind)
        if fields is None:
            continue
        if fields == "*":
            if a[2] != b[2]:
                ks = sorted(set(a[2]) | set(b[2]))
                d = [k for k in ks if a[2].get(k) != b[2].get(k)]
                mism.append("%s %s differs at %s" % (kind, a[1], ",".join(x[:80] for x in d[:4])))
            continue
        for f in fields:
            soft = f.startswith("~")
            f = f.lstrip("~")
            va, vb = a[2].get(f), b[2].get(f)
            if f == "writes":
                va, vb = norm_writes(va or "-"), norm_writes(vb or "-")
                # the model reports that a file was WRITTEN; the harness tells a write that changed the bytes (writes) from one
                # that put the same bytes back (touched): a model write may be either
                t = ["mod:" + x for x in (a[2].get("touched") or "-").split(",") if x != "-"]
                if set(va) <= set(vb) <= set(va) | set(t):
                    va = vb
            if f == "touched":
                # a file the model itself says was written is not an unexplained touch
                mw = set(norm_writes(b[2].get("writes") or "-"))
                va = ",".join(x for x in (va or "-").split(",") if x != "-" and ("mod:" + x) not in mw) or "-"
                vb = vb or "-"
            if f == "line" and a[2].get("outcome") != "failed:diff":
                continue  # the line is observable only in a diff report footer
            if vb == "*":
                continue  # the model does not speak about this field
            if f == "cfgsame" and va is None:
                continue  # only Match* calls carry it
            if f == "outcomes" and va is not None and vb is not None and va != vb and outcomes_agree(va, vb):
                DRIFT["failure kind not recognised"] += 1
                continue
            if f == "prev" and va and vb and "@" in va and "@" in vb and va.split("@")[0] == vb.split("@")[0] and va != vb:
                DRIFT["frame.prev line number"] += 1     # getPrevSnapshot's line number feeds only the report's footer
                continue
            if f == "logs" and va != vb and logs_agree(va, vb):
                DRIFT["log wording not recognised"] += 1
                continue
            if f == "outcome" and va is not None and vb is not None:
                if not outcome_agrees(va, vb):
                    mism.append("%s %s field outcome: impl=%s model=%s" % (kind, a[1], str(va)[:200], str(vb)[:200]))
                elif va != vb:
                    DRIFT["failure kind not recognised"] += 1
                continue
            if va != vb:
                if soft:
                    DRIFT["%s.%s" % (kind, f)] += 1
                else:
                    mism.append("%s %s field %s: impl=%s model=%s" % (kind, a[1], f, str(va)[:200], str(vb)[:200]))
        # the payload of a JSON call recomputed by the model itself (document, matchers, options) must agree with the one the
        # harness resolved with the library's matcher and rendering code - whatever fields the property compares
        if kind == "obs" and a[2].get("jpre") == "1" and b[2].get("jpre") == "0":
            mism.append("obs %s: the model's own rendering of the JSON call (document + matchers + options) differs from the payload resolved by the library" % a[1])
    return mism


# ---------------------------------------------------------------- proofs
def check_property_file(pid):
    """Re-checks theories/Properties/<pid>.v with coqc and returns
    (ok, theorems, examples, assumptions_text, log)."""
    path = os.path.join(COQ, "theories", "Properties", pid + ".v")
    src = open(path).read()
    theorems = re.findall(r"^\s*(?:Theorem|Corollary)\s+(\w+)", src, re.M)
    examples = re.findall(r"^\s*Example\s+(\w+)", src, re.M)
    p = run(["timeout", "1200", "coqc", "-Q", "theories", "Snaps", path], cwd=COQ, check=False)
    return p.returncode == 0, theorems, examples, p.stdout, p.stdout


def coqchk_property(pid):
    """Thorough tier: re-checks Properties/<pid>.vo and everything it depends on with the independent
    checker coqchk and returns (ok, axioms_text)."""
    p = run(["timeout", "3000", "coqchk", "-silent", "-o", "-Q", "theories", "Snaps", "Snaps.Properties." + pid],
            cwd=COQ, check=False)
    out = p.stdout or ""
    m = re.search(r"\* Axioms:\s*(.*?)\n\s*\n", out, re.S)
    ax = m.group(1).strip() if m else "?"
    clean = all(re.search(r"\* %s:\s*<none>" % re.escape(k), out) for k in
                ("Constants/Inductives relying on type-in-type", "Constants/Inductives relying on unsafe (co)fixpoints",
                 "Inductives whose positivity is assumed"))
    return p.returncode == 0 and clean, ax, out[-800:]


FORBIDDEN = re.compile(r"\b(Admitted|admit|Axiom|Parameter|Conjecture|Unset Guard|bypass_check|type-in-type|impredicative-set)\b")


def grep_gate():
    bad = []
    for root, _, files in os.walk(os.path.join(COQ, "theories")):
        for f in files:
            if f.endswith(".v"):
                for i, l in enumerate(open(os.path.join(root, f)), 1):
                    code = re.sub(r"\(\*.*?\*\)", "", l)
                    if FORBIDDEN.search(code):
                        bad.append("%s:%d: %s" % (f, i, l.strip()))
    return bad


def assumptions_summary(text):
    """Collects the Print Assumptions answers from coqc output."""
    closed = len(re.findall(r"Closed under the global context", text))
    axioms = re.findall(r"^Axioms:\n((?:.+\n)+?)(?=\S|\Z)", text, re.M)
    return closed, axioms


# ---------------------------------------------------------------- known findings
def load_known(pid):
    p = os.path.join(VERIF, "known_findings.json")
    if not os.path.exists(p):
        return []
    return [k for k in json.load(open(p)) if k.get("property") == pid]


# ---------------------------------------------------------------- evidence / verdict
def write_evidence(pid, tier, seed, coverage, assumptions, wall, violations):
    os.makedirs(os.path.join(OUTDIR, "evidence"), exist_ok=True)
    ev = {"property_id": pid, "tier": tier, "seed": seed, "level": "proof", "coverage": coverage,
          "assumptions": assumptions, "wall_s": round(wall, 2), "violations": violations}
    with open(os.path.join(OUTDIR, "evidence", pid + ".json"), "w") as fh:
        json.dump(ev, fh, indent=1)


def write_replay(pid, payload):
    os.makedirs(os.path.join(OUTDIR, "replays"), exist_ok=True)
    h = hashlib.sha256(json.dumps(payload, sort_keys=True).encode()).hexdigest()[:12]
    path = os.path.join(OUTDIR, "replays", "%s-%s.json" % (pid, h))
    with open(path, "w") as fh:
        json.dump(payload, fh, indent=1)
    return path


def case_hash(case):
    return hashlib.sha256(json.dumps(case.get("ops"), sort_keys=True).encode()).hexdigest()
