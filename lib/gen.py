"""Generators for trace cases (names, values, histories)."""
from common import hx

TEST_NAMES = [b"TestA", b"TestAB", b"TestA/sub", b"TestA/sub#01", b"TestA/sub/deep", b"TestB",
              b"TestB/x_y", b"TestZeta", b"TestA1", b"TestA10", b"Test\xce\xa9mega", b"TestB/[k]"]
# names with a `%` (t.Run("50% off") gives .../50%_off); in standalone file names `%` was finding K8 (fixed: F8)
PCT_NAMES = [b"TestPct/50%_off", b"TestFmt/%s_%d", b"TestEsc/%20_%2F"]
PCT_STANDALONE = [b"TestPct/100%", b"TestPct/x%dy", b"TestPct/%%", b"TestPct/%v%!d(MISSING)"]
MULTI_NAMES = TEST_NAMES + PCT_NAMES
NONTEST_NAMES = [b"FuzzThing/seed#0", b"BenchmarkX", b"ExampleY"]

LINE_ALPHABET = [b"---", b"/-/-/-/", b"----", b"--- ", b" ---", b"", b" ", b"\t", b"a", b"b", b"hello world",
                 b"[", b"]", b"[TestA - 1", b"TestA - 1]", b"\xff\xfe", b"a\xffb", b"a\xfeb", b"\xc3\x28",
                 b"x\ry", b"\rz", b"{", b"}", b"key: value", b"- item", b"\xe2\x9c\x93 ok", b"--", b"/-/-/-/ ",
                 b"int(5)", b"map[string]int{}", b"0", b"\x00", b"\x1b[0m", b"100%", b"%s %d %v", b"%!(EXTRA)", b"a%%b",
                 b"see a/-/-/-/b", b"see a---b", b"x /-/-/-/", b"x ---", b"/-/-/-/ y", b"--- y"]


def gen_line(rng, headers=(), allow_header=False, allow_cr_end=False):
    r = rng.below(100)
    if allow_header and headers and r < 6:
        return rng.choice(list(headers))
    if allow_cr_end and r < 10:
        return rng.choice(LINE_ALPHABET) + b"\r"
    if r < 67:
        return rng.choice(LINE_ALPHABET)
    if r < 70:
        # runs of adjacent terminator / token lines (an empty YAML document, a separator block)
        return b"\n".join(rng.choice([b"---", b"---", b"/-/-/-/"]) for _ in range(rng.range(2, 4)))
    n = rng.range(1, 12)
    return bytes(rng.choice([97, 98, 99, 32, 45, 47, 91, 93, 0xc3, 0xa9, 0xff, 49, 9]) for _ in range(n))


def gen_text(rng, headers=(), allow_header=False, allow_cr_end=False, maxlines=6):
    k = rng.weighted([(0, 1), (1, 6), (2, 4), (3, 3), (rng.range(4, maxlines), 3)])
    lines = [gen_line(rng, headers, allow_header, allow_cr_end) for _ in range(k)]
    t = b"\n".join(lines)
    if not allow_cr_end:
        # a trailing "\r" at the very end of the text is also a CR at end of line
        while t.endswith(b"\r"):
            t = t[:-1]
        t = t.replace(b"\r\n", b"\n")
    if rng.chance(1, 5):
        t = b"\n" * rng.range(1, 3) + t
    if rng.chance(1, 5):
        t = t + b"\n" * rng.range(1, 3)
    return t


JSON_DOCS = [b'{"pct":"100%","fmt":"%s %d"}', b'{"a":1}', b'{"b":[1,2,{"c":null}],"a":"x"}', b'[]', b'{}', b'"str"', b'12.50', b'null',
             b'{"user":{"name":"n","age":3},"tags":["x","y"]}', b'{ "z" : true ,\n "y" : [ ] }',
             b'{"k\\"q":"v\\n","\\u00e9":1e3}', b'[1,[2,[3,[4]]]]', b'{"a":"---"}', b'{"time":"2020-01-01T00:00:00Z","k":"v"}',
             # the escapes json.Marshal writes for < > & - and an escaped BACKSLASH followed by the same letters (not an escape)
             b'{"pattern":"\\\\u003c is how json.Marshal writes \\u003c","amp":"a\\u0026b \\u003e c","path":"C:\\\\u0026\\\\u003e"}',
             b'{"html":"<b>bold</b> & more","esc":"\\u003cb\\u003e"}']
BAD_JSON = [b'{', b'{"a":}', b'', b'nul', b'{"a":1,}', b"{'a':1}", b'[1 2]']
YAML_DOCS = [b"rate: 100%\nfmt: '%v'\n", b"/-/-/-/\n", b"a\n/-/-/-/\nb\n", b"a: 1\n", b"a: 1", b"list:\n  - x\n  - y\n", b"# comment\nk: v\n---\nk2: v2\n", b"text: |\n  ---\n  more\n",
             b"a: 1\n\n\n", b"[TestA - 1]\n", b"k: [1, 2]\n", b"---\na: b\n", b"s: '/-/-/-/'\n", b"a:\n  b:\n    c: d\n"]
BAD_YAML = [b"a: [1, 2", b"a: b: c: d\n  x", b"\t- a\n\tb", b"key: 'unterminated",
            # well-formed but not decodable: aliases without an anchor
            b"a: *missing\n", b"x: &a 1\ny: *b\n", b"a: 1\n---\nb: *nope\n"]


def op_match_snap(h, test, values):
    return {"op": "match", "api": "snap", "h": h, "test": hx(test), "values": [hx(v) for v in values]}


def op_match_doc(api, h, test, doc, form="string", matchers=None):
    o = {"op": "match", "api": api, "h": h, "test": hx(test), "doc": hx(doc), "form": form}
    if matchers:
        o["matchers"] = matchers
    return o


def op_end(test):
    return {"op": "endtest", "test": hx(test)}


def op_newconfig(fn=None, dir=None, ext=None, upd=None, js=None):
    o = {"op": "newconfig"}
    if fn is not None:
        o["fn"] = hx(fn)
    if dir is not None:
        o["dir"] = hx(dir)
    if ext is not None:
        o["ext"] = hx(ext)
    if upd is not None:
        o["upd"] = upd
    if js is not None:
        o["json"] = js
    return o


def op_setenv(ci, updvar, colour=False):
    return {"op": "setenv", "ci": ci, "updvar": updvar, "colour": colour}


def op_putfile(path, content):
    return {"op": "putfile", "path": hx(path), "content": hx(content)}


OTHER_UPD = ["other", "raw:1", "raw:t", "raw:T", "raw:TRUE", "raw:True", "raw:false", "raw:yes", "raw:0", "raw:CLEAN", "raw: true"]
ENVS = [(ci, u) for ci in (False, True) for u in ("unset", "true", "clean", "other")]


def interleave(rng, seqs):
    """Random interleaving of several sequences, preserving each one's order."""
    seqs = [list(s) for s in seqs if s]
    out = []
    while seqs:
        i = rng.below(len(seqs))
        out.append(seqs[i].pop(0))
        if not seqs[i]:
            seqs.pop(i)
    return out


# ---------------------------------------------------------------- multi-entry histories
def headers_in_play(tests, maxk=3):
    return [b"[%s - %d]" % (t, k) for t in tests for k in range(1, maxk + 1)]


def gen_multi_value(r, api, headers, collide, cr=False):
    """-> op payload dict pieces for one call: ('snap', [values]) / ('json', doc, form) / ('yaml', doc, form)"""
    if api == "snap":
        n = r.weighted([(1, 6), (2, 2), (3, 1)])
        return {"values": [hx(gen_text(r, headers, collide, cr)) for _ in range(n)]}
    if api == "json":
        return {"doc": hx(r.choice(JSON_DOCS)), "form": r.choice(["string", "bytes", "value"])}
    doc = r.choice(YAML_DOCS)
    if collide and r.chance(1, 3):
        doc = r.choice(list(headers)) + b"\n"
    return {"doc": hx(doc), "form": r.choice(["string", "bytes"])}


def gen_program(r, ntests=(1, 4), maxcalls=12, apis=("snap", "snap", "json", "yaml"), collide=False, cr=False,
                handles=(0,), names=None):
    """A test program: list of (test name, handle, [call payload dicts])."""
    names = names or TEST_NAMES
    tests = r.shuffle(names)[: r.range(*ntests)]
    heads = headers_in_play(tests)
    prog = []
    for t in tests:
        h = r.choice(list(handles))
        k = r.weighted([(0, 1), (1, 5), (2, 5), (3, 3), (r.range(4, maxcalls), 2)])
        calls = []
        for _ in range(k):
            api = r.choice(list(apis))
            c = {"op": "match", "api": api, "h": h, "test": hx(t)}
            c.update(gen_multi_value(r, api, heads, collide, cr))
            calls.append(c)
        prog.append((t, h, calls))
    return prog


def mutate_program(r, prog, frac=(1, 3), collide=False, cr=False):
    """Same program with some call values changed (same names, same call counts)."""
    heads = headers_in_play([t for t, _, _ in prog])
    out = []
    for t, h, calls in prog:
        nc = []
        for c in calls:
            if r.chance(*frac):
                c2 = {"op": "match", "api": c["api"], "h": h, "test": c["test"]}
                c2.update(gen_multi_value(r, c["api"], heads, collide, cr))
                nc.append(c2)
            else:
                nc.append(dict(c))
        out.append((t, h, nc))
    return out


def run_program(r, prog, execs=1, interleave_tests=True):
    """Op list of one process: each test's calls followed by its EndTest; tests interleaved;
    `execs` executions (like -count)."""
    ops = []
    for _ in range(execs):
        seqs = [[dict(c) for c in calls] + [op_end(t)] for t, _, calls in prog]
        ops += interleave(r, seqs) if interleave_tests else [o for s in seqs for o in s]
    return ops


# ---------------------------------------------------------------- JSON docs with matchers
DOC_WITH_PATHS = [
    (b'{"user":{"name":"n","age":3},"tags":["x","y"],"time":"2020-01-01T00:00:00Z","ok":true}',
     ["user.name", "user.age", "tags.0", "tags.1", "time", "ok", "user"], ["missing", "user.nope", "tags.7"]),
    (b'[{"a":1},{"a":2,"b":null}]', ["0.a", "1.a", "1.b", "0"], ["2", "0.z"]),
    (b'{"k.dot":{"x":[1,2,3]},"e\\"q":"v"}', ["k\\.dot.x.1", "k\\.dot"], ["k.dot", "nope"]),
]
TYPES_OF = {"user.name": "string", "user.age": "float64", "tags.0": "string", "tags.1": "string", "time": "string",
            "ok": "bool", "user": "map", "0.a": "float64", "1.a": "float64", "0": "map", "k\\.dot.x.1": "float64",
            "k\\.dot": "map", "1.b": None}


def _overlaps(p, q):
    return p == q or p.startswith(q + ".") or q.startswith(p + ".")


def gen_matchers(r, good, bad, fail):
    """Matchers on pairwise NON-overlapping paths (matchers take effect left to right, so overlapping
    paths would change what later matchers see). fail: None (all satisfiable) | 'missing' | 'type' |
    'custom' | 'nulltype' | 'mixed'."""
    pool = []
    for p in r.shuffle(good):
        if not any(_overlaps(p, q) for q in pool):
            pool.append(p)
    bm = None
    if fail:
        f = fail if fail != "mixed" else r.choice(["missing", "missing2", "type", "custom", "nulltype"])
        if f == "nulltype" and "1.b" not in good:
            f = "type"
        if f == "nulltype":
            # the path exists and holds JSON null: not a string, whatever ErrOnMissingPath says
            bm = {"kind": "type", "type": r.choice(["string", "float64", "bool"]), "paths": ["1.b"],
                  "errOnMissing": r.choice([True, False]), "stmt": r.chance(1, 2)}
        elif f == "missing":
            bm = {"kind": r.choice(["any", "type", "custom"]), "paths": [r.choice(bad)], "type": "string"}
        elif f == "missing2":
            # ONE matcher with several failing paths (and possibly a satisfiable one in between): every one of them is named
            ps = r.shuffle(list(bad))[:2]
            if len(ps) == 2 and r.chance(1, 2):
                cand = [p for p in good if TYPES_OF.get(p) == "string"]
                if cand:
                    ps.insert(1, r.choice(cand))
            bm = {"kind": r.choice(["any", "type"]), "paths": ps, "type": "string", "expect_named": [q for q in ps if q in bad]}
            if bm["kind"] == "type" and r.chance(1, 2):
                # ... a value of the wrong type first, then a missing path: both are named
                cand = [q for q in good if TYPES_OF.get(q) in ("string", "float64") and not any(_overlaps(q, x) for x in ps)]
                if cand:
                    q = r.choice(cand)
                    bm = {"kind": "type", "type": "bool", "paths": [q, ps[0]], "expect_named": [q, ps[0]]}
        elif f == "type":
            p = r.choice([p for p in good if TYPES_OF.get(p)])
            wrong = "bool" if TYPES_OF[p] != "bool" else "string"
            bm = {"kind": "type", "type": wrong, "paths": [p]}
        else:
            bm = {"kind": "custom", "paths": [r.choice(good)], "err": True}
        pool = [p for p in pool if not any(_overlaps(p, q) for q in bm["paths"])]
    ms = []
    for _ in range(r.range(1, 3)):
        if not pool:
            break
        p = pool.pop()
        k = r.choice(["any", "type", "custom"])
        if k == "any":
            paths = [p]
            if pool and r.chance(1, 3):
                paths.append(pool.pop())
            m = {"kind": "any", "paths": paths}
            if r.chance(1, 3):
                m["placeholder"] = r.choice(['"<x>"', '"a much longer placeholder value than before"', "42", "null", '"p"'])
        elif k == "type" and TYPES_OF.get(p):
            m = {"kind": "type", "type": TYPES_OF[p], "paths": [p]}
        else:
            m = {"kind": "custom", "paths": [p], "ret": r.choice(['"<c>"', "7", '{"z":1}', "null"])}
        ms.append(m)
    if bm:
        ms.insert(r.below(len(ms) + 1), bm)
    elif r.chance(1, 4):
        ms.append({"kind": r.choice(["any", "custom", "type", "type"]), "paths": [r.choice(bad)], "errOnMissing": False,
                   "type": r.choice(["string", "float64", "bool", "map"]), "stmt": r.chance(1, 2)})
    return ms


def to_yaml_path(p):
    return "$." + ".".join(("[%s]" % x) if x.isdigit() else x for x in p.replace("\\.", "\x00").split(".")).replace(".[", "[").replace("\x00", ".")


def expected_multi_path(cfg, api, test_hex, caller_base="zz_verif_trace_test"):
    """Independent reading of the naming rule (C11): <dir>/<Filename or test file base>.snap<Ext>"""
    d = cfg.get("dir", "~")
    d = "/S/def" if d in ("~", None) else unhx_s(d)
    fn = cfg.get("fn", "~")
    fn = caller_base if fn in ("~", "-", None) else unhx_s(fn)
    ext = cfg.get("ext", "~")
    ext = "" if ext in ("~", "-", None) else unhx_s(ext)
    import posixpath
    return posixpath.normpath(d) + "/" + fn + ".snap" + ext      # Dir may be spelled non-canonically (def/, ./def, def/../def)


def unhx_s(h):
    return bytes.fromhex(h).decode("latin-1") if h not in ("-", "~", None) else ""


def nat_less(a, b):
    """natural.Less (maruel/natural v1.1.1) re-implemented independently"""
    def isd(c):
        return 48 <= c <= 57
    while True:
        p = 0
        m = min(len(a), len(b))
        while p < m and not isd(a[p]) and not isd(b[p]) and a[p] == b[p]:
            p += 1
        a, b = a[p:], b[p:]
        if not a:
            return len(b) != 0
        ia = 0
        while ia < len(a) and isd(a[ia]):
            ia += 1
        ib = 0
        while ib < len(b) and isd(b[ib]):
            ib += 1
        if ia > 0 and ib > 0:
            an, bn = int(a[:ia]), int(b[:ib])
            if an < 2 ** 64 and bn < 2 ** 64:
                if an != bn:
                    return an < bn
                if ia != len(a) and ib != len(b):
                    a, b = a[ia:], b[ib:]
                    continue
        return a < b


def nat_sorted(ids):
    """ids in natural order (insertion by the independent comparator)"""
    out = []
    for x in ids:
        k = 0
        while k < len(out) and not nat_less(x, out[k]):
            k += 1
        out.insert(k, x)
    return out
