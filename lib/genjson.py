"""Random JSON ASTs and presentations (raw scalars, so nothing is normalised by Python)."""
import json

KEYS = ['a', 'b', 'key', 'k.dot', 'sp ace', 'e\\"q', '\\u00e9', 'ü', 'z*', 'q?', 'p|q', '#', '@x', 'b\\\\s', '', '10', '2', 'A', 'pct%']
STRS = ['', 'x', 'hello world', '---', '/-/-/-/', '100%', '%s %d', 'a\\nb', '\\u2028', 'é', '\\ud83d\\ude00', 'tab\\there', '<Any value>', '2020-01-01T00:00:00Z']
NUMS = ['0', '-0', '1', '12', '-7', '1.5', '0.10', '1e5', '1E+5', '2e-3', '123456789012345678901234567890', '1.0']
WS = ['', '', '', ' ', '  ', '\n', '\t', '\r\n', ' \n ']


def gen_ast(r, depth=0, maxdepth=4):
    k = r.below(10)
    if depth >= maxdepth or k < 4:
        t = r.below(6)
        if t == 0:
            return ('lit', r.choice(['null', 'true', 'false']))
        if t in (1, 2):
            return ('num', r.choice(NUMS))
        return ('str', r.choice(STRS))
    if k < 7:
        n = r.weighted([(0, 1), (1, 2), (2, 3), (3, 2), (5, 1)])
        return ('arr', [gen_ast(r, depth + 1, maxdepth) for _ in range(n)])
    n = r.weighted([(0, 1), (1, 2), (2, 3), (3, 3), (5, 1)])
    keys = r.shuffle(KEYS)[:n]
    return ('obj', [(k2, gen_ast(r, depth + 1, maxdepth)) for k2 in keys])


def render(r, ast, ws=True, shuffle=False):
    w = (lambda: r.choice(WS)) if ws else (lambda: '')
    t = ast[0]
    if t in ('lit', 'num'):
        return ast[1]
    if t == 'str':
        return '"' + ast[1] + '"'
    if t == 'arr':
        return '[' + w() + (w() + ',' + w()).join(render(r, x, ws, shuffle) for x in ast[1]) + w() + ']'
    members = list(ast[1])
    if shuffle:
        members = r.shuffle(members)
    return '{' + w() + (w() + ',' + w()).join('"' + k + '"' + w() + ':' + w() + render(r, v, ws, shuffle) for k, v in members) + w() + '}'


def to_py(ast):
    """decoded Python value (for semantic comparisons)"""
    return json.loads(render(None, ast, ws=False))


def paths(ast, prefix=()):
    """all (path components) to values; components are raw keys (str) or indices (int)"""
    out = [prefix] if prefix else []
    if ast[0] == 'arr':
        for i, x in enumerate(ast[1]):
            out += paths(x, prefix + (i,))
    elif ast[0] == 'obj':
        for k, v in ast[1]:
            out += paths(v, prefix + (k,))
    return out


def gjson_path(comps):
    """gjson/sjson path for simple components; None when a key cannot be expressed safely"""
    parts = []
    for c in comps:
        if isinstance(c, int):
            parts.append(str(c))
        else:
            if c == '' or '\\' in c or c.isdigit() or not all(ch.isalnum() or ch in '. _-' for ch in c):
                return None
            parts.append(c.replace('.', '\\.'))
    return '.'.join(parts)


def get_at(ast, comps):
    for c in comps:
        if isinstance(c, int):
            ast = ast[1][c]
        else:
            ast = dict(ast[1])[c]
    return ast


def set_at(ast, comps, new):
    if not comps:
        return new
    c = comps[0]
    if isinstance(c, int):
        l = list(ast[1])
        l[c] = set_at(l[c], comps[1:], new)
        return ('arr', l)
    return ('obj', [(k, set_at(v, comps[1:], new) if k == c else v) for k, v in ast[1]])
