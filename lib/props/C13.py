"""C13 - the failure report is empty only for identical text and shows the true edit."""
import collections, itertools, os, shutil, subprocess
from runner import Prop
from common import hx, unhx, REPO, GOENV


HASH_COLLISIONS = [(b"costarring", b"liquid"), (b"declinate", b"macallums"), (b"altarage", b"zinke"),      # FNV-1a/32
                   (b"amzlgz", b"hyfejdwv"),                                                                   # FNV-1/32
                   (b"Aa", b"BB"), (b"AaAa", b"BBBB"), (b"AaBB", b"BBAa"),                                     # h*31+c
                   (b"plumless", b"buckeroo"),                                                                 # CRC-32
                   (b"lepqa", b"nertok"), (b"rqvqgvsq", b"myfqqa"), (b"eosfn", b"bxgok")]                     # djb2, sdbm, Adler-32


class C13(Prop):
    pid = "C13"
    fields = {"opcodes": ["na", "nb", "valid", "hunks", "~all", "~groups"], "diff": ["empty", "valid", "readable", "~report", "~own"]}
    rule = ("pairs of texts: random edits (insert/delete/replace/block move) of 0-400-line texts over alphabets of "
            "1-200 distinct lines (so hunk ranges appear above 10 lines and the popular-line purge engages at >= 200), "
            "binary and invalid-UTF-8 line contents, with/without final newline, colours off (full report compared) "
            "and on (emptiness compared); thorough tier adds ALL pairs of line sequences over a 3-letter alphabet up "
            "to length 5 (131769 pairs); distinct = distinct (a,b,op); non-trivial = a != b")
    outside_model = "colour rendering (escape sequences, inline highlights from diffmatchpatch): only emptiness is modelled with colours on"
    trusted = []

    def text(self, r, n, alpha):
        lines = [b"" if r.chance(1, 10) else r.choice(alpha) for _ in range(n)]
        s = b"\n".join(lines)
        return s + b"\n" if r.chance(1, 2) else s

    def alphabet(self, r):
        k = r.choice([1, 2, 3, 5, 8, 30, 200])
        kind = r.below(10)
        al = []
        for i in range(k):
            if kind < 3:
                al.append(bytes([97 + i % 26]) * (1 + i // 26))
            elif kind < 6:
                al.append(b"line %d" % i)
            elif kind < 8:
                al.append(bytes(r.below(256) for _ in range(r.below(6))).replace(b"\n", b"x"))
            else:
                al.append(r.choice([b"a\xffb", b"a\xfeb", b" ", b"\t", b"  x", b"x  ", b"\xe2\x86\xb5", b"---", b"\x1b[0m", b"", b"x\r", b"x", b"\r", b"100%"]))
        return al

    def mutate(self, r, s, alpha):
        lines = s.split(b"\n")
        for _ in range(r.choice([0, 1, 1, 2, 3, 5, 10, 30])):
            op = r.below(100)
            pos = r.below(len(lines) + 1)
            if op < 35 and lines:
                del lines[min(pos, len(lines) - 1)]
            elif op < 70:
                lines.insert(pos, r.choice(alpha))
            elif op < 85 and lines:
                lines[min(pos, len(lines) - 1)] = r.choice(alpha)
            elif lines:
                i = r.below(len(lines))
                j = min(len(lines), i + r.range(1, 7))
                blk = lines[i:j]
                del lines[i:j]
                p = r.below(len(lines) + 1)
                lines[p:p] = blk
        return b"\n".join(lines)

    def gen(self, rng, tier):
        cases = []
        n = 250 if tier == "quick" else 3000
        for i in range(n):
            r = rng.fork()
            ops = []
            for _ in range(r.range(1, 4)):
                al = self.alphabet(r)
                size = r.choice([0, 1, 1, 2, 3, 5, 8, 9, 10, 11, 12, 20, 40, 100, 199, 200, 201, 250, 400])
                a = self.text(r, size, al) if size else r.choice([b"", b"\n", b"x"])
                k = r.below(10)
                b = self.mutate(r, a, al) if k < 7 else (self.text(r, r.choice([0, 1, 3, 10, 11, 50, 200, 230]), al) if k < 9 else a)
                if k == 6 and a:
                    # whitespace-only / trailing-newline-only differences
                    b = r.choice([a + b"\n", a + b" ", a.rstrip(b"\n"), b" " + a])
                if r.chance(1, 6):
                    # texts that differ only inside bytes that are not valid UTF-8
                    bad = [b"\xff", b"\xfe", b"\xc0", b"\x80", b"\xf8\x88", b"\xc3"]
                    x, y = r.choice(bad), r.choice(bad)
                    pre, post = r.choice([b"", b"a", b"caf\xc3\xa9 "]), r.choice([b"", b"b", b"\n", b" z\n"])
                    if r.chance(1, 2):
                        a, b = pre + x + post, pre + y + post
                    else:
                        ctx = self.text(r, r.choice([1, 3, 12]), al)
                        a, b = ctx + pre + x + b"\n" + ctx, ctx + pre + y + b"\n" + ctx
                if r.chance(1, 10):
                    # two texts that differ ONLY in lines which collide under a common 32-bit string hash (FNV-1a, FNV-1, Java's 31-hash,
                    # CRC-32, djb2, sdbm, Adler-32): "marks as equal only identical lines" - a matcher that compares hashed lines
                    # must still compare the lines
                    x, y = r.choice(HASH_COLLISIONS)
                    if r.chance(1, 2):
                        x, y = y, x
                    ctx1, ctx2 = self.text(r, r.choice([0, 1, 3, 12, 30]), al), self.text(r, r.choice([0, 1, 2, 15]), al)
                    a = ctx1 + x + b"\n" + ctx2
                    b = ctx1 + y + b"\n" + ctx2
                    if r.chance(1, 3):
                        b = b + b"one more unrelated change\n"
                if r.chance(1, 8):
                    # the auto-junk regime of the matcher: the second text has >= 200 lines, mostly unique, and one line occurring
                    # about n/100 + 1 times (the popularity threshold), next to the edits - matches must then be EXTENDED over it
                    nb = r.choice([199, 200, 201, 230, 299, 300, 301, 399, 400])
                    ntest = nb // 100 + 1
                    cnt = max(0, ntest + r.choice([-1, 0, 0, 1, 1, 2]))
                    lines_b = [b"u%d" % j for j in range(nb - cnt)]
                    for _ in range(cnt):
                        lines_b.insert(r.below(len(lines_b) + 1), b"POP")
                    lines_a = list(lines_b)
                    for _ in range(r.range(1, 6)):
                        j = r.below(len(lines_a))
                        kind = r.below(4)
                        if kind == 0:
                            del lines_a[j]
                        elif kind == 1:
                            lines_a.insert(j, r.choice([b"new", b"POP", b"u%d" % r.below(nb)]))
                        elif kind == 2:
                            lines_a[j] = b"changed%d" % j
                        else:
                            # edit right next to an occurrence of the popular line
                            pops = [q for q, l in enumerate(lines_a) if l == b"POP"]
                            if pops:
                                q = r.choice(pops)
                                if q + 1 < len(lines_a):
                                    lines_a[q + 1] = b"after-pop%d" % q
                                if q > 0 and r.chance(1, 2):
                                    lines_a[q - 1] = b"before-pop%d" % q
                    a, b = b"\n".join(lines_a), b"\n".join(lines_b)
                if r.chance(1, 10):
                    a, b = b, a
                name = r.choice([b"", b"__snapshots__/x_test.snap", b"a b\xff:1"])
                line = r.choice([0, 1, 7, 99, 100, 12345])
                ops.append({"op": "opcodes", "values": [hx(a), hx(b)]})
                ops.append({"op": "diff", "values": [hx(a), hx(b)], "path": hx(name), "count": line, "colour": False})
                ops.append({"op": "diff", "values": [hx(a), hx(b)], "path": hx(name), "count": line, "colour": True})
            cases.append({"ci": False, "updvar": "unset", "colour": False, "ops": ops, "meta": {}})
        if tier == "thorough":
            alpha = [b"a", b"b", b""]
            seqs = [b"\n".join(s) for k in range(1, 6) for s in itertools.product(alpha, repeat=k)]
            ops = []
            for a in seqs:
                for b in seqs:
                    ops.append({"op": "opcodes", "values": [hx(a), hx(b)]})
                    ops.append({"op": "diff", "values": [hx(a), hx(b)], "path": hx(b"x.snap"), "count": 3, "colour": False})
                    if len(ops) >= 2000:
                        cases.append({"ci": False, "updvar": "unset", "colour": False, "ops": ops, "meta": {"exh": True}})
                        ops = []
            if ops:
                cases.append({"ci": False, "updvar": "unset", "colour": False, "ops": ops, "meta": {"exh": True}})
            self.exhaustive_pairs = len(seqs) ** 2
        return cases

    def extra_run(self, tier, seed, workdir):
        """Black box: NO_COLOR mode is decoded from the REAL environment when the colors package is initialised (the white-box
        harness sets colors.NOCOLOR itself). A real `go test` binary with a failing MatchSnapshot prints its report and summary:
        with NO_COLOR set (to any value) the output holds no escape sequence; without it (and no editor hint in `_`) it does."""
        from C05 import BB_TEST
        mod = os.path.join(workdir, "bbcolor")
        os.makedirs(mod, exist_ok=True)
        open(os.path.join(mod, "go.mod"), "w").write("module bb\n\ngo 1.22\n\nrequire github.com/gkampitakis/go-snaps v0.0.0\n\nreplace github.com/gkampitakis/go-snaps => %s\n" % REPO)
        shutil.copy(os.path.join(REPO, "go.sum"), os.path.join(mod, "go.sum"))
        open(os.path.join(mod, "m_test.go"), "w").write(BB_TEST)
        env = {k: v for k, v in GOENV.items() if k not in ("NO_COLOR", "_", "CI", "UPDATE_SNAPS")}
        binp = os.path.join(workdir, "bbcolor.test")
        p = subprocess.run(["go", "test", "-c", "-vet=off", "-o", binp, "."], cwd=mod, env=env, stdout=subprocess.PIPE, stderr=subprocess.STDOUT, text=True, errors="replace", timeout=900)
        if p.returncode != 0:
            return [{"msg": "black-box build failed: " + p.stdout[-800:]}], {}
        snapdir = os.path.join(mod, "__snapshots__")
        shutil.rmtree(snapdir, ignore_errors=True)
        run = lambda e: subprocess.run([binp, "-test.count=1", "-test.v"], cwd=mod, env=dict(env, **e), stdout=subprocess.PIPE, stderr=subprocess.STDOUT, text=True, errors="replace", timeout=900)
        run({"BB_VALUE": "line one\nline two", "BB_GONE": "1", "NO_COLOR": "1"})
        fails = []
        seen = {}
        for nc in ("1", "0", "yes"):
            # NO_COLOR present and not empty: NO_COLOR mode by the library's rule and by no-color.org's alike
            q = run({"BB_VALUE": "line one\nline 2", "BB_GONE": "0", "NO_COLOR": nc})
            if q.returncode == 0 or "line 2" not in q.stdout or "\x1b[" in q.stdout:
                fails.append({"msg": "black box: NO_COLOR=%r set in the environment, the report %s" % (nc, "holds escape sequences" if "\x1b[" in q.stdout else "is missing")})
        # recorded, not judged (C13 describes the report IN NO_COLOR mode, not when that mode is entered beyond the variable):
        # an empty NO_COLOR, the `_` hints at an editor's output panel, and no hint at all
        for tag, e in (("NO_COLOR=''", {"NO_COLOR": ""}), ("_=Visual Studio", {"_": "/opt/Visual Studio/bin/x"}),
                       ("_=code", {"_": "/usr/share/code/code"}), ("no hint", {"_": "/usr/bin/go"})):
            q = run(dict({"BB_VALUE": "line one\nline 2", "BB_GONE": "0"}, **e))
            seen[tag] = "\x1b[" in q.stdout
        shutil.rmtree(snapdir, ignore_errors=True)
        return fails, {"black_box_color_runs": 7, "escape_sequences_seen_outside_NO_COLOR_mode": seen}

    def extra_coverage(self):
        if getattr(self, "exhaustive_pairs", 0):
            return {"exhaustive_small_space_pairs": self.exhaustive_pairs, "exhaustive": True}
        return {}

    @staticmethod
    def lines_nl(s):
        parts = s.split(b"\n")
        return [p + b"\n" for p in parts]

    def oracle(self, case, ops, results):
        fails = []
        op_list = [o for o in ops if o[0] in ("opcodes", "diff")]
        res = [r for r in results if r[0] in ("opcodes", "diff")]
        for (name, kv), (kind, idx, o) in zip(op_list, res):
            a, b = unhx(kv["a"]), unhx(kv["b"])
            al, bl = self.lines_nl(a), self.lines_nl(b)
            if kind == "diff":
                empty = o.get("empty") == "1"
                if empty != (a == b):
                    fails.append({"msg": "diff %s (colour=%s): report empty=%s but texts equal=%s" % (idx, kv["colour"], empty, a == b)})
                    continue
                if kv["colour"] == "1" or empty or o.get("report") in (None, "*"):
                    continue
                rep = unhx(o["report"])
                if 27 in rep and 27 not in a + b + unhx(kv["name"]):
                    fails.append({"msg": "diff %s: escape sequence in NO_COLOR report" % idx})
                f = self.check_report(rep, al, bl)
                if f:
                    fails.append({"msg": "diff %s: %s" % (idx, f)})
            else:
                f = self.check_opcodes(o, al, bl)
                if f:
                    fails.append({"msg": "opcodes %s: %s" % (idx, f)})
        return fails

    def check_report(self, rep, al, bl):
        # "\n- Snapshot - N\n+ Received + M\n\n<body>\n[at name:line\n]"
        # (the labels of the two header lines are wording; their shape "- <label> - N" / "+ <label> + M" carries the counts)
        lines = rep[1:].split(b"\n")
        import re
        m0 = re.match(rb"^- .*- (\d+)$", lines[0]) if rep.startswith(b"\n") and len(lines) > 3 else None
        m1 = re.match(rb"^\+ .*\+ (\d+)$", lines[1]) if m0 else None
        if not m0 or not m1:
            self.skip("the report header has a shape this oracle cannot read: nothing is judged from it (the reader-based tie reports it)")
            return None
        nd, ni = int(m0.group(1)), int(m1.group(1))
        body = rep[1:].split(b"\n", 3)[3]
        # strip the footer: last line "at ..." preceded by an empty line
        if body.endswith(b"\n") and b"\nat " in body:
            k = body.rfind(b"\n\nat ")
            foot = body[k + 2:]
            if foot.count(b"\n") == 1:
                body = body[:k + 1]
        elif body.endswith(b"\n\n"):
            body = body[:-1]
        if body.endswith(b"\n\n"):
            body = body[:-1]
        blines = [l + b"\n" for l in body.split(b"\n")[:-1]] if body.endswith(b"\n") else None
        if blines is None:
            return "body does not end with newline"
        # a `-` / `+` line is a body line that starts with that sign; whether the sign is followed by a blank (`- line`) or not
        # (`-line`, the plain unified-diff form) is layout: the clauses must hold under one of the two readings
        def judge(w):
            minus = [l[w:] for l in blines if l.startswith(b"- "[:w])]
            plus = [l[w:] for l in blines if l.startswith(b"+ "[:w])]
            if len(minus) != nd or len(plus) != ni:
                return "header counts (-%d +%d) differ from lines shown (-%d +%d)" % (nd, ni, len(minus), len(plus))
            ca, cb = collections.Counter(al), collections.Counter(bl)
            cm, cp = collections.Counter(minus), collections.Counter(plus)
            if cm - ca:
                return "a '-' line is not a line of the stored text"
            if cp - cb:
                return "a '+' line is not a line of the received text"
            if (ca - cm) != (cb - cp):
                return "residual lines differ"
            return None
        first = judge(2)
        return first if (first is None or judge(1) is not None) else None

    @staticmethod
    def parse_groups(s):
        if s == "~":
            return []
        out = []
        for g in s.split("/"):
            grp = []
            for c in g.split(","):
                t, i1, i2, j1, j2 = c.split(":")
                grp.append((t, int(i1), int(i2), int(j1), int(j2)))
            out.append(grp)
        return out

    def check_opcodes(self, o, al, bl):
        allg = self.parse_groups(o["all"])
        groups = self.parse_groups(o["groups"])
        if al == bl:
            return None if not groups else "groups for identical texts"
        if len(allg) != 1:
            return "expected one full group"
        codes = allg[0]
        i = j = 0
        out = []
        for t, i1, i2, j1, j2 in codes:
            if (i1, j1) != (i, j):
                return "opcodes do not tile"
            if t == "e":
                if al[i1:i2] != bl[j1:j2]:
                    return "equal opcode over different lines"
                out += al[i1:i2]
            elif t == "i":
                if i1 != i2:
                    return "insert with a-range"
                out += bl[j1:j2]
            elif t == "d":
                if j1 != j2:
                    return "delete with b-range"
            else:
                out += bl[j1:j2]
            i, j = i2, j2
        if (i, j) != (len(al), len(bl)):
            return "opcodes do not end at the ends"
        if out != bl:
            return "replay does not yield the second text"
        ne_all = [c for c in codes if c[0] != "e"]
        ne_grp = [c for g in groups for c in g if c[0] != "e"]
        if ne_all != ne_grp:
            return "hunks omit or alter a changed opcode"
        for g in groups:
            for x, y in zip(g, g[1:]):
                if (x[2], x[4]) != (y[1], y[3]):
                    return "hunk not contiguous"
        return None

    def nontrivial(self, case, ops, results):
        return any(kv.get("a") != kv.get("b") for n, kv in ops if n in ("opcodes", "diff"))

    def stats(self, case, ops, results, dist):
        for n, kv in ops:
            if n == "opcodes":
                na = kv["a"].count("0a") if kv["a"] != "-" else 0
                dist["pairs"] += 1
                dist["lines>10" if na > 10 else "lines<=10"] += 1
                if na >= 200:
                    dist["lines>=200"] += 1
            if n == "diff":
                dist["diff_colour" + kv["colour"]] += 1


PROP = C13()
