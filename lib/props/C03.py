"""C03 - entries are stably addressed and isolated from one another."""
import re
from runner import Prop
from common import hx, unhx
import gen as G
from C01 import header_collision
from C09 import parse_entries


class C03(Prop):
    pid = "C03"
    rule = ("histories of test executions: names that are prefixes of each other, nested subtests, #01 suffixes, 0-14 calls "
            "per test (so ordinals 10+ occur), interleaved tests, repeated executions (-count), failing calls in the middle "
            "(invalid JSON, matcher errors, mismatches), over empty and pre-populated files, create and update modes; the "
            "oracle reads back, after every call, which header was created/rewritten and checks it is [name - k] for the k-th "
            "call of that execution, that all OTHER entries kept their bodies and relative order; plus a REPLAY-VIEW stream: values with carriage "
            "returns at line ends, every slot read back through the library's own reader (readslots) before and after one slot is created or "
            "rewritten under update mode - the other slots must replay the same values; non-trivial = >= 2 tests or >= 10 calls")
    fields = dict(Prop.fields, slots="*")
    outside_model = "real t.Parallel scheduling (see C06); value formatting is input"
    trusted = []

    def gen(self, rng, tier):
        n = 400 if tier == "quick" else 6000
        cases = []
        for i in range(n):
            r = rng.fork()
            collide = r.chance(1, 12)
            names = r.shuffle([b"TestA", b"TestAB", b"TestA/sub", b"TestA/sub#01", b"TestA1", b"TestA10", b"TestB", b"TestB/x - 1", b"Test", b"TestPct/50%_off", b"TestFmt/%s_%d"])
            prog = G.gen_program(r, ntests=(1, 4), maxcalls=14, collide=collide, names=names)
            # sprinkle failing calls
            prog2 = []
            for t, h, calls in prog:
                cs = []
                for c in calls:
                    if r.chance(1, 8):
                        cs.append(G.op_match_doc("json", h, t, r.choice(G.BAD_JSON)))
                    elif r.chance(1, 10):
                        doc, good, bad = r.choice(G.DOC_WITH_PATHS)
                        cs.append(G.op_match_doc("json", h, t, doc, "string", G.gen_matchers(r, good, bad, "missing")))
                    elif r.chance(1, 10):
                        # MatchYAML failing before the comparison: invalid document / failing matcher (the ordinal is consumed)
                        if r.chance(1, 2):
                            cs.append(G.op_match_doc("yaml", h, t, r.choice(G.BAD_YAML)))
                        else:
                            cs.append(G.op_match_doc("yaml", h, t, b"user:\n  name: n\ntags:\n  - x\n", "string",
                                                     [{"kind": "any", "paths": ["$.missing"]}]))
                    cs.append(c)
                prog2.append((t, h, cs))
            if r.chance(1, 8):
                # bulky values: a slot's body reaches past a 4096-byte reader window, so rewriting it (or a neighbour) crosses windows
                def bulk(c):
                    if c.get("api") != "snap" or "values" not in c:
                        return c
                    return dict(c, values=[hx(b"\n".join(b"row %03d of the report: value value value value" % k_ for k_ in range(r.range(60, 220))))])
                prog2 = [(t, h, [bulk(c) for c in cs]) for t, h, cs in prog2]
            execs = r.weighted([(1, 2), (2, 2), (3, 1)])
            upd = r.choice(["unset", "true"])
            ops = []
            lead = []
            if prog2 and r.chance(1, 5):
                # an execution of a test in which EVERY call is rejected before the file is read (invalid JSON / YAML, failing
                # matcher), then the test ends and is executed again: its calls start again at slot 1
                t0, h0, _ = prog2[0]
                for _ in range(r.range(1, 2)):
                    lead.append(r.choice([G.op_match_doc("json", h0, t0, r.choice(G.BAD_JSON)), G.op_match_doc("yaml", h0, t0, r.choice(G.BAD_YAML)),
                                          G.op_match_doc("json", h0, t0, b'{"a":1}', "string", [{"kind": "any", "paths": ["missing"]}])]))
                lead.append(G.op_end(t0))
            if r.chance(1, 2):
                # pre-populated by an earlier process with other values
                ops += G.run_program(r, G.mutate_program(r, prog2, frac=(1, 2), collide=collide), 1) + [{"op": "newprocess"}]
            body = lead + G.run_program(r, prog2, execs)
            for o in body:
                ops += [o, {"op": "dumpfs"}] if o["op"] == "match" else [o]
            cases.append({"ci": False, "updvar": upd, "colour": False, "ops": [{"op": "dumpfs"}] + ops, "meta": {"collide": collide}})
        # the REPLAY VIEW: "creating or rewriting one slot never changes the value that any other slot replays as" judged through
        # the library's own reader (readslots), not through the bytes - so values with a carriage return at the end of a line (where
        # bytes and replayed value part ways: the documented limitation) can take part
        for i in range(max(20, n // 8)):
            r = rng.fork()
            tests = r.shuffle([b"TestA", b"TestAB", b"TestA/sub", b"TestB", b"TestC"])[: r.range(2, 3)]
            def val():
                ls = [r.choice([b"plain", b"first line", b"", b"x,y,z", b"tab\there", b"  indented"]) for _ in range(r.range(1, 4))]
                sep = b"\r\n" if r.chance(1, 2) else b"\n"
                return sep.join(ls) + r.choice([b"", b"\r", b"\r\n", b"\n"])
            calls = {t: [val() for _ in range(r.range(1, 3))] for t in tests}
            rec = []
            for t in tests:
                rec += [G.op_match_snap(0, t, [v]) for v in calls[t]] + [G.op_end(t)]
            ids = [hx(b"[" + t + b" - %d]" % k) for t in tests for k in range(1, len(calls[t]) + 2)] + [hx(b"[TestNew - 1]")]
            rs = {"op": "readslots", "path": hx(b"def/zz_verif_trace_test.snap"), "values": ids}
            if r.chance(1, 3):
                # a NEW slot is created
                chg, want = [dict(G.op_match_snap(0, b"TestNew", [val()]), role="change")], b"[TestNew - 1]"
            else:
                t = r.choice(tests)
                k = r.below(len(calls[t]))
                chg = [G.op_match_snap(0, t, [v]) for v in calls[t][:k]] + [dict(G.op_match_snap(0, t, [val() + b"changed"]), role="change")]
                want = b"[" + t + b" - %d]" % (k + 1)
            ops = rec + [{"op": "newprocess"}, G.op_setenv(False, "true"), rs] + chg + [dict(rs)]
            cases.append({"ci": False, "updvar": "unset", "colour": False, "ops": ops, "meta": {"slots": True, "want": hx(want)}})
        return cases

    def slots_oracle(self, case, ops, results):
        sl = [r for r in results if r[0] == "slots"]
        if len(sl) != 2:
            return self.skip("guard")
        before, after = sl[0][2], sl[1][2]
        want = case["meta"]["want"]
        if not any(v != "~" for v in before.values()):
            return self.skip("nothing was recorded")
        fails = []
        for i in before:
            if i != want and before[i] != after.get(i):
                fails.append({"msg": "writing slot %s changed the value slot %s replays as: %r -> %r" % (
                    unhx(want).decode("latin-1"), unhx(i).decode("latin-1"), None if before[i] == "~" else unhx(before[i]), None if after.get(i) in ("~", None) else unhx(after[i]))})
        return fails

    def oracle(self, case, ops, results):
        if case["meta"].get("slots"):
            return self.slots_oracle(case, ops, results)
        fails = []
        main = hx(b"/S/def/zz_verif_trace_test.snap")
        k_of = {}
        prev_fs = None
        ri = iter(results)
        res = list(results)
        # walk ops and results together
        pos = 0
        opl = [o for o in ops if o[0] != "init"]
        cur_obs = None
        since_dump = 0
        for name, kv in opl:
            if pos >= len(res):
                break
            if name == "dumpfs":
                kind, idx, fs = res[pos]
                pos += 1
                if kind != "fs":
                    return fails
                if cur_obs is not None and prev_fs is not None and since_dump == 1:
                    (mname, mkv, k), o = cur_obs
                    eb = parse_entries(unhx(prev_fs.get(main, "-")))
                    ea = parse_entries(unhx(fs.get(main, "-")))
                    want = unhx(mkv["test"]) + b" - %d" % k
                    if o["outcome"] in ("added", "updated") and mkv["h"] == "0":
                        changed = [i for i, b in ea if (i, b) not in eb]
                        if changed and changed != [want] and not (o["outcome"] == "updated" and set(changed) == {want}):
                            fails.append({"msg": "obs %s: call #%d of %r %s entries %s (expected only [%s])" %
                                          (o.get("idx"), k, unhx(mkv["test"]), o["outcome"], changed, want.decode("latin-1"))})
                        if o["outcome"] == "added" and want not in [i for i, _ in ea]:
                            fails.append({"msg": "obs: added call #%d of %r but no entry [%s]" % (k, unhx(mkv["test"]), want.decode("latin-1"))})
                    # every other entry: same body, same relative order, none dropped
                    others_b = [(i, b) for i, b in eb if i != want]
                    others_a = [(i, b) for i, b in ea if i != want]
                    if others_a != others_b:
                        fails.append({"msg": "call #%d of %r (%s) changed, dropped or reordered other entries" % (k, unhx(mkv["test"]), o["outcome"])})
                prev_fs = fs
                cur_obs = None
                since_dump = 0
                continue
            kind, idx, o = res[pos]
            pos += 1
            if kind != "obs":
                return fails
            if name == "match":
                since_dump += 1
            if name == "newprocess":
                k_of = {}
            if name == "endtest":
                k_of.pop(kv["test"], None)
            if name == "match" and kv["api"] in ("snap", "json", "yaml") and o["outcome"] not in ("nocall", "warned"):
                k_of[kv["test"]] = k_of.get(kv["test"], 0) + 1
                cur_obs = ((name, kv, k_of[kv["test"]]), dict(o, idx=idx))
        return fails

    def known_signature(self, finding, case, ops, results, failure):
        return finding["id"] == "K2" and header_collision(ops, failure)

    def nontrivial(self, case, ops, results):
        tests = set(kv["test"] for n, kv in ops if n == "match")
        per = {}
        for n, kv in ops:
            if n == "match":
                per[kv["test"]] = per.get(kv["test"], 0) + 1
        return len(tests) >= 2 or any(v >= 10 for v in per.values())

    def stats(self, case, ops, results, dist):
        per = {}
        for n, kv in ops:
            if n == "match":
                per[kv["test"]] = per.get(kv["test"], 0) + 1
        dist["tests:%d" % len(per)] += 1
        if any(v >= 10 for v in per.values()):
            dist["ordinals>=10"] += 1
        for r in results:
            if r[0] == "obs" and r[2]["outcome"] != "nocall":
                dist["outcome:" + r[2]["outcome"].split(":")[0]] += 1


PROP = C03()
