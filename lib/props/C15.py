"""C15 - matchers change only what they target and never the caller's data."""
import json, re
from runner import Prop
from common import hx, unhx
import gen as G
import genjson as J

PLACEHOLDERS = ['"<Any value>"', '"p"', '""', '"a considerably longer placeholder than the value it replaces"', '42', 'null', 'true',
                '"\\u00e9"', '"say \\"hi\\""', '"back\\\\slash"', '[]', '{"z":1}', '"\\u2713"', '[1,2]']


def pick_paths(r, ast, n):
    cands = [p for p in J.paths(ast) if J.gjson_path(p) is not None]
    cands = r.shuffle(cands)
    out = []
    for p in cands:
        if len(out) >= n:
            break
        if not any(p[:len(q)] == q or q[:len(p)] == p for q in out):
            out.append(p)
    return out


def norm_ph(v):
    """the TEXT of the default placeholders (`<Any value>`, `<Type:map[string]interface {}>`) is wording: where one is expected,
    any text of that family is accepted"""
    if isinstance(v, dict):
        return {k: norm_ph(x) for k, x in v.items()}
    if isinstance(v, list):
        return [norm_ph(x) for x in v]
    if isinstance(v, str) and re.match(r"^<Type:.*>$", v):
        return "<Type:*>"
    if isinstance(v, str) and re.match(r"^<Any\b.*>$", v):
        return "<Any*>"
    return v


class C15(Prop):
    pid = "C15"
    fields = {"jsonset": ["err", "result"], "yamlset": ["err"], "obs": ["outcome", "errors", "logs", "writes", "~line"], "fs": "*"}
    rule = ("random JSON documents x existing simple paths (object members incl. keys with dots, array elements, nested) x "
            "placeholders (shorter/longer than the value, non-string, needing JSON escapes, containers): single Any matcher through "
            "the matcher itself AND on the caller's own []byte (buffer compared before/after), plus matcher SEQUENCES (Any with "
            "several paths, Type, Custom) on pairwise disjoint paths through MatchJSON; the oracle recomputes the expected "
            "document independently (Python) and compares semantically; distinct = distinct op list; non-trivial = a replacement happened")
    outside_model = ("gjson/sjson path syntax beyond simple key/index paths (wildcards, queries, modifiers); YAML matchers "
                     "(goccy/go-yaml AST operations) are exercised end to end only by C16/C18 traces")
    trusted = []

    def gen(self, rng, tier):
        n = 300 if tier == "quick" else 5000
        cases = []
        for i in range(n):
            r = rng.fork()
            ops = []
            for _ in range(r.range(1, 3)):
                ast = J.gen_ast(r, maxdepth=3)
                if ast[0] not in ("obj", "arr") or not pick_paths(r, ast, 1):
                    ast = ('obj', [('a', ('str', 'hello world')), ('b', ('arr', [('num', '1'), ('lit', 'null')])), ('k.dot', ('obj', [('x', ('num', '2'))]))])
                doc = J.render(r, ast, ws=r.chance(1, 2)).encode()
                p = pick_paths(r, ast, 1)[0]
                ph = r.choice(PLACEHOLDERS)
                ops.append({"op": "jsonset", "doc": hx(doc), "values": [hx(J.gjson_path(p).encode()), hx(ph.encode())],
                            "exp": json.dumps(self.apply(J.to_py(ast), [(p, json.loads(ph))]))})
                # a sequence through MatchJSON
                ps = pick_paths(r, ast, r.range(1, 3))
                ms, repl = [], []
                for q in ps:
                    k = r.choice(["any", "any", "custom"])
                    if k == "any":
                        ph2 = r.choice(PLACEHOLDERS)
                        ms.append({"kind": "any", "paths": [J.gjson_path(q)], "placeholder": ph2})
                        repl.append((q, json.loads(ph2)))
                    else:
                        ret = r.choice(['"<c>"', "7", '{"z":1}', "null"])
                        ms.append({"kind": "custom", "paths": [J.gjson_path(q)], "ret": ret})
                        repl.append((q, json.loads(ret)))
                t = r.choice(G.TEST_NAMES)
                m = G.op_match_doc(r.choice(["json", "standjson"]), 0, t, doc, r.choice(["string", "bytes"]), ms)
                m["exp"] = json.dumps(self.apply(J.to_py(ast), repl))
                ops.append(m)
            if r.chance(1, 3):
                # one matcher value reused across documents (a table test): an earlier document lacks a path
                kind = r.choice(["any", "type"])
                ms = [{"kind": kind, "type": "string", "paths": ["id", "createdAt", "token"], "errOnMissing": r.choice([False, False, None])}]
                if ms[0]["errOnMissing"] is None:
                    del ms[0]["errOnMissing"]       # default: the first call fails (path missing), the matcher value is reused all the same
                t = r.choice(G.TEST_NAMES)
                d_missing = r.choice([b'{"createdAt":"c0","token":"t0","k":1}', b'{"token":"t0"}', b'{"id":"i","token":"t"}'])
                first = G.op_match_doc("json", 0, t, d_missing, "string", ms)
                full = {"id": "i1", "createdAt": "c1", "token": "t1", "keep": [1, 2]}
                second = G.op_match_doc("json", 0, t, json.dumps(full).encode(), "string", ms)
                ph_ = "<Any value>" if kind == "any" else "<Type:string>"
                second["exp"] = json.dumps({"id": ph_, "createdAt": ph_, "token": ph_, "keep": [1, 2]})
                ops += [first, second]
            if r.chance(1, 3):
                # several paths in one matcher, an absent one listed BEFORE present ones, ErrOnMissingPath(false)
                kind = r.choice(["type", "any"])
                t = r.choice(G.TEST_NAMES)
                paths = r.choice([["nickname", "token"], ["a.b", "token", "user.name"], ["token", "nickname", "user.name"]])
                ms = [{"kind": kind, "type": "string", "paths": paths, "errOnMissing": False, "stmt": r.chance(1, 2)}]
                doc = {"token": r.choice(["t1", "secret"]), "user": {"name": "n"}, "n": 1}
                ph = "<Type:string>" if kind == "type" else "<Any value>"
                exp = {"token": ph, "user": {"name": ph if "user.name" in paths else "n"}, "n": 1}
                m = G.op_match_doc("json", 0, t, json.dumps(doc).encode(), "string", ms)
                m["exp"] = json.dumps(exp)
                ops.append(m)
            if r.chance(1, 3):
                # ONE Any matcher over several existing paths with a placeholder that needs JSON escaping and is not
                # longer than the values it replaces: every listed path must be replaced, not only the first
                t = r.choice(G.TEST_NAMES)
                ph = r.choice(['"\u00abr\u00bb"', '"<\\"x\\">"', '"a\\\\b"', '"\\u0001"', '"\u00e9"'])
                doc = {"token": "t" * r.range(8, 20), "session": "s" * r.range(8, 20), "id": "i" * r.range(8, 20), "keep": [1, "x"]}
                paths = r.shuffle(["token", "session", "id"])[: r.range(2, 3)]
                m = G.op_match_doc(r.choice(["json", "standjson"]), 0, t, json.dumps(doc).encode(), r.choice(["string", "bytes"]),
                                   [{"kind": "any", "paths": paths, "placeholder": ph}])
                m["exp"] = json.dumps({k: (json.loads(ph) if k in paths else v) for k, v in doc.items()})
                ops.append(m)
            if r.chance(1, 3):
                # ONE Type matcher whose path list holds an ancestor BEFORE its descendant (left to right: once the ancestor
                # is replaced the descendant no longer exists; with ErrOnMissingPath(false) it is ignored)
                t = r.choice(G.TEST_NAMES)
                k3 = r.below(3)
                if k3 == 0:
                    doc = {"data": {"attrs": {"a": 1}, "sib": 2}, "n": 1}
                    ms = [{"kind": "type", "type": "map", "paths": ["data", "data.attrs"], "errOnMissing": False}]
                    exp = {"data": "<Type:map[string]interface {}>", "n": 1}
                elif k3 == 1:
                    # the same with ONE Any matcher (ancestor, then its descendant / an element of it)
                    doc = {"id": 7, "user": {"name": "mock-user", "email": "mock-email"}, "items": [{"x": 1}, {"x": 2}], "tags": ["a", "b"]}
                    paths = r.choice([["user", "user.name"], ["items", "items.1.x"], ["user", "user.name", "tags.0"]])
                    ms = [{"kind": "any", "paths": paths, "errOnMissing": False}]
                    exp = dict(doc)
                    exp[paths[0]] = "<Any value>"
                    if "tags.0" in paths:
                        exp["tags"] = ["<Any value>", "b"]
                else:
                    doc = {"items": [{"id": 1}, {"id": 2.5}], "n": 1}
                    ms = [{"kind": "type", "type": "slice", "paths": ["items"], "errOnMissing": False},
                          {"kind": "type", "type": "float64", "paths": ["items.1.id"], "errOnMissing": False}]
                    exp = {"items": "<Type:[]interface {}>", "n": 1}
                m = G.op_match_doc("json", 0, t, json.dumps(doc).encode(), "string", ms)
                m["exp"] = json.dumps(exp)
                ops.append(m)
            if r.chance(1, 4):
                # gjson paths that address SEVERAL values (`arr.#.key`) or one value through a query (`arr.#(k=="v").key`): outside
                # the matcher model (the model abstains), judged by the oracle alone - every addressed value is replaced, the
                # document stays valid JSON and everything else keeps its value and position
                t = r.choice(G.TEST_NAMES)
                users = [{"id": i + 1, "name": nm} for i, nm in enumerate(r.shuffle(["ann", "bob", "cy"])[: r.range(2, 3)])]
                doc = {"users": users, "total": len(users), "tail": [1, 2]}
                k4 = r.below(4)
                if k4 == 0:
                    ms = [{"kind": "any", "paths": ["users.#.id"]}]
                    exp = dict(doc, users=[dict(u, id="<Any value>") for u in users])
                elif k4 == 1:
                    ms = [{"kind": "type", "type": "slice", "paths": ["users.#.id"]}]
                    exp = dict(doc, users=[dict(u, id="<Type:[]interface {}>") for u in users])
                elif k4 == 2:
                    who = r.choice(users)["name"]
                    ms = [{"kind": "any", "paths": ['users.#(name=="%s").id' % who]}]
                    exp = dict(doc, users=[dict(u, id="<Any value>") if u["name"] == who else u for u in users])
                else:
                    who = r.choice(users)["name"]
                    ms = [{"kind": "type", "type": "float64", "paths": ['users.#(name=="%s").id' % who]}, {"kind": "any", "paths": ["total"]}]
                    exp = dict(doc, users=[dict(u, id="<Type:float64>") if u["name"] == who else u for u in users], total="<Any value>")
                m = G.op_match_doc(r.choice(["json", "standjson"]), 0, t, json.dumps(doc).encode(), r.choice(["string", "bytes"]), ms)
                m["exp"] = json.dumps(exp)
                m["mayerr"] = True        # "either reports an error or ...": a library that rejects such paths keeps the property
                ops.append(m)
            if r.chance(1, 3):
                # YAML: container placeholders at paths of different depth, deeper first
                doc = b"top:\n  mid:\n    deep:\n      value: 1\n    other: keep\n  side: 2\nlist:\n  - a\n  - id: b\nlast: z\n"
                ph = r.choice(['["x","y"]', '{"k1":1,"k2":2}', '"scalar"', '[1]',
                               # STRINGS that look like something else in YAML: they must arrive as strings
                               '"[REDACTED]"', '"12345"', '"true"', '"null"', '"{redacted}"', '"redacted: by CI"', '"- item"', '"~"', '"1e3"'])
                pths = r.choice([["$.top.mid.deep.value", "$.last"], ["$.top.mid.deep.value", "$.top.side"], ["$.last", "$.top.mid.deep.value"],
                                 ["$.top.mid.deep.value", "$.list[1].id", "$.last"], ["$.top.mid.other", "$.last"]])
                exp = {"top": {"mid": {"deep": {"value": 1}, "other": "keep"}, "side": 2}, "list": ["a", {"id": "b"}], "last": "z"}
                for pth in pths:
                    o = exp
                    comps = pth[2:].replace("[", ".").replace("]", "").split(".")
                    for c in comps[:-1]:
                        o = o[int(c)] if c.isdigit() else o[c]
                    c = comps[-1]
                    if c.isdigit():
                        o[int(c)] = json.loads(ph)
                    else:
                        o[c] = json.loads(ph)
                ops.append({"op": "yamlset", "doc": hx(doc), "matchers": [{"kind": "any", "paths": pths, "placeholder": ph}],
                            "exp": json.dumps(exp)})
            cases.append({"ci": False, "updvar": "unset", "colour": False, "ops": ops, "meta": {}})
        return cases

    @staticmethod
    def apply(val, repl):
        def set_at(v, comps, new):
            if not comps:
                return new
            c = comps[0]
            if isinstance(c, int):
                l = list(v)
                l[c] = set_at(l[c], comps[1:], new)
                return l
            key = json.loads('"' + c + '"')
            d = dict(v)
            d[key] = set_at(d[key], comps[1:], new)
            return d
        for p, new in repl:
            val = set_at(val, list(p), new)
        return val

    def oracle(self, case, ops, results):
        fails = []
        raws = [o for o in case["ops"] if o["op"] in ("jsonset", "match", "yamlset")]
        res = [r for r in results if r[0] in ("jsonset", "obs", "yamlset")]
        ol = [o for o in ops if o[0] in ("jsonset", "match", "yamlset")]
        if not (len(raws) == len(res) == len(ol)):
            return self.skip("guard")
        for raw, (kind, idx, o), (name, kv) in zip(raws, res, ol):
            if "exp" not in raw:
                continue
            exp = json.loads(raw["exp"])
            if kind == "yamlset":
                if o.get("err") == "*":
                    continue
                if o.get("err") != "0":
                    fails.append({"msg": "yamlset %d: matchers on existing paths reported an error" % idx})
                elif o.get("valid") != "1":
                    fails.append({"msg": "yamlset %d: result is not a valid YAML document: %r" % (idx, unhx(o["result"])[:80])})
                elif json.loads(unhx(o["result"])) != exp:
                    fails.append({"msg": "yamlset %d: result differs from the input with the targeted values replaced" % idx})
                continue
            if kind == "jsonset":
                if o.get("err") != "0":
                    fails.append({"msg": "jsonset %d: existing path reported an error" % idx})
                    continue
                try:
                    got = json.loads(unhx(o["result"]).decode("utf-8", "surrogateescape"))
                except ValueError:
                    fails.append({"msg": "jsonset %d: result is not valid JSON" % idx})
                    continue
                if got != exp:
                    fails.append({"msg": "jsonset %d: result differs from 'input with exactly the value at the path replaced'" % idx})
                if o.get("caller_unchanged", "1") != "1":
                    fails.append({"msg": "jsonset %d: the caller's bytes were modified" % idx})
            else:
                if not kv["pre"].startswith("ok:"):
                    if not raw.get("mayerr"):
                        fails.append({"msg": "obs %d: matchers on existing disjoint paths failed: %s" % (idx, kv["pre"][:20])})
                    continue
                try:
                    got = json.loads(unhx(kv["pre"][3:]).decode("utf-8", "surrogateescape"))
                except ValueError:
                    fails.append({"msg": "obs %d: masked document is not valid JSON" % idx})
                    continue
                if norm_ph(got) != norm_ph(exp):
                    fails.append({"msg": "obs %d: masked document differs from the expected one" % idx})
        return fails

    def known_signature(self, finding, case, ops, results, failure):
        if finding["id"] == "K13" and failure["msg"].startswith("yamlset"):
            bad = lambda x: isinstance(x, str) and (re.match(r"^[-?]([ \t].*)?$", x, re.S) or x in (".inf", "-.inf", ".nan"))
            def holds(v, inlist=False):
                if isinstance(v, list):
                    return any(holds(x, True) for x in v)
                if isinstance(v, dict):
                    return any(holds(x, inlist) for x in v.values())
                return inlist and bool(bad(v))
            for o in case["ops"]:
                for m in o.get("matchers", []) if o.get("op") == "yamlset" else []:
                    for k in ("placeholder", "ret"):
                        try:
                            if k in m and holds(json.loads(m[k])):
                                return True
                        except ValueError:
                            pass
        return False

    def nontrivial(self, case, ops, results):
        return any(r[0] == "jsonset" and r[2].get("err") == "0" for r in results)

    def stats(self, case, ops, results, dist):
        for o in case["ops"]:
            if o["op"] == "jsonset":
                dist["placeholder:" + bytes.fromhex(o["values"][1]).decode()[:12]] += 1
            if o["op"] == "match":
                dist["matchers:%d" % len(o.get("matchers", []))] += 1


PROP = C15()
