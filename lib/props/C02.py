"""C02 - every change of the formatted value is reported (no false passes)."""
from runner import Prop
from common import hx, unhx
import gen as G


def variants(r, v0):
    """a text different from v0, biased to near misses"""
    k = r.below(12)
    if k == 0:
        return v0 + b"\n"
    if k == 1:
        return v0.rstrip(b"\n") if v0.endswith(b"\n") else b"\n" + v0
    if k == 2:
        return v0 + b" "
    if k == 3:
        return v0.replace(b" ", b"\t", 1) if b" " in v0 else v0 + b"\t"
    if k == 4:
        return v0.replace(b"---", b"/-/-/-/", 1) if b"---" in v0 else v0 + b"\n/-/-/-/"
    if k == 5:
        return v0.replace(b"\xff", b"\xfe", 1) if b"\xff" in v0 else v0 + b"\xff"
    if k == 6:
        return v0[:-1] if v0 else b"x"
    if k == 7 and v0:
        i = r.below(len(v0))
        return v0[:i] + bytes([(v0[i] + 1) % 256 if v0[i] not in (9, 12) else 65]) + v0[i + 1:]
    if k == 8:
        return v0 + b"\n---"
    if k == 9:
        # the escape token / the terminator INSIDE a line (not a whole line)
        if b"/-/-/-/" in v0:
            return v0.replace(b"/-/-/-/", b"---", 1)
        if b"---" in v0:
            return v0.replace(b"---", b"/-/-/-/", 1)
        return v0 + b"\nsee a/-/-/-/b"
    if k == 10:
        return (v0 + b"\nsee a---b") if b"a/-/-/-/b" not in v0 else v0.replace(b"a/-/-/-/b", b"a---b")
    return G.gen_text(r)


class C02(Prop):
    pid = "C02"
    rule = ("(stored, received) pairs with different formatted text through all five entry points, colours on and off, "
            "no updating: process 1 records v0, process 2 (any non-updating mode) presents v1 != v0; near-miss variants "
            "(trailing newline, whitespace, `---` vs `/-/-/-/`, invalid UTF-8 byte, last byte dropped, one byte changed); "
            "non-trivial = the second call compared against a stored entry")
    outside_model = "colour rendering; value formatting is input"
    trusted = []

    def gen(self, rng, tier):
        n = 500 if tier == "quick" else 10000
        cases = []
        for i in range(n):
            r = rng.fork()
            api = r.choice(["snap", "snap", "yaml", "json", "stand", "standjson"])
            test = r.choice(G.TEST_NAMES)
            colour = r.chance(1, 2)
            tok = False
            if api in ("snap", "stand"):
                v0 = G.gen_text(r)
                if api == "stand" and r.chance(1, 4):
                    v0 = bytes(r.below(256) for _ in range(r.range(1, 30)))
                v1 = variants(r, v0)
                if v1 == v0:
                    v1 = v0 + b"x"
                if api == "stand" and r.chance(1, 5):
                    # a standalone file is compared byte for byte: line endings are bytes like any other
                    ls = [l for l in G.gen_text(r, maxlines=4).split(b"\n")] + [b"a,b,c", b"1,2,3"]
                    v0 = b"\r\n".join(ls) + r.choice([b"", b"\r\n", b"\n"])
                    v1 = r.choice([v0.replace(b"\r\n", b"\n"), v0.replace(b"\r\n", b"\n", 1), v0.replace(b"\r", b""), v0.replace(b"\r\n", b"\r")])
                    if r.chance(1, 2):
                        v0, v1 = v1, v0
                if api == "snap" and r.chance(1, 10):
                    # a line of 4096 bytes and more (a reader's default buffer) against the same bytes broken at the buffer boundary,
                    # and against a text cut where a run of dashes crosses it
                    n_ = r.choice([4096, 4097, 5000, 8192, 9000])
                    ch = r.choice([b"x", b"ab", b"k: a"])
                    L = (ch * n_)[:n_]
                    v0, v1 = r.choice([(L, L[:4096] + b"\n" + L[4096:]), (b"first\n" + b"x" * 4096 + b"---\nlast line", b"first\n" + b"x" * 4096),
                                       (b"k: " + b"a" * 4093 + b" tail", b"k: " + b"a" * 4093 + b"\n tail")])
                    if r.chance(1, 2) and b"---\n" not in v0:
                        v0, v1 = v1, v0
                if api == "snap" and r.chance(1, 8):
                    # the stored text holds a line that only LOOKS like the terminator (padded); the received text is what a reader
                    # that mistook it for the terminator would return
                    head = G.gen_text(r, maxlines=3).rstrip(b"\n") or b"alpha"
                    v0 = head + b"\n" + r.choice([b"--- ", b" ---", b"---\t", b"\t---", b"  ---  "]) + b"\n" + r.choice([b"beta", b"tail\nmore", b""])
                    v1 = head
                if api == "snap" and r.chance(1, 10):
                    # the received text differs from the stored one ONLY by a carriage return at the end of one line - a
                    # terminator line, an escape-token line or an ordinary one. (The stored side is CR-free, so the documented
                    # limitation - the reader drops a CR at the end of a STORED line - is not involved.)
                    head = G.gen_text(r, maxlines=2).rstrip(b"\n") or b"title: a"
                    mid = r.choice([b"---", b"---", b"/-/-/-/", b"plain line", b""])
                    tail = r.choice([b"body", b"", b"x\ny"])
                    v0 = head + b"\n" + mid + b"\n" + tail
                    v1 = head + b"\n" + mid + b"\r\n" + tail
                if r.chance(1, 12):
                    # the two values differ only in a line whose 32-bit string hashes collide (see C13.HASH_COLLISIONS)
                    from C13 import HASH_COLLISIONS
                    x_, y_ = r.choice(HASH_COLLISIONS)
                    head = G.gen_text(r, maxlines=2).rstrip(b"\n") or b"alpha"
                    v0, v1 = head + b"\n" + x_ + b"\nomega", head + b"\n" + y_ + b"\nomega"
                a = G.op_match_snap(0, test, [v0]) if api == "snap" else G.op_match_doc("stand", 0, test, v0)
                b = G.op_match_snap(0, test, [v1]) if api == "snap" else G.op_match_doc("stand", 0, test, v1)
            elif api == "yaml":
                docs = r.shuffle(G.YAML_DOCS)
                v0, v1 = docs[0], (docs[0] + b"\n" if r.chance(1, 3) else docs[1])
                if r.chance(1, 8):
                    # a document separator with and without a carriage return (stored side CR-free)
                    v0 = r.choice([b"a: 1\n---\nb: 2\n", b"---\na: 1\n", b"a: 1\n---\n---\nb: 2\n"])
                    v1 = v0.replace(b"---\n", b"---\r\n", 1)
                a, b = G.op_match_doc("yaml", 0, test, v0), G.op_match_doc("yaml", 0, test, v1)
            else:
                docs = r.shuffle(G.JSON_DOCS)
                v0, v1 = docs[0], docs[1]
                a, b = G.op_match_doc(api, 0, test, v0, r.choice(["string", "bytes"])), G.op_match_doc(api, 0, test, v1, r.choice(["string", "bytes"]))
            env2 = r.choice([(False, "unset"), (False, "other"), (False, "clean"), (True, "true"), (True, "unset")])
            filler = G.run_program(r, G.gen_program(r, ntests=(0, 2), maxcalls=4, names=[b"TestF1", b"TestF2"]), 1)
            pin = []
            if r.chance(1, 6):
                # updating switched off by an explicit Update(false) on the Config although UPDATE_SNAPS=true is in the environment
                env2 = (False, "true")
                pin = [G.op_newconfig(dir=b"def", upd=False)]
                b = dict(b, h=1)
            ops = filler + [a, G.op_end(test), {"op": "dumpfs"}, {"op": "newprocess"}] + pin + [
                            G.op_setenv(env2[0], env2[1], colour), b, {"op": "dumpfs"}]
            cases.append({"ci": False, "updvar": "unset", "colour": colour, "ops": ops, "meta": {"api": api}})
        return cases

    def oracle(self, case, ops, results):
        obs = [r for r in results if r[0] == "obs"]
        fss = [r for r in results if r[0] == "fs"]
        op_with_obs = [o for o in ops if o[0] not in ("init", "dumpfs", "counters")]
        if len(op_with_obs) != len(obs) or len(fss) != 2:
            return self.skip("guard")
        seq = list(zip(op_with_obs, obs))
        try:
            npi = [i for i, ((n, kv), _) in enumerate(seq) if n == "newprocess"][-1]
        except IndexError:
            return self.skip("guard")
        rec = [(kv, o) for (n, kv), (_, _, o) in seq[:npi] if n == "match"]
        rep = [(kv, idx, o) for (n, kv), (_, idx, o) in seq[npi:] if n == "match"]
        if not rec or len(rep) != 1:
            return self.skip("guard")
        kv1, idx, o1 = rep[0]
        kv0, o0 = rec[-1]
        if kv0["test"] != kv1["test"] or kv0["api"] != kv1["api"] or o0["outcome"] != "added":
            return self.skip("guard")
        if not (kv0["pre"].startswith("ok:") and kv1["pre"].startswith("ok:")) or kv0["pre"] == kv1["pre"]:
            return self.skip("guard")
        fails = []
        if not o1["outcome"].startswith("failed") or o1["errors"] != "1" or o1["writes"] != "-" or fss[0][2] != fss[1][2]:
            fails.append({"msg": "obs %d (%s): stored %r, received %r -> outcome=%s errors=%s writes=%s" %
                          (idx, kv1["api"], unhx(kv0["pre"][3:])[:40], unhx(kv1["pre"][3:])[:40], o1["outcome"], o1["errors"], o1["writes"]),
                          "v0": kv0["pre"][3:], "v1": kv1["pre"][3:], "api": kv1["api"]})
        return fails

    def known_signature(self, finding, case, ops, results, failure):
        if finding["id"] == "K1" and failure.get("api") in ("snap", "yaml"):
            f = lambda h: b"\n".join(b"---" if l == b"/-/-/-/" else l for l in unhx(h).split(b"\n"))
            return f(failure["v0"]) == f(failure["v1"])
        return False

    def nontrivial(self, case, ops, results):
        return any(r[0] == "obs" and r[2]["outcome"].startswith("failed") for r in results)

    def stats(self, case, ops, results, dist):
        dist["api:" + case["meta"].get("api", "?")] += 1
        dist["colour:%s" % case.get("colour")] += 1
        for r in results:
            if r[0] == "obs" and r[2]["outcome"] != "nocall":
                dist["outcome:" + r[2]["outcome"]] += 1


PROP = C02()
