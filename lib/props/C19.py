"""C19 - a standalone snapshot file is the formatted value and nothing else."""
from runner import Prop
from common import hx, unhx
import gen as G


class C19(Prop):
    pid = "C19"
    rule = ("histories of MatchStandaloneSnapshot/MatchStandaloneJSON calls (1-3 tests, 0-12 calls each, "
            "arbitrary byte values incl. CR, 1-2 executions, then a replay process under a random mode); "
            "distinct = distinct op list; non-trivial = at least one standalone call wrote or compared a file")
    outside_model = ("value formatting (kr/pretty, tidwall/pretty) is input to the model; "
                     "shared Filename across interleaved tests is finding K9")
    trusted = ["kr/pretty formats a string value as itself (checked by the harness on every call)"]

    def gen(self, rng, tier):
        n = 300 if tier == "quick" else 6000
        cases = []
        for i in range(n):
            r = rng.fork()
            ci, upd = r.choice(G.ENVS) if r.chance(1, 4) else (False, r.choice(["unset", "true", "other"]))
            ops = []
            handles = [0]
            if r.chance(1, 2):
                ops.append(G.op_newconfig(dir=r.choice([b"d1", b"d1", b"d%1", b"100%/d"]), ext=r.choice([None, b".txt", b"", b".%d"]),
                                          upd=r.choice([None, None, True, False])))
                handles.append(1)
            tests = r.shuffle(G.TEST_NAMES + G.PCT_NAMES + G.PCT_STANDALONE)[: r.range(1, 3)]
            per_test = {}
            seqs = []
            for t in tests:
                h = r.choice(handles)
                k = r.weighted([(0, 1), (1, 4), (2, 4), (3, 3), (r.range(4, 12), 2)])
                calls = []
                for _ in range(k):
                    if r.chance(1, 4):
                        doc = r.choice(G.JSON_DOCS + G.BAD_JSON[:2])
                        calls.append(G.op_match_doc("standjson", h, t, doc, r.choice(["string", "bytes", "value"])))
                    else:
                        calls.append(G.op_match_doc("stand", h, t, self.value(r)))
                per_test[t] = calls
                seqs.append(calls + [G.op_end(t)])
            # sequential executions of tests (no interleaving across tests sharing a generic path)
            body = [o for s in seqs for o in s]
            execs = r.weighted([(1, 4), (2, 2), (3, 1), (5, 1)])      # -count: the reset of the ordinal must work after EVERY execution
            p1 = body * execs
            replay_env = r.choice(G.ENVS)
            ops += p1 + [{"op": "dumpfs"}, {"op": "newprocess"}]
            if 1 in handles:
                ops.append(ops[0])
            ops.append(G.op_setenv(replay_env[0], replay_env[1]))
            ops += body + [{"op": "dumpfs"}, {"op": "counters"}]
            cases.append({"ci": ci, "updvar": upd, "colour": False, "ops": ops,
                          "meta": {"p1_len": len(p1), "execs": execs}})
        # update mode replaces the file WHOLESALE: the second execution presents a near miss of the stored value (a final newline
        # more or less, a trailing blank, CRLF for LF, ...) with updating enabled; the file must then hold exactly the new bytes,
        # and a read-only process must pass against them
        for i in range(max(10, n // 8)):
            r = rng.fork()
            t = r.choice(G.TEST_NAMES + G.PCT_STANDALONE)
            v = r.choice([b"<html>\n<body>hi</body>\n</html>", b"line one\nline two\n", b"", b"a", b"x\ny", G.gen_text(r, allow_cr_end=True)])
            k = r.below(7)
            v2 = [v + b"\n", v + b" ", v[:-1] if v else b"\n", b"\n" + v, v.replace(b"\n", b"\r\n") if b"\n" in v else v + b"\r", v + b"\n\n", v.rstrip(b"\n") if v.endswith(b"\n") else v + b"\t"][k]
            if v2 == v:
                v2 = v + b"\n"
            cfg = G.op_newconfig(dir=b"d1", upd=True)
            ops = [cfg, G.op_match_doc("stand", 1, t, v), G.op_end(t), G.op_match_doc("stand", 1, t, v2), G.op_end(t), {"op": "dumpfs"},
                   {"op": "newprocess"}, G.op_newconfig(dir=b"d1"), G.op_setenv(r.chance(1, 2), "unset"), G.op_match_doc("stand", 1, t, v2), {"op": "dumpfs"}]
            cases.append({"ci": False, "updvar": "unset", "colour": r.chance(1, 2), "ops": ops, "meta": {"mode": "wholesale"}})
        return cases

    def value(self, r):
        k = r.below(10)
        if k == 0:
            return b""
        if k == 1:
            return bytes(r.below(256) for _ in range(r.range(1, 40)))
        if k == 2:
            return b"line\r\nline2\r\n"
        if k == 3:
            return b"x" * r.range(1000, 70000)
        return G.gen_text(r, allow_cr_end=True)

    def oracle(self, case, ops, results):
        """(1) after added/updated the file holds exactly the value; (2) the k-th call of an execution
        touches file k; (3) the replay process passes every call that process 1 recorded without
        mismatch, silently and without writes."""
        fails = []
        obs = [r for r in results if r[0] == "obs"]
        fss = [r for r in results if r[0] == "fs"]
        if case.get("meta", {}).get("mode") == "wholesale":
            ms = [(kv, o) for (n_, kv), (_, _, o) in zip([o_ for o_ in ops if o_[0] not in ("init", "dumpfs", "counters")], obs) if n_ == "match"]
            if len(ms) != 3 or len(fss) != 2 or not all(kv["pre"].startswith("ok:") for kv, _ in ms):
                return self.skip("guard")
            (k1, o1), (k2, o2), (k3, o3) = ms
            if k1["pre"] == k2["pre"] or k2["pre"] != k3["pre"]:
                return self.skip("guard")
            w1 = [w.split(":", 1)[1] for w in o1.get("writes", "-").split(",") if w != "-" and b".snap" in unhx(w.split(":", 1)[1])]
            if o1["outcome"] != "added" or len(w1) != 1:
                return self.skip("guard")
            if o2["outcome"] != "updated" or fss[0][2].get(w1[0]) != k2["pre"][3:]:
                fails.append({"msg": "update mode, stored %r, presented %r: outcome=%s and the file holds %r - not the new value wholesale" % (
                    unhx(k1["pre"][3:])[:30], unhx(k2["pre"][3:])[:30], o2["outcome"], unhx(fss[0][2].get(w1[0], "-"))[:30])})
            elif o3["outcome"] != "passed" or o3["errors"] != "0" or o3["writes"] != "-":
                fails.append({"msg": "after the wholesale update the read-only replay of %r: outcome=%s errors=%s writes=%s" % (
                    unhx(k3["pre"][3:])[:30], o3["outcome"], o3["errors"], o3["writes"])})
            return fails
        # pair ops with obs (ops that produce obs, in order)
        op_with_obs = [o for o in ops if o[0] not in ("init", "dumpfs", "counters")]
        if len(op_with_obs) != len(obs):
            return self.skip("guard")
        # (1) & (2): track files by simulating from writes + final fs
        proc = 0
        k_of = {}
        cfgs = []
        for (name, kv), (_, idx, o) in zip(op_with_obs, obs):
            if name == "newconfig":
                cfgs.append(kv)
            if name == "newprocess":
                proc += 1
                k_of = {}
                cfgs = []
            if name == "endtest":
                for key in [x for x in k_of if x[3] == kv["test"]]:
                    k_of.pop(key)
            if name != "match" or kv["api"] not in ("stand", "standjson"):
                continue
            # ordinals are per generic file name <dir>/<Filename or test>_%d.snap<Ext>
            h = int(kv["h"])
            cfg = cfgs[h - 1] if 0 < h <= len(cfgs) else {"fn": "~", "dir": "~", "ext": "~"}
            ext = cfg["ext"] if cfg["ext"] not in ("~", "-") else (hx(b".json") if kv["api"] == "standjson" else "-")
            key = (cfg["dir"], cfg["fn"] if cfg["fn"] not in ("~", "-") else kv["test"], ext, kv["test"])
            k_of[key] = k_of.get(key, 0) + 1
            k = k_of[key]
            # (only snapshot files are this property's subject: a marker file the library drops next to them is not)
            writes = [w for w in o.get("writes", "-").split(",") if w != "-" and b".snap" in unhx(w.split(":", 1)[1]).rsplit(b"/", 1)[-1]]
            if o["outcome"] in ("added", "updated"):
                if len(writes) != 1:
                    fails.append({"msg": "obs %d: %s with writes %s" % (idx, o["outcome"], writes)})
                else:
                    p = unhx(writes[0].split(":", 1)[1])
                    base = p.rsplit(b"/", 1)[-1]
                    # <Filename, or the test name with / replaced by _>_<k>.snap<Ext>: for every name, '%' included (fix F8)
                    stem = unhx(cfg["fn"]) if cfg["fn"] not in ("~", "-") else unhx(kv["test"]).replace(b"/", b"_")
                    want = stem + b"_" + str(k).encode() + b".snap" + (unhx(ext) if ext != "-" else b"")
                    if base != want.rsplit(b"/", 1)[-1]:
                        fails.append({"msg": "obs %d: call #%d of the execution wrote %r, the property text says file %r" % (idx, k, p, want)})
            elif writes:
                fails.append({"msg": "obs %d: outcome %s but writes %s" % (idx, o["outcome"], writes)})
        # file contents at the checkpoints: every file written last by an added/updated call = its value
        if fss:
            final1 = fss[0][2]
            last_value = {}
            proc = 0
            for (name, kv), (_, idx, o) in zip(op_with_obs, obs):
                if name == "newprocess":
                    break
                if name == "match" and o["outcome"] in ("added", "updated") and kv["pre"].startswith("ok:"):
                    for w in o["writes"].split(","):
                        if w == "-" or b".snap" not in unhx(w.split(":", 1)[1]).rsplit(b"/", 1)[-1]:
                            continue      # only snapshot files are this property's subject
                        last_value[w.split(":", 1)[1]] = (kv["pre"][3:], "value" if kv["api"] == "standjson" else kv.get("form", ""))
            for p, (v, form) in last_value.items():
                if final1.get(p) != v:
                    f = {"msg": "file %r does not hold the recorded value verbatim" % unhx(p)}
                    if form == "value" and final1.get(p) is not None:
                        # a JSON call: the expected text is this harness's idea of the canonical text (json.Marshal for Go values, the
                        # package's default layout). A file that holds the SAME JSON value in another spelling or layout is the
                        # formatted value of a library that formats differently - a broken tie, not a file that holds something else
                        try:
                            import json as _json
                            if _json.loads(unhx(final1[p]).decode("utf-8")) == _json.loads(unhx(v).decode("utf-8")):
                                f["tie"] = True
                        except Exception:
                            pass
                    fails.append(f)
        # (3) replay
        if len(fss) == 2:
            p1 = case["meta"].get("p1_len")
            seen_np = False
            clean_record = True
            for (name, kv), (_, idx, o) in zip(op_with_obs, obs):
                if name == "newprocess":
                    seen_np = True
                    continue
                if not seen_np:
                    if name == "match" and o["outcome"] not in ("passed", "added"):
                        clean_record = False
                elif clean_record and name == "match":
                    if o["outcome"] != "passed" or o["errors"] != "0" or o["logs"] != "-" or o["writes"] != "-":
                        fails.append({"msg": "replay obs %d: %s errors=%s logs=%s writes=%s" %
                                      (idx, o["outcome"], o["errors"], o["logs"], o["writes"])})
            if clean_record and fss[0][2] != fss[1][2]:
                fails.append({"msg": "directory changed during replay"})
        return fails

    def known_signature(self, finding, case, ops, results, failure):
        if finding["id"] == "K12":
            # two Configs with the same directory and extension whose Filenames are F and F_<digits>
            import re
            cfgs = [kv for n_, kv in ops if n_ == "newconfig" and kv.get("fn") not in ("~", "-", None)]
            for a in cfgs:
                for b in cfgs:
                    fa, fb = unhx(a["fn"]), unhx(b["fn"])
                    if a.get("dir") == b.get("dir") and a.get("ext") == b.get("ext") and re.fullmatch(re.escape(fa) + rb"_\d+", fb):
                        return True
        if finding["id"] == "K9" and "call #" in failure.get("msg", ""):
            # two different tests make standalone calls through the same Filename / directory / extension, and the second one
            # calls before the first one's execution has ended
            cfgs, open_by_key = [], {}
            for n_, kv in ops:
                if n_ == "newconfig":
                    cfgs.append(kv)
                elif n_ == "newprocess":
                    cfgs, open_by_key = [], {}
                elif n_ == "endtest":
                    for key in list(open_by_key):
                        open_by_key[key].discard(kv["test"])
                elif n_ == "match" and kv["api"] in ("stand", "standjson"):
                    h = int(kv["h"])
                    cfg = cfgs[h - 1] if 0 < h <= len(cfgs) else {}
                    if cfg.get("fn") in ("~", "-", None):
                        continue
                    ext = cfg.get("ext") if cfg.get("ext") not in ("~", "-", None) else ("json" if kv["api"] == "standjson" else "")
                    key = (cfg.get("dir"), cfg["fn"], ext)
                    users = open_by_key.setdefault(key, set())
                    users.add(kv["test"])
                    if len(users) > 1:
                        return True
        return False

    def nontrivial(self, case, ops, results):
        return any(r[0] == "obs" and r[2]["outcome"] in ("added", "updated", "passed", "failed:diff") for r in results)

    def stats(self, case, ops, results, dist):
        for r in results:
            if r[0] == "obs" and r[2]["outcome"] != "nocall":
                dist["outcome:" + r[2]["outcome"]] += 1
        dist["ops_total"] += len(ops)
        for name, kv in ops:
            if name == "match":
                dist["api:" + kv["api"]] += 1


PROP = C19()
