"""C11 - snapshot location is a pure function of test file, test name and options."""
import os, posixpath, shutil, subprocess, json
from runner import Prop
from common import hx, unhx, REPO, GOENV
import gen as G

THIS = REPO + "/snaps/zz_verif_c11_test.go"


class C11(Prop):
    pid = "C11"
    fields = {"snappath": ["probe", "cfgsame", "path"]}
    rule = ("white-box: Dir in {unset, relative, nested relative, with .. and ., absolute, trailing slash} x Filename x Ext x "
            "{MatchSnapshot, MatchStandaloneSnapshot, MatchStandaloneJSON} x test names with / x call shapes (direct, helpers in a "
            "non-test source file (1-2 levels), helper in another _test.go file, closures, goroutine under a helper) x trimpath switch, "
            "computed by the real snapshotPath on the real stack (frames recorded and handed to the model); black-box: a generated "
            "module (package + sub-package, helpers in test and non-test files, closures, subtests, nested relative/absolute Dir, "
            "Filename, Ext, standalone APIs) compiled with and without -trimpath and run from its package directory and from a "
            "foreign working directory; distinct = distinct op; non-trivial = every case")
    outside_model = ("what the Go runtime puts on the stack (inlining, goroutines started outside a test), build-info detection of "
                     "-trimpath; -trimpath with a changed working directory is the README's documented limitation (excluded)")
    trusted = []

    def gen(self, rng, tier):
        n = 300 if tier == "quick" else 4000
        cases = []
        dirs = [None, b"__snapshots__", b"snaps", b"a/b/c", b"../shared", b"./x/../y", b"/abs/dir", b"/abs//dir/", b"", b"d/",
                b"out%put", b"/abs/100%/d"]
        for i in range(n):
            r = rng.fork()
            ops = []
            for _ in range(r.range(1, 4)):
                o = {"op": "snappath", "api": r.choice(["snap", "snap", "stand", "standjson"]), "test": hx(r.choice(G.TEST_NAMES + G.PCT_NAMES + G.PCT_STANDALONE if r.chance(1, 3) else G.TEST_NAMES)),
                     "form": r.choice(["test", "test", "nontest", "nontest", "utiltest", "nontestdeep", "nontest_via_util"]),
                     "count": r.choice([1, 5, 23, 24, 25, 40, 120]),      # recursion depth of the non-test helper (form nontestdeep)
                     "values": r.choice([[], ["nontest"], ["nontest2"], ["closure"], ["othertest"], ["othertest", "nontest"],
                                         ["nontest", "closure", "nontest2"], ["utiltest"], ["utiltest", "nontest", "othertest"], ["goroutine"]]),
                     "sort": r.chance(1, 5)}
                d = r.choice(dirs)
                if d is not None:
                    o["dir"] = hx(d)
                f = r.choice([None, None, b"named", b"with.dot", b"sub/named", b"rate%", b"a%db"])
                if f is not None:
                    o["fn"] = hx(f)
                e = r.choice([None, None, b".txt", b".json", b"ext", b".%d"])
                if e is not None:
                    o["ext"] = hx(e)
                ops.append(o)
            cases.append({"ci": False, "updvar": "unset", "colour": False, "ops": ops, "meta": {}})
        return cases

    def oracle(self, case, ops, results):
        """independent reading of the property text"""
        fails = []
        raws = [o for o in case["ops"] if o["op"] == "snappath"]
        res = [r for r in results if r[0] == "snappath"]
        ol = [o for o in ops if o[0] == "snappath"]
        if any(r[2].get("probe") == "0" for r in res):
            return self.skip("the probe no longer calls snapshotPath the way the library's entry points do (calibration failed)")
        for r_ in res:
            if r_[2].get("cfgsame") == "0":
                fails.append({"msg": "snappath %s: the memory of the Config (or of the package defaults) differs after resolving the location" % r_[1], "tie": True})
        if not (len(raws) == len(res) == len(ol)):
            return self.skip("guard")
        for raw, (_, idx, o), (n, kv) in zip(raws, res, ol):
            if raw.get("sort"):
                continue  # -trimpath variant: tied by the model only
            shape = raw.get("values", [])
            leaf = raw.get("form", "test")
            # "the calling test file" = the first *_test.go frame at or above the Match* call
            UTIL = REPO + "/snaps/zz_verif_util_test.go"
            # (the closure that makes a non-test leaf call is itself written in the c11 test file, whatever
            # wrappers surround it)
            caller = UTIL if leaf in ("utiltest", "nontest_via_util") else THIS
            d = unhx(raw["dir"]).decode() if "dir" in raw else "__snapshots__"
            base = posixpath.dirname(caller)
            full = d if d.startswith("/") else posixpath.join(base, d)
            name = unhx(raw["fn"]).decode() if "fn" in raw else None
            ext = unhx(raw["ext"]).decode() if "ext" in raw else ""
            api = raw["api"]
            test = unhx(raw["test"]).decode("latin-1")
            if api in ("stand", "standjson"):
                if "ext" not in raw and api == "standjson":
                    ext = ".json"
                fname = (name if name else test.replace("/", "_")) + "_%d.snap" + ext
            else:
                fname = (name if name else posixpath.basename(caller)[:-3]) + ".snap" + ext
            exp = posixpath.normpath(posixpath.join(full, fname))
            if exp.startswith("//"):
                exp = exp[1:]
            got = unhx(o["path"]).decode("latin-1")
            if api in ("stand", "standjson"):
                # the standalone location: what counts is the path of the k-th call. The harness asked the library itself for the
                # path of the FIRST call (its own ordinal registry applied to the generic path) - how the generic path marks the
                # place of the ordinal is the library's business
                if o.get("first") in (None, "-", "*"):
                    continue
                got = unhx(o["first"]).decode("latin-1")
                exp = posixpath.normpath(posixpath.join(full, (name if name else test.replace("/", "_")) + "_1.snap" + ext))
                if exp.startswith("//"):
                    exp = exp[1:]
            # (two spellings of one path - `/abs//dir/x` and `/abs/dir/x` - name the same file)
            gotn = posixpath.normpath(got)
            if gotn.startswith("//"):
                gotn = gotn[1:]
            if gotn != exp:
                fails.append({"msg": "snappath %d (%s via %s): %s, the property text says %s" % (idx, api, shape, got, exp)})
        return fails

    def stats(self, case, ops, results, dist):
        for o in case["ops"]:
            if o["op"] == "snappath":
                dist["shape:" + o.get("form", "test") + "<" + "+".join(o.get("values", []))] += 1
                dist["api:" + o["api"]] += 1

    # ------------------------------------------------------------------ black box
    def extra_run(self, tier, seed, workdir):
        mod = os.path.join(workdir, "bbmod")
        absdir = os.path.join(workdir, "bbabs")
        other = os.path.join(workdir, "elsewhere")
        for d in (mod, absdir, other, os.path.join(mod, "pkg", "sub", "deep"), os.path.join(mod, "helper")):
            os.makedirs(d, exist_ok=True)
        w = lambda p, s: open(os.path.join(mod, p), "w").write(s)
        w("go.mod", "module bbmod\n\ngo 1.22\n\nrequire github.com/gkampitakis/go-snaps v0.0.0\n\nreplace github.com/gkampitakis/go-snaps => %s\n" % REPO)
        shutil.copy(os.path.join(REPO, "go.sum"), os.path.join(mod, "go.sum"))
        w("helper/helper.go", 'package helper\n\nimport (\n\t"testing"\n\n\t"github.com/gkampitakis/go-snaps/snaps"\n)\n\n'
          'func Snap(t *testing.T, v any) { t.Helper(); snaps.MatchSnapshot(t, v) }\n\nfunc Deep(t *testing.T, v any) { t.Helper(); func() { Snap(t, v) }() }\n')
        test_src = '''package PKG

import (
	"os"
	"testing"

	"bbmod/helper"
	"github.com/gkampitakis/go-snaps/snaps"
)

func TestDirect(t *testing.T)  { snaps.MatchSnapshot(t, "direct") }
func TestHelper(t *testing.T)  { helper.Snap(t, "via non-test helper") }
func TestDeep(t *testing.T)    { helper.Deep(t, "via nested helper + closure") }
func TestOtherFile(t *testing.T) { inOtherTestFile(t, "via helper in another test file") }
func TestClosure(t *testing.T) { func() { func() { snaps.MatchSnapshot(t, "closure") }() }() }
func TestSub(t *testing.T) {
	t.Run("x", func(t *testing.T) { snaps.MatchSnapshot(t, "sub x") })
	t.Run("y/z", func(t *testing.T) { helper.Snap(t, "sub y z") })
}
func TestCfg(t *testing.T) {
	snaps.WithConfig(snaps.Dir("custom/nested"), snaps.Filename("named"), snaps.Ext(".txt")).MatchSnapshot(t, "cfg")
	snaps.WithConfig(snaps.Dir("../updir")).MatchJSON(t, `{"a":1}`)
}
func TestAbs(t *testing.T) { snaps.WithConfig(snaps.Dir(os.Getenv("BB_ABS"))).MatchSnapshot(t, "abs") }
func TestStandalone(t *testing.T) {
	snaps.MatchStandaloneSnapshot(t, "s1")
	snaps.MatchStandaloneSnapshot(t, "s2")
	snaps.MatchStandaloneJSON(t, `{"k":"v"}`)
	t.Run("inner/x", func(t *testing.T) { snaps.WithConfig(snaps.Ext(".dat")).MatchStandaloneSnapshot(t, "s3") })
}
'''
        other_src = 'package PKG\n\nimport (\n\t"testing"\n\n\t"github.com/gkampitakis/go-snaps/snaps"\n)\n\nfunc inOtherTestFile(t *testing.T, v any) { t.Helper(); snaps.MatchSnapshot(t, v) }\n'
        for pkgdir, pkgname in (("pkg", "pkg"), ("pkg/sub/deep", "deep")):
            w(pkgdir + "/a_test.go", test_src.replace("PKG", pkgname))
            w(pkgdir + "/helpers_test.go", other_src.replace("PKG", pkgname))
            w(pkgdir + "/b.v2_test.go", 'package %s\n\nimport (\n\t"testing"\n\n\t"github.com/gkampitakis/go-snaps/snaps"\n)\n\n'
              'func TestDotted(t *testing.T) { snaps.MatchSnapshot(t, "file name with a dot") }\n' % pkgname)
        env = dict(GOENV, BB_ABS=absdir, NO_COLOR="1")
        env.pop("CI", None)
        env["GOFLAGS"] = "-mod=mod"
        fails, runs = [], 0

        def expected(pkgdir):
            p = lambda *a: os.path.normpath(os.path.join(mod, pkgdir, *a))
            return sorted([p("__snapshots__/a_test.snap"), p("__snapshots__/helpers_test.snap"), p("__snapshots__/b.v2_test.snap"), p("custom/nested/named.snap.txt"),
                           p("../updir/a_test.snap"), os.path.join(absdir, "a_test.snap"),
                           p("__snapshots__/TestStandalone_1.snap"), p("__snapshots__/TestStandalone_2.snap"),
                           p("__snapshots__/TestStandalone_1.snap.json"), p("__snapshots__/TestStandalone_inner_x_1.snap.dat")])

        def created():
            out = []
            for root in (mod, absdir, other):
                for dp, dn, fn in os.walk(root):
                    for f in fn:
                        if ".snap" in f:
                            out.append(os.path.join(dp, f))
            return sorted(out)

        def wipe():
            for f in created():
                os.remove(f)

        for pkgdir in ("pkg", "pkg/sub/deep"):
            for trim in (False, True):
                binp = os.path.join(workdir, "bb_%s_%s.test" % (pkgdir.replace("/", "_"), trim))
                cmd = ["go", "test", "-c", "-vet=off", "-o", binp] + (["-trimpath"] if trim else []) + ["./" + pkgdir]
                p = subprocess.run(cmd, cwd=mod, env=env, stdout=subprocess.PIPE, stderr=subprocess.STDOUT, text=True, timeout=900)
                if p.returncode != 0:
                    fails.append({"msg": "black-box build failed: " + p.stdout[-800:]})
                    continue
                for cwd in ([os.path.join(mod, pkgdir), other] if not trim else [os.path.join(mod, pkgdir)]):
                    wipe()
                    p = subprocess.run([binp, "-test.count=1"], cwd=cwd, env=env, stdout=subprocess.PIPE, stderr=subprocess.STDOUT, text=True, timeout=900)
                    runs += 1
                    got = created()
                    exp = expected(pkgdir)
                    if got != exp:
                        fails.append({"msg": "package %s%s run from %s: snapshot files %s, expected %s" %
                                      (pkgdir, " (-trimpath)" if trim else "", "its own directory" if cwd != other else "a foreign directory",
                                       [os.path.relpath(g, workdir) for g in got], [os.path.relpath(e, workdir) for e in exp]),
                                      "stdout": p.stdout[-600:]})
                    # a second run from the same place must find everything (no new files)
                    p2 = subprocess.run([binp, "-test.count=1"], cwd=cwd, env=env, stdout=subprocess.PIPE, stderr=subprocess.STDOUT, text=True, timeout=900)
                    runs += 1
                    if created() != got or p2.returncode != 0:
                        fails.append({"msg": "package %s: second run did not find the snapshots of the first" % pkgdir, "stdout": p2.stdout[-600:]})
        wipe()
        return fails, {"blackbox_runs": runs, "blackbox_layouts": 4}


PROP = C11()
