"""C12 - Config values are immutable; calls through them are order-independent."""
import re
from runner import Prop
from common import hx, unhx
import gen as G


class C12(Prop):
    pid = "C12"
    fields = dict(Prop.fields, snappath=["probe", "cfgsame", "path"])
    rule = ("sequences of the five Match* entry points issued through 1-3 shared Config handles (and the package "
            "defaults) with random option sets (Dir, Filename, Ext, Update), all creating; the oracle recomputes every "
            "call's location from the Config's options alone (independent reading of the naming rule) and compares it with "
            "the file actually written, and every JSON entry's text from a Config freshly built from the same options (JSON() "
            "options with empty / tab / wide indentation included: the stored text may not depend on earlier calls); distinct = distinct op list; non-trivial = at least two different entry points "
            "went through one handle")
    outside_model = "Go pointer aliasing inside option closures and concurrent use (race detector) are runtime matters"
    trusted = []

    def gen(self, rng, tier):
        n = 400 if tier == "quick" else 6000
        cases = []
        for i in range(n):
            r = rng.fork()
            ops = []
            nh = r.range(1, 3)
            for h in range(nh):
                ops.append(G.op_newconfig(dir=r.choice([b"d1", b"d2", b"def"]), fn=r.choice([None, None, b"shared", b"other"]),
                                          ext=r.choice([None, None, b".txt", b".json"]), upd=r.choice([None, None, True]),
                                          js=r.choice([None, None, {"width": 0, "indent": "", "sortKeys": True}, {"width": 0, "indent": "", "sortKeys": False},
                                                       {"width": 40, "indent": "    ", "sortKeys": True}, {"width": 0, "indent": "\t", "sortKeys": False}])))
            if r.chance(1, 4):
                # ONE JSON option value used in two WithConfig calls - in the first one behind an earlier JSON option with other
                # settings (which it overrides), a Config that may never be used for a call; then on its own: an option value must
                # not carry anything from one WithConfig to the next
                shared = r.choice([{"width": 0, "indent": "", "sortKeys": True}, {"width": 0, "indent": "", "sortKeys": False}])
                first = dict(G.op_newconfig(dir=b"d3", js=shared), json2=r.choice([{"width": 40, "indent": "    ", "sortKeys": False}, {"width": 0, "indent": "\t", "sortKeys": True}]))
                ops = [first] + ops + [G.op_newconfig(dir=r.choice([b"d1", b"d4"]), fn=r.choice([None, b"out"]), js=shared)]
                nh += 2
            if r.chance(1, 8):
                # ONE Config (no Filename) used by MatchSnapshot calls written in TWO test files: each file's snapshots live under
                # that file's name, in either order (oracle only: the model's caller file is fixed per case)
                hcfg = nh
                t1, t2 = r.shuffle(G.TEST_NAMES)[:2]
                a = [G.op_match_snap(hcfg, t1, [G.gen_text(r)]) for _ in range(r.range(1, 2))] + [G.op_end(t1)]
                b = [dict(G.op_match_snap(hcfg, t2, [G.gen_text(r)]), via="util") for _ in range(r.range(1, 2))] + [G.op_end(t2)]
                if r.chance(1, 2):
                    a, b = b, a
                ops = [o_ for o_ in ops if o_["op"] == "newconfig"][:nh - 1] + [G.op_newconfig(dir=r.choice([b"d1", b"d5"]))] + a + b + [{"op": "dumpfs"}]
                cases.append({"ci": False, "updvar": "unset", "colour": False, "ops": ops, "meta": {"oracle_only": True}})
                continue
            tests = r.shuffle(G.TEST_NAMES)[: r.range(1, 3)]
            seqs = []
            for t in tests:
                calls = []
                for _ in range(r.range(1, 7)):
                    h = r.range(0, nh)
                    api = r.choice(["snap", "json", "yaml", "stand", "standjson", "standjson"])
                    if api == "snap":
                        calls.append(G.op_match_snap(h, t, [G.gen_text(r)]))
                    elif api == "stand":
                        calls.append(G.op_match_doc("stand", h, t, G.gen_text(r)))
                    elif api == "yaml":
                        calls.append(G.op_match_doc("yaml", h, t, r.choice(G.YAML_DOCS)))
                    else:
                        calls.append(G.op_match_doc(api, h, t, r.choice(G.JSON_DOCS), r.choice(["string", "bytes"])))
                seqs.append(calls + [G.op_end(t)])
            ops += G.interleave(r, seqs) + [{"op": "dumpfs"}]
            if r.chance(1, 3):
                # locations resolved (not written) for Configs with RELATIVE directories: resolving must not write anything back
                for _ in range(r.range(1, 3)):
                    so = {"op": "snappath", "api": r.choice(["snap", "stand", "standjson"]), "test": hx(r.choice(G.TEST_NAMES)), "form": r.choice(["test", "utiltest"]),
                          "values": [], "count": 1, "sort": False}
                    d_ = r.choice([None, b"rel/dir", b"../shared", b"__snapshots__"])
                    if d_ is not None:
                        so["dir"] = hx(d_)
                    ops.append(so)
            cases.append({"ci": False, "updvar": "unset", "colour": False, "ops": ops, "meta": {}})
        return cases

    def oracle(self, case, ops, results):
        obs = [r for r in results if r[0] == "obs"]
        op_with_obs = [o for o in ops if o[0] not in ("init", "dumpfs", "counters", "snappath")]
        if len(op_with_obs) != len(obs):
            return self.skip("guard")
        cfgs = []
        k_of = {}
        fails = []
        fss = [r for r in results if r[0] == "fs"]
        final = fss[-1][2] if fss and not any(n == "newprocess" for n, _ in ops) else None
        # files some call UPDATED (shared Filename + Update(true)) no longer hold what earlier calls stored
        rewritten = set(x.split(":", 1)[1] for r_ in obs if r_[2].get("outcome") == "updated" for x in r_[2]["writes"].split(",") if x != "-")
        for r_ in results:
            if r_[0] == "snappath" and r_[2].get("cfgsame") == "0":
                fails.append({"msg": "snappath %s: the memory of the Config (or of the package defaults) differs after resolving a location" % r_[1], "tie": True})
        for (name, kv), (_, idx, o) in zip(op_with_obs, obs):
            if name == "newconfig":
                cfgs.append(kv)
            elif name == "newprocess":
                cfgs, k_of = [], {}
            elif name == "endtest":
                for key in [x for x in k_of if x[1] == kv["test"]]:
                    k_of.pop(key)
            elif name == "match" and kv.get("pre") != "novalues":
                if o.get("cfgsame") == "0":
                    # (a tie-level complaint: a lazily filled cache inside the Config is also "a difference in memory")
                    fails.append({"msg": "obs %d (%s via handle %s): the memory of the Config differs after the call (some field, or something a field points to)" % (idx, kv["api"], kv["h"]), "tie": True})
                h = int(kv["h"])
                if h > len(cfgs):
                    continue
                cfg = cfgs[h - 1] if h > 0 else {"fn": "~", "dir": "~", "ext": "~"}
                api = kv["api"]
                if api in ("stand", "standjson"):
                    d = "/S/def" if cfg["dir"] == "~" else G.unhx_s(cfg["dir"])
                    fn = G.unhx_s(kv["test"]).replace("/", "_") if cfg["fn"] in ("~", "-") else G.unhx_s(cfg["fn"])
                    ext = G.unhx_s(cfg["ext"]) if cfg["ext"] not in ("~", "-") else (".json" if api == "standjson" else "")
                    exp = re.compile(r"^%s/%s_\d+\.snap%s$" % (re.escape(d), re.escape(fn), re.escape(ext)), re.S)
                else:
                    exp = G.expected_multi_path(cfg, api, kv["test"], **({"caller_base": "zz_verif_util_test"} if kv.get("via") == "util" else {}))
                if o["outcome"] in ("added", "updated"):
                    w = [x.split(":", 1)[1] for x in o["writes"].split(",") if x != "-" and b".snap" in unhx(x.split(":", 1)[1]).rsplit(b"/", 1)[-1]]
                    got = [unhx(x).decode("latin-1") for x in w]
                    ok = (len(got) == 1 and exp.match(got[0])) if hasattr(exp, "match") else got == [exp]
                    if not ok:
                        fails.append({"msg": "obs %d (%s via handle %d): wrote %s, options say %s" % (idx, api, h, got, getattr(exp, 'pattern', exp))})
                    # the text stored by a JSON call is the rendering under the handle's OPTIONS (pre = rendering with a
                    # Config freshly built from the same options): it may not depend on what went through the handle before
                    if api in ("json", "standjson") and o["outcome"] == "added" and kv.get("pre", "").startswith("ok:") and final is not None and len(w) == 1 and w[0] not in rewritten:
                        content = final.get(w[0])
                        if content is not None and unhx(kv["pre"][3:]) not in unhx(content):
                            f_ = {"msg": "obs %d (%s via handle %d): the stored text is not the rendering its Config's options give: %r"
                                         % (idx, api, h, unhx(kv["pre"][3:])[:80])}
                            # with NO JSON option on the handle the layout is the entry point's default - a parameter this harness
                            # reads from the package defaults: a different default for one entry point is a broken tie, not a
                            # call that depends on what went through the Config before
                            raw_cfgs = [o_ for o_ in case["ops"] if o_["op"] == "newconfig"]
                            if not (0 < h <= len(raw_cfgs) and (raw_cfgs[h - 1].get("json") or raw_cfgs[h - 1].get("json2"))):
                                f_["tie"] = True
                            fails.append(f_)
        return fails

    def nontrivial(self, case, ops, results):
        per = {}
        for n, kv in ops:
            if n == "match":
                per.setdefault(kv["h"], set()).add(kv["api"])
        return any(len(v) >= 2 for v in per.values())

    def stats(self, case, ops, results, dist):
        for n, kv in ops:
            if n == "match":
                dist["api:" + kv["api"]] += 1
                dist["handle:" + kv["h"]] += 1


PROP = C12()
