"""C09 - Clean reports every stale item, deletes only in clean mode, touches nothing else."""
import os, re, shutil, subprocess
from runner import Prop
from common import hx, unhx, REPO, GOENV
import gen as G

CLEAN_FIELDS = ["layout", "ofiles", "otests", "writes", "printed", "passed", "failed", "added", "updated", "skipped", "removed"]


def frame(tid, body):
    return b"\n[" + tid + b"]\n" + body + b"\n---\n"


def parse_file(content):
    """(entries, residue) of a snapshot file: entries = list of (id-without-brackets, body); residue = the non-blank lines
    that belong to no entry. An entry is a `[id]` line that opens the file or follows a blank line, its body,
    and the `---` line that closes it; how many blank lines separate entries is not judged."""
    out, residue = [], []
    lines = content.split(b"\n")
    i = 0
    while i < len(lines):
        m = re.match(rb"^\[(.*)\]$", lines[i], re.S)
        if m and (i == 0 or lines[i - 1] == b""):
            j = i + 1
            while j < len(lines) and lines[j] != b"---":
                j += 1
            if j < len(lines):
                out.append((m.group(1), b"\n".join(lines[i + 1:j])))
                i = j + 1
                continue
        if lines[i] != b"":
            residue.append(lines[i])
        i += 1
    return out, residue


def parse_entries(content):
    """entries of a snapshot file: list of (id-without-brackets, body)"""
    return parse_file(content)[0]


def env_at_clean(case, ops):
    """(ci, upd) in force when the first clean op ran (robust against shrinking)"""
    ci, upd = case.get("ci", False), case.get("updvar", "unset")
    for name, kv in ops:
        if name == "clean":
            break
        if name == "setenv":
            ci, upd = kv["ci"] == "1", kv["upd"]
    return ci, upd


class CleanBase(Prop):
    fields = {"obs": ["outcome", "errors", "logs", "writes", "~line"], "fs": "*", "counters": "*", "clean": CLEAN_FIELDS, "readsum": ["ok", "agree", "~render"]}

    def gen_tree(self, r, sort_names=False, nontest_ids=False):
        """Returns (setup ops, run ops, info). Layout: def/ holds the default multi-entry file (+ stale entries),
        stale standalone and unrelated files; d2/ is never addressed."""
        # (sub-test names keep what was passed to t.Run: URLs, paths that path.Clean would change, regexp metacharacters)
        tests = r.shuffle([b"TestA", b"TestB", b"TestB/sub", b"TestC10", b"TestC9", b"TestAlpha", b"TestZeta/x#01", b"TestList/list[0]", b"TestB/[k]",
                           b"TestFetch/https://example.com", b"TestFix/./fixtures/a.json", b"TestDir/testdata/", b"TestP/a/../b",
                           b"TestCalc/sum(a+b)", b"TestQ/what?", b"TestV/v1.0"])[: r.range(1, 4)]
        # tidy_main: the default file needs neither pruning nor sorting (Clean must leave it alone and must not carry
        # anything over from it to the files it examines next)
        tidy_main = r.chance(1, 4)
        stale_tests = [] if tidy_main else r.shuffle([b"TestOld", b"TestGone/sub", b"TestA/removed", b"TestC2"])[: r.range(0, 3)]
        ncalls = {t: r.range(1, 3) for t in tests}
        entries = []
        for t in tests:
            for k in range(1, ncalls[t] + 1 + (r.range(0, 2) if (r.chance(1, 3) and not tidy_main) else 0)):   # ordinals beyond the call count are stale
                entries.append((b"%s - %d" % (t, k), G.gen_text(r, maxlines=3).replace(b"\r", b"")))
        for t in stale_tests:
            entries.append((b"%s - %d" % (t, r.range(1, 2)), G.gen_text(r, maxlines=3).replace(b"\r", b"")))
        if entries and r.chance(1, 3):
            # a body that quotes a header: `[<id of another entry>]` followed by more text (stored verbatim by the library)
            k = r.below(len(entries))
            other = r.choice(entries)[0]
            entries[k] = (entries[k][0], r.choice([b"excerpt:\n", b""]) + b"[" + other + b"]\nquoted text" + r.choice([b"", b"\n\nmore"]))
        if entries and r.chance(1, 8):
            # a BIG file: bodies of a few kilobytes, so that the file spans several 4096-byte reader windows
            entries = [(i_, b"\n".join(b"%s line %03d: the quick brown fox" % (i_.split(b" ")[0][-6:], k_) for k_ in range(r.range(40, 90)))) for i_, _ in entries]
        entries = r.shuffle(entries)
        if sort_names and r.chance(1, 2):
            entries.sort(key=lambda e: e[0])
        if tidy_main:
            byid = dict(entries)
            entries = [(i_, byid[i_]) for i_ in G.nat_sorted([i_ for i_, _ in entries])]
        content = b"".join(frame(i, b) for i, b in entries)
        setup = [G.op_putfile(b"def/zz_verif_trace_test.snap", content)]
        extra_files = {}
        if r.chance(1, 2):
            extra_files[b"def/old_test.snap"] = frame(b"TestX - 1", b"x")
        if r.chance(1, 2):
            extra_files[b"def/TestGone_1.snap"] = b"standalone stale"
        if r.chance(1, 3):
            extra_files[b"def/notes.txt"] = b"unrelated"
        if r.chance(1, 3):
            extra_files[b"def/x.snap.bak"] = b"backup"
        if r.chance(1, 3):
            extra_files[b"def/sub/inner_test.snap"] = frame(b"TestIn - 1", b"i")
        if r.chance(1, 3):
            extra_files[b"d2/other_test.snap"] = frame(b"TestFar - 1", b"f")
        if r.chance(1, 4):
            extra_files[b"def/archive.snap.d/keep.txt"] = b"inside a sub-directory whose name contains .snap"
        for p, c in extra_files.items():
            setup.append(G.op_putfile(p, c))
        if r.chance(1, 4):
            setup.append({"op": "putdir", "path": hx(b"def/empty.snapshots")})
        # the run: every test makes its calls with the stored values (so they pass), plus standalone calls
        run = []
        values = dict(entries)
        count = r.weighted([(1, 3), (2, 1), (3, 1)])
        with_stand = {t: r.chance(1, 4) for t in tests}     # (the same calls in every one of the `count` executions)
        for _ in range(count):
            seqs = []
            for t in tests:
                calls = [G.op_match_snap(0, t, [values[b"%s - %d" % (t, k)]]) for k in range(1, ncalls[t] + 1)]
                if with_stand[t]:
                    calls.append(G.op_match_doc("stand", 0, t, b"sv"))
                seqs.append(calls + [G.op_end(t)])
            run += G.interleave(r, seqs)
        if r.chance(1, 3) or tidy_main:
            # a second addressed multi-entry file (Config with Filename) whose stale entry has the id of a live
            # entry of the first file (a test that moved between files)
            t0 = tests[0]
            second = [(b"%s - 1" % t0, b"moved-away value"), (b"TestSecond - 1", b"s1")]
            if stale_tests and r.chance(1, 2):
                # the same id stale in BOTH files (each occurrence is judged, listed and removed on its own)
                sid = next((i for i, _ in entries if i.startswith(stale_tests[0] + b" - ")), None)
                if sid:
                    second.append((sid, b"stale in the second file too"))
            if r.chance(1, 2):
                second.reverse()
            setup.append(G.op_putfile(b"def/aaa_second.snap" if r.chance(1, 2) else b"def/zzz_second.snap", b"".join(frame(i, b) for i, b in second)))
            fn = setup[-1]["path"]
            # Dir spelled canonically or not: the registry key and Clean's directory walk must still agree
            cfg = G.op_newconfig(dir=r.choice([b"def", b"def", b"def/", b"./def", b"def/../def", b"def//"]), fn=unhx(fn).split(b"/")[-1][:-5])
            extra = []
            for _ in range(count):
                extra += [G.op_match_snap(1, b"TestSecond", [b"s1"]), G.op_end(b"TestSecond")]
            run = [cfg] + run + extra
        info = {"tests": tests, "ncalls": ncalls, "count": count, "entries": entries}
        return setup, run, info

    def stats(self, case, ops, results, dist):
        for r in results:
            if r[0] == "clean":
                dist["clean:removed=%s" % r[2].get("removed")] += 1
                dist["clean:otests=%d" % (0 if r[2]["otests"] == "~" else len(r[2]["otests"].split(",")))] += 1
        dist["mode:%s" % case["meta"].get("mode")] += 1


class C09(CleanBase):
    pid = "C09"
    wants_dirs = True
    rule = ("directory trees (default snapshot file with live and stale entries at every position incl. ordinals beyond "
            "the call count, stale standalone files, old *.snap files, unrelated files, x.snap.bak, sub-directories, an "
            "unvisited directory) x a run addressing some slots (-count 1-3) x Clean in every mode cell CI x UPDATE_SNAPS x sort; "
            "the oracle evaluates the property text on before/after directory images and the parsed summary; "
            "non-trivial = at least one stale item existed")
    outside_model = "-run filtering (regexp) and the sibling-.go lookup are C08's subject (empty pattern here)"
    trusted = []

    def extra_run(self, tier, seed, workdir):
        """Black box: Clean inside a REAL `go test` binary, built plainly and with -trimpath (under -trimpath the paths the
        library records are RELATIVE to the package directory, which the white-box harness - absolute sandbox paths - never
        shows). Recorded: two live entries, one standalone file; then a test stops making its call (stale entry) and an old
        *.snap file appears. Report mode must list exactly the stale entry and the old file and remove nothing; clean mode
        must remove exactly those; the addressed files are never listed."""
        from C05 import BB_TEST
        fails, runs = [], 0
        for trim in (False, True):
            mod = os.path.join(workdir, "bbclean%d" % trim)
            os.makedirs(mod, exist_ok=True)
            open(os.path.join(mod, "go.mod"), "w").write("module bb\n\ngo 1.22\n\nrequire github.com/gkampitakis/go-snaps v0.0.0\n\nreplace github.com/gkampitakis/go-snaps => %s\n" % REPO)
            shutil.copy(os.path.join(REPO, "go.sum"), os.path.join(mod, "go.sum"))
            open(os.path.join(mod, "m_test.go"), "w").write(BB_TEST)
            env = {k: v for k, v in GOENV.items() if k not in ("CI", "UPDATE_SNAPS")}
            env["NO_COLOR"] = "1"
            binp = os.path.join(workdir, "bbclean%d.test" % trim)
            p = subprocess.run(["go", "test", "-c", "-vet=off"] + (["-trimpath"] if trim else []) + ["-o", binp, "."], cwd=mod, env=env,
                               stdout=subprocess.PIPE, stderr=subprocess.STDOUT, text=True, errors="replace", timeout=900)
            if p.returncode != 0:
                return [{"msg": "black-box build failed: " + p.stdout[-800:]}], {}
            snapdir = os.path.join(mod, "__snapshots__")
            where = "black box (%s build)" % ("-trimpath" if trim else "plain")

            def run(e):
                q = subprocess.run([binp, "-test.count=1"], cwd=mod, env=dict(env, **e), stdout=subprocess.PIPE, stderr=subprocess.STDOUT, text=True, errors="replace", timeout=900)
                img = {}
                if os.path.isdir(snapdir):
                    for f in sorted(os.listdir(snapdir)):
                        if os.path.isfile(os.path.join(snapdir, f)):        # (a sub-directory is no snapshot file)
                            img[f] = open(os.path.join(snapdir, f), "rb").read()
                return q.returncode, q.stdout, img
            shutil.rmtree(snapdir, ignore_errors=True)
            rc, out, img = run({"BB_VALUE": "v0", "BB_GONE": "1"})
            runs += 1
            if rc != 0 or "m_test.snap" not in img or "TestStand_1.snap" not in img:
                fails.append({"msg": "%s: recording run: exit=%d files=%s" % (where, rc, sorted(img))})
                continue
            open(os.path.join(snapdir, "old_test.snap"), "wb").write(b"\n[TestOld - 1]\nx\n---\n")
            base = dict(img, **{"old_test.snap": b"\n[TestOld - 1]\nx\n---\n"})
            # report mode
            rc, out, img = run({"BB_VALUE": "v0", "BB_GONE": "0"})
            runs += 1
            # (what the summary mentions, whatever its layout: the test binary prints nothing else that could name these items)
            if img != base:
                fails.append({"msg": "%s: report mode changed the snapshot directory" % where})
            if "TestGone - 1" not in out or "old_test.snap" not in out:
                f_ = {"msg": "%s: report mode did not list the stale entry and the old file: %s" % (where, out[-400:])}
                if "TestGone" in out and "old_test.snap" in out:
                    f_["tie"] = True      # both are named, the entry in another shape than `<test> - <ordinal>`: the summary's layout, not a missing item
                fails.append(f_)
            if any(l.rstrip().endswith(("m_test.snap", "TestStand_1.snap", "TestVal - 1")) for l in out.splitlines()):
                fails.append({"msg": "%s: report mode lists an addressed item as obsolete: %s" % (where, out[-400:])})
            # every OTHER value of UPDATE_SNAPS is report mode too ("in every other mode no entry or file is removed")
            for spelling in ("1", "TRUE", "t", "True", "yes", "Clean", "always", "false"):
                rc, out, img = run({"BB_VALUE": "v0", "BB_GONE": "0", "UPDATE_SNAPS": spelling})
                runs += 1
                if img != base:
                    fails.append({"msg": "%s: UPDATE_SNAPS=%s (neither `true` nor `clean`) changed the snapshot directory: files %s" % (where, spelling, sorted(img))})
                if "TestGone - 1" not in out or "old_test.snap" not in out:
                    f_ = {"msg": "%s: UPDATE_SNAPS=%s did not list the stale entry and the old file: %s" % (where, spelling, out[-400:])}
                    if "TestGone" in out and "old_test.snap" in out:
                        f_["tie"] = True
                    fails.append(f_)
            # clean mode
            rc, out, img = run({"BB_VALUE": "v0", "BB_GONE": "0", "UPDATE_SNAPS": "clean"})
            runs += 1
            ents = [i for i, _ in parse_entries(img.get("m_test.snap", b""))]
            if "old_test.snap" in img or b"TestGone - 1" in b",".join(ents):
                fails.append({"msg": "%s: clean mode kept a stale item: files %s entries %s" % (where, sorted(img), ents)})
            if ents != [b"TestVal - 1"] or img.get("TestStand_1.snap") != base["TestStand_1.snap"]:
                fails.append({"msg": "%s: clean mode removed or altered an addressed item: files %s entries %s" % (where, sorted(img), ents)})
            shutil.rmtree(snapdir, ignore_errors=True)
        return fails, {"black_box_clean_runs": runs, "black_box": "real go test binaries (plain and -trimpath) with TestMain+Clean: report and clean mode on a directory with a stale entry and an old file"}

    def gen(self, rng, tier):
        n = 300 if tier == "quick" else 5000
        cases = []
        for i in range(n):
            r = rng.fork()
            setup, run, info = self.gen_tree(r, sort_names=True)
            if len(info["tests"]) > 1 and r.chance(1, 4):
                # "... unless it belongs to a skip-protected test": one test calls snaps.Skip instead of running (its entries and its
                # descendants' stay, unreported); names with regexp metacharacters and path-like names included
                ts_ = r.choice(info["tests"])
                run = [({"op": "skip", "test": o["test"], "form": r.choice(["", "f", "now"])} if (o["op"] == "endtest" and unhx(o["test"]) == ts_) else o)
                       for o in run if not (o["op"] == "match" and unhx(o["test"]) == ts_)]
            ci, upd = r.choice(G.ENVS)
            sort = r.chance(1, 2)
            colour = r.chance(1, 3)      # Clean prints its summary with ANSI colours
            ops = setup + run + [G.op_setenv(ci, upd), {"op": "dumpfs"}, {"op": "clean", "sort": sort, "count": info["count"], "colour": colour}, {"op": "dumpfs"}]
            if r.chance(1, 3):
                ops += [{"op": "clean", "sort": sort, "count": info["count"], "colour": colour}, {"op": "dumpfs"}]
            cases.append({"ci": False, "updvar": "unset", "colour": False, "ops": ops,
                          "meta": {"mode": "ci=%s upd=%s sort=%s" % (ci, upd, sort), "ci": ci, "upd": upd, "sort": sort,
                                   "tests": [hx(t) for t in info["tests"]], "ncalls": {hx(t): n_ for t, n_ in info["ncalls"].items()}}})
        # snapshot directories whose PATH holds characters that mean something to a glob / a regular expression / a format:
        # a directory is a name, nothing else (every file of it with `.snap` in its name is looked at, the stale ones are found)
        for i in range(max(12, n // 12)):
            r = rng.fork()
            D = r.choice([b"[linux]/snaps", b"back\\slash/__snapshots__", b"star*dir", b"q?x/y", b"{a,b}/s", b"100%/x", b"a[0]", b"snap[s", b"sp ace/d", b"(paren)/+plus"])
            used = frame(b"TestLive - 1", b"live value") + frame(b"TestGone - 1", b"stale") + (frame(b"TestLive - 2", b"beyond the call count") if r.chance(1, 2) else b"")
            setup = [G.op_putfile(D + b"/used.snap", used), G.op_putfile(D + b"/orphan.snap", frame(b"TestX - 1", b"x")),
                     G.op_putfile(D + b"/TestOld_1.snap", b"standalone stale"), G.op_putfile(D + b"/keep.txt", b"unrelated")]
            run = [G.op_newconfig(dir=D, fn=b"used"), G.op_match_snap(1, b"TestLive", [b"live value"]), G.op_end(b"TestLive")]
            ci, upd = r.choice(G.ENVS)
            sort = r.chance(1, 2)
            ops = setup + run + [G.op_setenv(ci, upd), {"op": "dumpfs"}, {"op": "clean", "sort": sort, "count": 1, "colour": False}, {"op": "dumpfs"}]
            cases.append({"ci": False, "updvar": "unset", "colour": False, "ops": ops,
                          "meta": {"mode": "hostile-dir ci=%s upd=%s sort=%s" % (ci, upd, sort), "ci": ci, "upd": upd, "sort": sort,
                                   "tests": [hx(b"TestLive")], "ncalls": {hx(b"TestLive"): 1}}})
        # an existing but EMPTY snapshot directory that a call addressed (the call fails where nothing may be created, or
        # creates the first file elsewhere): Clean removes obsolete FILES in clean mode - a directory never, in no mode
        for i in range(max(10, n // 15)):
            r = rng.fork()
            ci, upd = r.choice(G.ENVS)
            opt = r.choice([False, False, None])
            api = r.choice(["snap", "json", "yaml", "stand", "standjson"])
            mk = {"snap": lambda: G.op_match_snap(1, b"TestEmpty", [b"v"]), "json": lambda: G.op_match_doc("json", 1, b"TestEmpty", b'{"a":1}'),
                  "yaml": lambda: G.op_match_doc("yaml", 1, b"TestEmpty", b"a: 1\n"), "stand": lambda: G.op_match_doc("stand", 1, b"TestEmpty", b"v"),
                  "standjson": lambda: G.op_match_doc("standjson", 1, b"TestEmpty", b'{"a":1}')}[api]
            ops = [{"op": "putdir", "path": hx(b"emptydir/__snapshots__")}, G.op_putfile(b"emptydir/notes.txt", b"next to it"),
                   G.op_setenv(True if opt is None else ci, upd), G.op_newconfig(dir=b"emptydir/__snapshots__", upd=opt), mk(), G.op_end(b"TestEmpty"),
                   {"op": "dumpfs"}, {"op": "clean", "sort": r.chance(1, 2), "count": 1, "colour": False}, {"op": "dumpfs"}]
            cases.append({"ci": False, "updvar": "unset", "colour": False, "ops": ops, "meta": {"mode": "empty-dir", "emptydir": True}})
        return cases

    def oracle(self, case, ops, results):
        meta = case["meta"]
        dl = [r for r in results if r[0] == "dirs"]
        gone = []
        if len(dl) >= 2 and dl[0][2].get("list") not in (None, "*") and dl[1][2].get("list") not in (None, "*"):
            d0 = set(x for x in dl[0][2]["list"].split(",") if x != "~")
            d1 = set(x for x in dl[1][2]["list"].split(",") if x != "~")
            gone = [{"msg": "Clean removed the directory %r (directories are never touched, whatever the mode)" % unhx(x)} for x in sorted(d0 - d1)]
        if meta.get("emptydir"):
            return gone
        if "tests" not in meta:
            return self.skip("guard")
        fss = [r for r in results if r[0] == "fs"]
        cl = [r for r in results if r[0] == "clean"]
        if len(fss) < 2 or not cl:
            return self.skip("guard")
        before, after = fss[0][2], fss[1][2]
        c = cl[0][2]
        fails = []
        ci_, upd_ = env_at_clean(case, ops)
        sort_ = next((kv["sort"] == "1" for name, kv in ops if name == "clean"), False)
        deletes = (not ci_) and upd_ in ("true", "clean")
        main = hx(b"/S/def/zz_verif_trace_test.snap")
        # what the run actually addressed (robust against shrinking): per (file, test), calls per execution
        calls, execs, stand = {}, {}, {}
        cfgs = []
        skipped = [unhx(kv["test"]) for n_, kv in ops if n_ == "skip"]
        prot = lambda i: any(i.rsplit(b" - ", 1)[0] == s_ or i.rsplit(b" - ", 1)[0].startswith(s_ + b"/") for s_ in skipped)
        for name, kv in ops:
            if name == "clean":
                break
            if name == "newconfig":
                cfgs.append(kv)
            if name == "match" and kv["api"] == "snap" and kv.get("pre", "").startswith("ok:"):
                h = int(kv["h"])
                cfg = cfgs[h - 1] if 0 < h <= len(cfgs) else {"fn": "~", "dir": "~", "ext": "~"}
                path = G.expected_multi_path(cfg, "snap", kv["test"]).encode("latin-1")
                calls[(path, kv["test"])] = calls.get((path, kv["test"]), 0) + 1
            if name == "match" and kv["api"] == "stand":
                stand[kv["test"]] = stand.get(kv["test"], 0) + 1
            if name == "endtest":
                execs[kv["test"]] = execs.get(kv["test"], 0) + 1
        cnt = next((int(kv["count"]) for name, kv in ops if name == "clean"), 1)
        if not calls and not stand:
            return self.skip("no directory was visited: nothing is claimed")
        if any(execs.get(t, 0) != cnt for (_, t) in list(calls)) or any(execs.get(t, 0) != cnt for t in stand) \
                or any(n_ % cnt for n_ in list(calls.values()) + list(stand.values())):
            return self.skip("not `count` uniform executions (shrunk case")
        addressed = {}
        for (path, t), n_ in calls.items():
            for k in range(1, n_ // cnt + 1):
                addressed.setdefault(path, set()).add(unhx(t) + b" - %d" % k)
        # the directories Clean visits: those of the addressed files (and the default directory, where standalone calls of the
        # default handle land)
        visited = {path.rsplit(b"/", 1)[0] for path in addressed} | ({b"/S/def"} if (stand or not addressed) else set())
        otests = [] if c["otests"] == "~" else [unhx(x) for x in c["otests"].split(",")]
        ofiles = [] if c["ofiles"] == "~" else [unhx(x) for x in c["ofiles"].split(",")]
        exp_tests, ent_b, ent_a = [], {}, {}
        for path, live in addressed.items():
            ent_b[path] = parse_entries(unhx(before.get(hx(path), "-")))
            ent_a[path] = parse_entries(unhx(after.get(hx(path), "-")))
            exp_tests += [i for i, _ in ent_b[path] if i not in live and i.startswith(b"Test") and not prot(i)]
        # every stale entry of an addressed file is reported, nothing else
        if sorted(otests) != sorted(exp_tests):
            fails.append({"msg": "obsolete tests reported %s, stale entries are %s" % (sorted(otests), sorted(exp_tests))})
        # unaddressed files with .snap in their name directly inside the visited directory
        exp_files = []
        for p in before:
            path = unhx(p)
            d, nme = path.rsplit(b"/", 1)
            if d in visited and b".snap" in nme and path not in addressed:
                st = any(nme == unhx(t).replace(b"/", b"_") + b"_%d.snap" % k for t, n_ in stand.items() for k in range(1, n_ // cnt + 1))
                if not st:
                    exp_files.append(path)
        if sorted(ofiles) != sorted(exp_files):
            fails.append({"msg": "obsolete files reported %s, expected %s" % (sorted(ofiles), sorted(exp_files))})
        # removal
        if deletes:
            for f in exp_files:
                if hx(f) in after:
                    fails.append({"msg": "clean mode: obsolete file %r not removed" % f})
        else:
            for p in before:
                if p not in after:
                    fails.append({"msg": "report-only mode removed file %r" % unhx(p)})
        for path, live in addressed.items():
            stale = [i for i, _ in ent_b[path] if i not in live and i.startswith(b"Test") and not prot(i)]
            if deletes:
                if sorted(ent_a[path]) != sorted((i, b) for i, b in ent_b[path] if i not in stale):
                    fails.append({"msg": "clean mode: entries of %r after: %s" % (path, [i for i, _ in ent_a[path]])})
            else:
                if sorted(ent_a[path]) != sorted(ent_b[path]):
                    fails.append({"msg": "report-only mode changed the entries of %r (sorting may only reorder): before %s after %s"
                                  % (path, [i for i, _ in ent_b[path]], [i for i, _ in ent_a[path]])})
                if not (sort_ and not ci_) and after.get(hx(path)) != before.get(hx(path)):
                    fails.append({"msg": "file rewritten although neither deletion nor sorting was allowed"})
        # untouched: files without .snap, sub-directories, unvisited directories
        for p in before:
            path = unhx(p)
            d, nme = path.rsplit(b"/", 1)
            if (d not in visited or b".snap" not in nme) and after.get(p) != before[p]:
                fails.append({"msg": "file outside Clean's remit touched: %r" % path})
        return fails + gone

    def nontrivial(self, case, ops, results):
        return any(r[0] == "clean" and (r[2]["otests"] != "~" or r[2]["ofiles"] != "~") for r in results)


PROP = C09()
