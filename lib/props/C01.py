"""C01 - recorded snapshots replay cleanly (no false failures)."""
from runner import Prop
from common import hx, unhx
import gen as G


class C01(Prop):
    pid = "C01"
    rule = ("two or three processes over one sandbox: a recording run of a generated test program (1-4 tests, "
            "0-12 Match* calls each over MatchSnapshot/MatchJSON/MatchYAML sharing files, interleaved, 1-2 executions), "
            "optionally an update-mode run with changed values, then a replay of the last values under a random mode; "
            "values from the line alphabet (terminator, escape token, blanks, header-looking lines, non-UTF-8, long lines); "
            "distinct = distinct op list; non-trivial = the replay process compared at least one stored entry")
    outside_model = ("value formatting (kr/pretty, tidwall/pretty, goccy/go-yaml) is computed by the real code and "
                     "handed to the model; CR at end of line is the documented limitation (correspondence only)")
    trusted = ["prettyDiff(a,b) is empty iff a = b (theorem C13_empty_iff about the difflib/report model; tied by the diff ops)"]

    def gen(self, rng, tier):
        n = 400 if tier == "quick" else 8000
        cases = []
        for i in range(n):
            r = rng.fork()
            kind = r.weighted([("create", 5), ("update", 3), ("collide", 1), ("cr", 1)])
            collide = kind == "collide"
            cr = kind == "cr"
            ops = []
            handles = [0]
            cfgops = []
            if r.chance(1, 3):
                cfgops.append(G.op_newconfig(dir=r.choice([b"d1", b"def"]), fn=r.choice([None, b"shared", b"zz_verif_trace_test"]),
                                             ext=r.choice([None, b".txt"]), upd=r.choice([None, None, None, True])))
                handles.append(1)
            prog = G.gen_program(r, collide=collide, cr=cr, handles=handles, names=G.MULTI_NAMES)
            if i % 97 == 0 and prog and prog[0][2]:
                # a very long line (bufio.MaxScanTokenSize is 64 KiB)
                prog[0][2][0] = {"op": "match", "api": "snap", "h": prog[0][1], "test": hx(prog[0][0]),
                                 "values": [hx(b"head\n" + b"L" * r.range(66000, 90000) + b"\ntail")]}
            execs = r.weighted([(1, 3), (2, 1)])
            env1 = (False, r.choice(["unset", "other", "clean"]))
            ops += cfgops + G.run_program(r, prog, execs)
            last = prog
            nproc = 1
            if kind in ("update", "collide") and r.chance(2, 3):
                last = G.mutate_program(r, prog, collide=collide)
                ops += [{"op": "newprocess"}] + cfgops + [G.op_setenv(False, "true")] + G.run_program(r, last, 1)
                nproc = 2
            renv = r.choice(G.ENVS)
            ops += [{"op": "dumpfs"}, {"op": "newprocess"}] + cfgops + [G.op_setenv(renv[0], renv[1])]
            # (the replay may execute every test several times, -count=3 and more: the ordinals start again each time)
            ops += G.run_program(r, last, r.weighted([(1, 3), (2, 1), (3, 1), (5, 1)])) + [{"op": "dumpfs"}]
            cases.append({"ci": env1[0], "updvar": env1[1], "colour": False, "ops": ops,
                          "meta": {"kind": kind, "nproc": nproc}})
        return cases

    def oracle(self, case, ops, results):
        if case["meta"].get("kind") == "cr":
            return self.skip("guard")
        obs = [r for r in results if r[0] == "obs"]
        fss = [r for r in results if r[0] == "fs"]
        op_with_obs = [o for o in ops if o[0] not in ("init", "dumpfs", "counters")]
        if len(op_with_obs) != len(obs) or len(fss) != 2:
            return self.skip("not a two-process case (e.g. a shrink candidate that lost its checkpoi")
        # split into processes
        procs, cur = [], []
        for (name, kv), (_, idx, o) in zip(op_with_obs, obs):
            if name == "newprocess":
                procs.append(cur)
                cur = []
            else:
                cur.append((name, kv, idx, o))
        procs.append(cur)
        if len(procs) < 2:
            return self.skip("guard")
        rec, rep = procs[-2], procs[-1]
        rec_match = [x for x in rec if x[0] == "match"]
        if per_test_calls(rec) != per_test_calls(rep) or not rec_match:
            return self.skip("the replay does not make the same calls in the same per-test order")
        if not all(x[3]["outcome"] in ("passed", "added", "updated") for x in rec_match):
            return self.skip("the last recording run did not record every value: nothing is claimed")
        fails = []
        file_of = {id(kv_): f_ for (n_, kv_), f_ in zip(ops, op_files(ops))}
        for name, kv, idx, o in rep:
            if name != "match":
                continue
            if o["outcome"] != "passed" or o["errors"] != "0" or o["logs"] != "-" or o["writes"] != "-":
                fails.append({"msg": "replay obs %d (%s %s): outcome=%s errors=%s logs=%s writes=%s" %
                              (idx, kv["api"], unhx(kv["test"]), o["outcome"], o["errors"], o["logs"], o["writes"]),
                              "file": file_of.get(id(kv)),
                              "updated_in_record": any(x[3]["outcome"] == "updated" for x in rec_match)})
        if fss[0][2] != fss[1][2]:
            fails.append({"msg": "snapshot directory changed during replay"})
        return fails

    def known_signature(self, finding, case, ops, results, failure):
        if finding["id"] == "K2":
            return header_collision(ops, failure)
        return False

    def nontrivial(self, case, ops, results):
        seen_np = 0
        for r_ in results:
            pass
        return sum(1 for r in results if r[0] == "obs" and r[2]["outcome"] == "passed") > 0

    def stats(self, case, ops, results, dist):
        dist["kind:" + case["meta"].get("kind", "?")] += 1
        for r in results:
            if r[0] == "obs" and r[2]["outcome"] != "nocall":
                dist["outcome:" + r[2]["outcome"]] += 1
        for name, kv in ops:
            if name == "match":
                dist["api:" + kv["api"]] += 1


def per_test_calls(proc):
    """test -> list of (api, handle, formatted value) of its FIRST execution in this process."""
    res, done = {}, set()
    for name, kv, idx, o in proc:
        if name == "endtest":
            done.add(kv["test"])
        elif name == "match" and kv["test"] not in done:
            res.setdefault(kv["test"], []).append((kv["api"], kv["h"], kv["pre"], kv.get("form", "")))
    return res


def op_files(ops):
    """for every op of the list: the multi-entry file a match op addresses (None for other ops / standalone calls)"""
    cfgs, out = [], []
    for n, kv in ops:
        if n == "newprocess":
            cfgs = []
        if n == "newconfig":
            cfgs.append(kv)
        f = None
        if n == "match" and kv.get("api") in ("snap", "json", "yaml"):
            h = int(kv.get("h", "0"))
            cfg = cfgs[h - 1] if 0 < h <= len(cfgs) else {"fn": "~", "dir": "~", "ext": "~"}
            f = G.expected_multi_path(cfg, kv["api"], kv["test"])
        out.append(f)
    return out


def collision_files(ops):
    """K2 signature, per FILE: the files in which some formatted value (or the initial content) holds a line equal to a header
    `[name - k]` of a test name that addresses that same file in the case."""
    import re
    files = op_files(ops)
    names_in = {}
    for (n, kv), f in zip(ops, files):
        if f is not None:
            names_in.setdefault(f, set()).add(unhx(kv["test"]))
    texts = []          # (file, text)
    for (n, kv), f in zip(ops, files):
        if f is not None and kv.get("pre", "").startswith("ok:"):
            texts.append((f, unhx(kv["pre"][3:])))
        if n == "putfile":
            texts.append((unhx(kv["path"]).decode("latin-1"), unhx(kv["content"])))
    hit = set()
    for f, t in texts:
        for line in t.split(b"\n"):
            m = re.match(rb"^\[(.*) - (\d+)\]$", line.rstrip(b"\r"), re.S)
            if m and m.group(1) in names_in.get(f, ()):
                hit.add(f)
    return hit


def header_collision(ops, failure=None):
    """K2 applies to a failure only if it concerns a file in which such a collision exists (failures that carry no file - a whole
    directory comparison - fall back to: some file of the case has one)."""
    hit = collision_files(ops)
    if failure is not None and failure.get("file") is not None:
        return failure["file"] in hit
    return bool(hit)


PROP = C01()
