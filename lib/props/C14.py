"""C14 - JSON snapshots are canonical and lossless."""
import json
from runner import Prop
from common import hx, unhx, DRIFT
import gen as G
import genjson as J

EDGE_JUNK = [b"\x0b", b"\x0c", b"\xc2\x85", b"\xc2\xa0", b"\xe2\x80\xa8", b"\xe3\x80\x80", b"\x00", b"\xef\xbb\xbf", b"\x1c"]


class C14(Prop):
    pid = "C14"
    fields = {"jsonsnap": ["valid", "text"], "obs": ["outcome", "errors", "logs", "writes", "~line"], "fs": "*"}
    rule = ("random JSON ASTs (depth <= 4, empty containers, keys/strings with escapes, unicode, `%`, `---`; numbers of all "
            "lexical shapes) each rendered in several presentations (random insignificant whitespace, shuffled member order) "
            "x input form {string, []byte, Go value} x options (width 0/20/80, indent '', ' ', tab, sort on/off); a malformed "
            "stream (byte mutations, truncations, non-JSON whitespace such as VT/FF/NBSP/U+2028/BOM at the edges); plus "
            "end-to-end MatchJSON/MatchStandaloneJSON calls with invalid input; distinct = distinct (doc, options); "
            "non-trivial = valid document with at least one container")
    outside_model = "json.Marshal of Go values (the harness hands the marshalled bytes to the model); tidwall/pretty and gjson are dependencies tied only by this differential run"
    trusted = []

    def gen(self, rng, tier):
        n = 300 if tier == "quick" else 5000
        cases = []
        for i in range(n):
            r = rng.fork()
            ops = []
            groups = []
            for _ in range(r.range(1, 3)):
                ast = J.gen_ast(r)
                cfg = r.choice([None, None, {"width": 0, "indent": " ", "sortKeys": True}, {"width": 80, "indent": "\t", "sortKeys": False},
                                {"width": 20, "indent": "", "sortKeys": True}, {"width": 0, "indent": "  ", "sortKeys": False}])
                sort = cfg is None or cfg["sortKeys"]
                g = []
                for _ in range(r.range(2, 4)):
                    doc = J.render(r, ast, ws=True, shuffle=sort).encode()
                    form = r.choice(["string", "bytes", "string", "bytes", "value", "rawmsg"])
                    if form == "value" and ast[0] == "str":
                        form = "string"   # a Go string IS the string form (it would be taken as JSON text)
                    # rawmsg: a Go value whose top-level type is a json.Marshaler (json.RawMessage): json.Marshal validates,
                    # compacts and HTML-escapes what the Marshaler returns
                    o = {"op": "jsonsnap", "doc": hx(doc), "form": form, "grp": "%d.%d" % (i, len(groups)),
                         "ast": J.render(None, ast, ws=False)}
                    if cfg is not None:
                        o["json"] = cfg
                    g.append(len(ops))
                    ops.append(o)
                groups.append({"idx": g, "ast": J.render(None, ast, ws=False)})
            # malformed stream
            for _ in range(r.range(1, 3)):
                good = J.render(r, J.gen_ast(r), ws=False).encode()
                k = r.below(6)
                if k == 0:
                    bad = good[: r.below(len(good))] if len(good) > 1 else b"{"
                elif k == 1:
                    j = r.below(len(good))
                    bad = good[:j] + bytes([good[j] ^ (1 << r.below(7))]) + good[j + 1:]
                elif k == 2:
                    junk = r.choice(EDGE_JUNK)
                    bad = junk + good if r.chance(1, 2) else good + junk
                elif k == 3:
                    bad = good + b" " + good
                elif k == 4:
                    bad = r.choice(G.BAD_JSON)
                else:
                    bad = good.replace(b":", b"=", 1) if b":" in good else good + b","
                ops.append({"op": "jsonsnap", "doc": hx(bad), "form": r.choice(["string", "bytes", "string", "bytes", "rawmsg"]), "maybe_bad": True})
                if r.chance(1, 3):
                    t = r.choice(G.TEST_NAMES)
                    ops += [{"op": "dumpfs"}, G.op_match_doc(r.choice(["json", "standjson"]), 0, t, bad, r.choice(["string", "bytes"])), {"op": "dumpfs"}]
            cases.append({"ci": False, "updvar": "unset", "colour": False, "ops": ops, "meta": {"groups": groups}})
        # DEEPLY nested documents (arrays, objects, mixed) around the depth limits of common validators (encoding/json refuses
        # more than 10000 levels; the library's validator and printer have no limit): valid JSON at every depth - accepted, and
        # stored alike in both text forms. Stored without indentation to keep the text small. Depths up to 300 are compared with
        # the model; beyond that the cases are ORACLE ONLY (the extracted model needs time cubic in the depth), and there is no
        # value form (this harness cannot build the Go value of a document deeper than encoding/json reads).
        for i in range(max(4, n // 40)):
            r = rng.fork()
            d = r.choice([50, 300, 1000, 9999, 10000, 10001, 12000])
            kind = r.below(3)
            if kind == 0:
                deep = b"[" * d + b"]" * d
            elif kind == 1:
                deep = b'{"k":' * d + b"1" + b"}" * d
            else:
                deep = b'[{"k":' * (d // 2) + b"null" + b"}]" * (d // 2)
            ops = []
            for form in ("string", "bytes"):
                doc = deep if form == "string" else deep.replace(b":", b" : ").replace(b"[", b"[ ")
                ops.append({"op": "jsonsnap", "doc": hx(doc), "form": form, "grp": "deep%d" % i, "ast": "deep %d" % d, "deep": True,
                            "json": {"width": 0, "indent": "", "sortKeys": True}})
            cases.append({"ci": False, "updvar": "unset", "colour": False, "ops": ops,
                          "meta": {"groups": [{"idx": [0, 1], "ast": "deep %d" % d}], "oracle_only": d > 300}})
        return cases

    @staticmethod
    def strict_valid(b):
        try:
            s = b.decode("utf-8", "surrogateescape")
        except Exception:
            return None
        try:
            json.loads(s, parse_constant=lambda c: (_ for _ in ()).throw(ValueError(c)))
        except (ValueError, RecursionError):
            return False
        # json.loads is lenient about leading/trailing non-JSON whitespace? it is not, but it allows
        # control characters nowhere and accepts only " \t\n\r" as whitespace: good enough as a judge
        return True

    def oracle(self, case, ops, results):
        fails = []
        res = [r for r in results if r[0] == "jsonsnap"]
        jops = [o for o in ops if o[0] == "jsonsnap"]
        if len(res) != len(jops):
            return self.skip("guard")
        texts = [(r[2].get("valid"), r[2].get("text")) for r in res]
        # groups: same AST (up to whitespace / member order under sorting) => same text, valid, lossless
        raw_ops = [o for o in case["ops"] if o["op"] == "jsonsnap"]
        if len(raw_ops) != len(texts):
            return self.skip("guard")
        by_grp = {}
        for raw, vt in zip(raw_ops, texts):
            if "grp" in raw:
                by_grp.setdefault(raw["grp"], []).append((raw, vt))
        for grp, items in by_grp.items():
            ast = items[0][0]["ast"]
            if any(v != "1" for _, (v, _) in items):
                fails.append({"msg": "valid document rejected: %s" % ast[:80]})
                continue
            # (a Go value is the document "through its standard JSON encoding": json.Marshal escapes < > &, reformats numbers,
            # sorts map keys - its text is compared with the model, which is handed json.Marshal(value), not with the text forms)
            same_form = [t for raw, (v, t) in items if raw.get("form") not in ("value", "rawmsg")]
            if len(set(same_form)) > 1:
                fails.append({"msg": "presentations of one document stored differently: %s" % ast[:80]})
            for raw, (v, t) in items:
                if raw.get("deep"):
                    continue         # (Python's own parser does not read that deep; the stored text is compared with the model's)
                try:
                    a = json.loads(unhx(t).decode("utf-8", "surrogateescape"))
                    b = json.loads(ast)
                    if raw.get("form") != "value" and a != b:
                        fails.append({"msg": "stored text is not the input value: %s" % ast[:80]})
                except ValueError:
                    fails.append({"msg": "stored text does not parse: %r" % unhx(t)[:60]})
        # a Go value against its json.Marshal text handed over as []byte (`std`, computed by the harness through the same library
        # path). Judged: both are accepted, and both stored texts hold the SAME JSON VALUE. That the two TEXTS are equal byte for
        # byte is tie-level only (the model's value form is json.Marshal): an encoder that leaves `<`, `>`, `&` readable
        # (harmless/Q14 = seeded/C14-P, the same edit read both ways by two independent agents) is "a standard JSON encoding" too.
        for raw, r_ in zip(raw_ops, res):
            if raw.get("form") in ("value", "rawmsg") and not raw.get("deep"):
                std = r_[2].get("std", "-")
                if std == "!" and r_[2].get("valid") == "1":
                    fails.append({"msg": "jsonsnap %s: a Go value is accepted but its standard JSON encoding, as []byte, is rejected" % r_[1]})
                elif std not in ("-", "!") and r_[2].get("valid") == "1" and std != r_[2].get("text"):
                    try:
                        same = json.loads(unhx(std).decode("utf-8", "surrogateescape")) == json.loads(unhx(r_[2].get("text")).decode("utf-8", "surrogateescape"))
                    except (ValueError, RecursionError):
                        same = True      # (unreadable for Python: left to the tie)
                    if not same:
                        fails.append({"msg": "jsonsnap %s: a Go value and its standard JSON encoding handed over as []byte store different JSON values: %r vs %r" % (
                            r_[1], unhx(r_[2].get("text"))[:80], unhx(std)[:80])})
                    else:
                        DRIFT["Go value stored in another spelling than its json.Marshal text"] += 1
        # malformed stream: judged by a strict parser
        for (name, kv), (_, idx, o), raw in zip(jops, res, raw_ops):
            if raw.get("maybe_bad"):
                sv = self.strict_valid(unhx(kv["doc"]))
                if sv is False and o.get("valid") == "1":
                    fails.append({"msg": "jsonsnap %d: invalid JSON accepted: %r" % (idx, unhx(kv["doc"])[:60])})
        # end-to-end: invalid input => one error, nothing written
        obs = [r for r in results if r[0] == "obs"]
        fss = [r for r in results if r[0] == "fs"]
        mops = [o for o in ops if o[0] == "match"]
        for k, ((name, kv), (_, idx, o)) in enumerate(zip(mops, obs)):
            if kv["pre"] == "invalid":
                changed = 2 * k + 1 < len(fss) and fss[2 * k][2] != fss[2 * k + 1][2]
                if not o["outcome"].startswith("failed") or o["errors"] != "1" or o["writes"] != "-" or changed:
                    fails.append({"msg": "obs %d: invalid JSON: outcome=%s errors=%s writes=%s" % (idx, o["outcome"], o["errors"], o["writes"])})
        return fails

    def nontrivial(self, case, ops, results):
        return any(r[0] == "jsonsnap" and r[2].get("valid") == "1" and len(r[2].get("text", "")) > 8 for r in results)

    def stats(self, case, ops, results, dist):
        for r in results:
            if r[0] == "jsonsnap":
                dist["valid=" + r[2].get("valid", "?")] += 1
        for o in case["ops"]:
            if o["op"] == "jsonsnap":
                dist["form:" + o.get("form", "string")] += 1


PROP = C14()
