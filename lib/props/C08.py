"""C08 - Clean keeps snapshots of tests that were skipped or filtered out."""
import os, re, shutil, subprocess, json
from runner import Prop
from common import hx, unhx, REPO, GOENV
import gen as G
from C09 import CleanBase, parse_entries, frame, env_at_clean

A_TEST = '''package bb

import (
	"os"
	"testing"

	"github.com/gkampitakis/go-snaps/snaps"
)

func TestMain(m *testing.M) {
	v := m.Run()
	snaps.Clean(m, snaps.CleanOpts{Sort: os.Getenv("BB_SORT") == "1"})
	os.Exit(v)
}

func TestAlpha(t *testing.T) {
	snaps.MatchSnapshot(t, "alpha 1")
	t.Run("Sub1", func(t *testing.T) { snaps.MatchSnapshot(t, "alpha sub1") })
	t.Run("Sub2", func(t *testing.T) { snaps.MatchSnapshot(t, "alpha sub2"); snaps.MatchSnapshot(t, "alpha sub2 b") })
}

func TestAlphabet(t *testing.T) { snaps.MatchSnapshot(t, "alphabet") }

func TestBeta(t *testing.T) {
	snaps.MatchSnapshot(t, "beta 1")
	snaps.MatchStandaloneSnapshot(t, "beta standalone")
	snaps.WithConfig(snaps.Filename("custom_name")).MatchSnapshot(t, "beta custom file")
}

func TestSkipper(t *testing.T) {
	if os.Getenv("BB_RECORD") == "1" {
		snaps.MatchSnapshot(t, "skipper value")
		t.Run("child", func(t *testing.T) { snaps.MatchSnapshot(t, "skipper child") })
		return
	}
	snaps.Skip(t, "skipped in this run")
}

func TestSkipperSibling(t *testing.T) { snaps.MatchSnapshot(t, "sibling sharing the prefix") }

func TestPartly(t *testing.T) {
	t.Run("runs", func(t *testing.T) { snaps.MatchSnapshot(t, "partly runs") })
	t.Run("skips", func(t *testing.T) {
		if os.Getenv("BB_RECORD") != "1" {
			snaps.SkipNow(t)
		}
		snaps.MatchSnapshot(t, "partly skips")
	})
}
'''
S_TEST = '''package bb

import (
	"os"
	"testing"

	"github.com/gkampitakis/go-snaps/snaps"
)

// the only test of this file: it skips itself (through the snaps wrapper) except when recording
func TestSoleSkipper(t *testing.T) {
	if os.Getenv("BB_RECORD") != "1" {
		snaps.Skipf(t, "not today")
	}
	snaps.MatchSnapshot(t, "sole skipper value")
	snaps.MatchStandaloneSnapshot(t, "sole skipper standalone")
}
'''
Z_TEST = '''package bb

import (
	"testing"

	"github.com/gkampitakis/go-snaps/snaps"
)

func TestZeta(t *testing.T) {
	snaps.MatchSnapshot(t, "zeta 1")
	t.Run("Sub2", func(t *testing.T) { snaps.MatchSnapshot(t, "zeta sub2") })
}
'''

Q_TEST = '''package bb

import (
	"testing"

	"github.com/gkampitakis/go-snaps/snaps"
)

// the function itself makes no snapshot: under -run 'Test.*/ping' it runs, its snapshot-making sub-test does not
func TestQuery(t *testing.T) {
	t.Run("ping", func(t *testing.T) {})
	t.Run("schema", func(t *testing.T) { snaps.MatchSnapshot(t, "query schema") })
}
'''

PATTERNS = ["", "Test.*/ping", "TestQuery/ping", "TestAlpha", "^TestAlpha$", "TestZeta", "Alpha|Zeta", "TestAlpha/Sub1", "TestAlpha/Sub2", "TestBeta", "Beta$",
            "TestZeta|Sub2", "TestZeta|1", "TestAlphabet|1", "TestAlphabet|Sub2", "^TestZ", "TestSkipper", "TestPartly", "TestPartly/runs", "Alphabet",
            "^TestAlpha$/^Sub1$", "/Sub2", "TestAlpha/|TestZeta", "Alpha/Sub1|Zeta/Sub2", "^TestAl/2$", "^TestZeta$|^TestBeta$", "^TestAlpha|^TestQ"]


class C08(CleanBase):
    pid = "C08"
    fields = {"obs": ["outcome", "errors", "logs", "writes", "~line"], "fs": "*", "clean": ["layout", "ofiles", "otests", "writes", "printed", "passed", "failed", "added", "updated", "skipped", "removed"], "readsum": ["ok", "agree", "~render"],
              "skiprun": "*", "fileskip": "*"}
    rule = ("white-box: Clean after histories in which some tests called snaps.Skip/Skipf/SkipNow (parents, children, siblings "
            "sharing a name prefix), all modes; black-box: a generated package (tests, subtests, prefix-related names, a skipping test, "
            "a partly skipped test, standalone and custom-named files, TestMain with Clean) recorded once and then run under REAL "
            "`go test -run <pattern>` for 27 patterns (plain names, substrings, alternations, multi-level A/b, anchors) x {report, clean} "
            "mode, Go's own -v output being the oracle for which tests ran; every entry/file of a test that did not run must survive "
            "and must not be listed; non-trivial = a pattern that filtered out at least one test")
    outside_model = ("regexp syntax beyond alternations of (per level) anchored literals - there the real runner alone is the oracle; "
                     "-skip flag")
    trusted = []

    def gen(self, rng, tier):
        n = 200 if tier == "quick" else 3000
        cases = []
        for i in range(n):
            r = rng.fork()
            setup, run, info = self.gen_tree(r)
            # some tests call snaps.Skip instead of running (their entries exist from before)
            tests = info["tests"]
            skipped = [t for t in tests if r.chance(1, 3)]
            if not skipped and len(tests) > 1 and r.chance(4, 5):
                skipped = [r.choice(tests)]          # most cases have a skipped test ...
            if len(skipped) == len(tests) and len(tests) > 1:
                skipped = skipped[1:]                 # ... and a test that runs
            extra_entries = []
            ops = list(setup)
            for t in skipped:
                # entries of a skipped test and of its child / of a sibling sharing the prefix
                extra_entries += [(t + b"/child - 1", b"child of skipped"), (t + b"x - 1", b"sibling sharing the prefix")]
                if b"." in t.split(b"/")[-1] and t.split(b"/")[-1].replace(b".", b"") not in (b"", b"/"):
                    # a name that only LOOKS like the skipped one when the latter is read as a regular expression (`.` = any byte)
                    look = b"/".join(t.split(b"/")[:-1] + [t.split(b"/")[-1].replace(b".", b"x", 1)])
                    if look != t and look not in tests:
                        extra_entries.append((look + b" - 1", b"lookalike sibling"))
            if extra_entries:
                ops[0] = G.op_putfile(b"def/zz_verif_trace_test.snap", unhx(ops[0]["content"]) + b"".join(frame(i, b) for i, b in extra_entries))
            run2 = []
            # a skipped test may have made its first call(s) before it called snaps.Skip: it is registered AND skipped, and its
            # later occurrences (the calls it never reached) are protected like those of a test that made no call at all
            partial = {t: r.range(1, 2) for t in skipped if r.chance(1, 3)}
            made = {}
            for o in run:
                if o["op"] == "match" and unhx(o["test"]) in skipped:
                    t_ = unhx(o["test"])
                    if made.get(t_, 0) < partial.get(t_, 0):
                        made[t_] = made.get(t_, 0) + 1
                        run2.append(o)
                    continue
                if o["op"] == "endtest" and unhx(o["test"]) in skipped:
                    run2.append({"op": "skip", "test": o["test"], "form": r.choice(["", "f", "now"])})
                    if unhx(o["test"]) in partial:
                        run2.append(o)        # the execution ends (cleanups run) after the skip
                    made[unhx(o["test"])] = 0
                    continue
                run2.append(o)
            ci, upd = r.choice(G.ENVS)
            sort = r.chance(1, 3)
            ops += run2 + [G.op_setenv(ci, upd), {"op": "dumpfs"}, {"op": "clean", "sort": sort, "count": info["count"]}, {"op": "dumpfs"}]
            cases.append({"ci": False, "updvar": "unset", "colour": False, "ops": ops,
                          "meta": {"mode": "ci=%s upd=%s sort=%s" % (ci, upd, sort), "skipped": [hx(t) for t in skipped]}})
        # ---- the library's own -run decisions, compared with Model/RunFilter.v (tie of the theorems C08_run_*): testSkipped on
        # ids, isFileSkipped on a sibling test file, for patterns of the model's class (alternations of '/'-separated literals,
        # anchored at the ends of an alternative)
        frags = [b"Test", b"TestA", b"TestAB", b"A", b"AB", b"B", b"sub", b"sub#01", b"deep", b"1", b"10", b"2", b" - 1", b"- ", b"Zeta", b"x", b""]
        funcs_pool = [b"TestA", b"TestAB", b"TestB", b"TestZeta", b"TestMain", b"Helper", b"BenchmarkX", b"Test1"]
        def pattern(r):
            alts = []
            for _ in range(r.weighted([(1, 3), (2, 3), (3, 1)])):
                lv = b"/".join(r.choice(frags) for _ in range(r.weighted([(1, 4), (2, 2), (3, 1)])))
                alts.append((b"^" if r.chance(1, 3) else b"") + lv + (b"$" if r.chance(1, 3) else b""))
            return b"|".join(alts)
        for i in range(max(20, n // 4)):
            r = rng.fork()
            ops = []
            for _ in range(r.range(2, 6)):
                pat = pattern(r)
                if r.chance(2, 3):
                    names = r.shuffle(G.TEST_NAMES)[: r.range(1, 5)]
                    ids = [t + b" - " + str(r.choice([1, 1, 2, 10, 21])).encode() for t in names]
                    sk = [t for t in r.shuffle(G.TEST_NAMES)[:3] if r.chance(1, 3)]
                    ops.append({"op": "skiprun", "doc": hx(pat), "values": [hx(x) for x in ids], "content": hx(b"\n".join(sk))})
                else:
                    fs_ = r.shuffle(funcs_pool)[: r.range(0, 4)]
                    o = {"op": "fileskip", "doc": hx(pat if r.chance(5, 6) else b""), "path": hx(r.choice([b"x_test", b"api.v2_test", b"zz"])), "values": [hx(x) for x in fs_]}
                    if r.chance(1, 5):
                        o["novalues"] = True       # no sibling test file: a standalone / custom-named snapshot file
                        o["values"] = []
                    ops.append(o)
            cases.append({"ci": False, "updvar": "unset", "colour": False, "ops": ops, "meta": {"mode": "runfilter", "skipped": []}})
        return cases

    def oracle(self, case, ops, results):
        if case.get("meta", {}).get("mode") == "runfilter":
            return []          # compared with the model only; the property itself is judged against the real runner (black box)
        fss = [r for r in results if r[0] == "fs"]
        cl = [r for r in results if r[0] == "clean"]
        if len(fss) < 2 or not cl:
            return self.skip("guard")
        before, after = fss[0][2], fss[1][2]
        c = cl[0][2]
        skipped = [unhx(kv["test"]) for n, kv in ops if n == "skip"]
        if not skipped:
            return self.skip("no test called a skip wrapper in this case")
        main = hx(b"/S/def/zz_verif_trace_test.snap")
        if not any(n == "match" and kv["api"] == "snap" and kv["h"] == "0" for n, kv in ops):
            return self.skip("guard")
        eb, ea = parse_entries(unhx(before.get(main, "-"))), dict(parse_entries(unhx(after.get(main, "-"))))
        otests = set() if c["otests"] == "~" else set(unhx(x) for x in c["otests"].split(","))
        fails = []
        for i, b in eb:
            name = i.rsplit(b" - ", 1)[0]
            prot = any(name == s or name.startswith(s + b"/") for s in skipped)
            if prot:
                if ea.get(i) != b:
                    fails.append({"msg": "entry [%s] of a skipped test (or descendant) was removed or altered" % i.decode("latin-1")})
                if i in otests:
                    fails.append({"msg": "entry [%s] of a skipped test (or descendant) listed as obsolete" % i.decode("latin-1")})
        # a skip protects exactly that test and its descendants: the prefix sibling `<name>x - 1` is stale and must be reported
        for s in skipped:
            last = s.split(b"/")[-1]
            look = b"/".join(s.split(b"/")[:-1] + [last.replace(b".", b"x", 1)]) + b" - 1"
            lname = look[:-4]
            if b"." in last and look in dict(eb) and look not in otests and lname not in skipped and not any(lname.startswith(t + b"/") for t in skipped) \
                    and not any(n == "match" and unhx(kv["test"]) == lname for n, kv in ops):
                fails.append({"msg": "entry [%s] is not the skipped test nor a descendant (its name only matches it as a regular expression) but was protected" % look.decode("latin-1")})
            sib = s + b"x - 1"
            if sib in dict(eb) and sib not in otests and not any((s + b"x") == t or (s + b"x").startswith(t + b"/") for t in skipped):
                live = any(n == "match" and unhx(kv["test"]) == s + b"x" for n, kv in ops)
                if not live:
                    fails.append({"msg": "entry [%s] merely shares a name prefix with a skipped test but was protected" % sib.decode("latin-1")})
        return fails

    def nontrivial(self, case, ops, results):
        if case.get("meta", {}).get("mode") == "runfilter":
            # a pattern that protects some of the ids / functions and not others
            bits = set()
            for r_ in results:
                if r_[0] == "skiprun":
                    bits |= {x.rsplit(":", 1)[-1] for x in r_[2].get("res", "~").split(",") if ":" in x}
                elif r_[0] == "fileskip":
                    bits.add(r_[2].get("res"))
            return {"0", "1"} <= bits
        return any(n == "skip" for n, kv in ops)

    def stats(self, case, ops, results, dist):
        super().stats(case, ops, results, dist) if hasattr(super(), "stats") else None
        for r_ in results:
            if r_[0] == "skiprun":
                for x in r_[2].get("res", "~").split(","):
                    if ":" in x:
                        dist["runfilter:testSkipped=" + x.rsplit(":", 1)[-1]] += 1
            elif r_[0] == "fileskip":
                dist["runfilter:isFileSkipped=" + str(r_[2].get("res"))] += 1

    # ------------------------------------------------------------------ black box with the real runner
    def extra_run(self, tier, seed, workdir):
        mod = os.path.join(workdir, "bbrun")
        os.makedirs(mod, exist_ok=True)
        w = lambda p, s: open(os.path.join(mod, p), "w").write(s)
        w("go.mod", "module bb\n\ngo 1.22\n\nrequire github.com/gkampitakis/go-snaps v0.0.0\n\nreplace github.com/gkampitakis/go-snaps => %s\n" % REPO)
        shutil.copy(os.path.join(REPO, "go.sum"), os.path.join(mod, "go.sum"))
        w("a_test.go", A_TEST)
        w("z_test.go", Z_TEST)
        w("q_test.go", Q_TEST)
        w("s_test.go", S_TEST)
        w("api.snapshot_test.go", 'package bb\n\nimport (\n\t"testing"\n\n\t"github.com/gkampitakis/go-snaps/snaps"\n)\n\n'
          'func TestSnapNamed(t *testing.T) { snaps.MatchSnapshot(t, "test file whose name contains .snap") }\n')
        env = dict(GOENV, NO_COLOR="1")
        env.pop("CI", None)
        binp = os.path.join(workdir, "bbrun.test")
        p = subprocess.run(["go", "test", "-c", "-vet=off", "-o", binp, "."], cwd=mod, env=env, stdout=subprocess.PIPE, stderr=subprocess.STDOUT, text=True, timeout=900)
        if p.returncode != 0:
            return [{"msg": "black-box build failed: " + p.stdout[-800:]}], {}
        snapdir = os.path.join(mod, "__snapshots__")
        base = os.path.join(workdir, "bb_baseline")
        subprocess.run([binp, "-test.count=1"], cwd=mod, env=dict(env, BB_RECORD="1"), stdout=subprocess.PIPE, stderr=subprocess.STDOUT, text=True, timeout=900)
        shutil.rmtree(base, ignore_errors=True)
        shutil.copytree(snapdir, base)

        def image(d):
            files, entries = {}, {}
            for f in sorted(os.listdir(d)):
                if not os.path.isfile(os.path.join(d, f)):
                    continue          # (a sub-directory is no snapshot file)
                b = open(os.path.join(d, f), "rb").read()
                files[f] = b
                if f.endswith("_test.snap") or f == "custom_name.snap":
                    for i, body in parse_entries(b):
                        entries[(f, i)] = body
            return files, entries

        base_files, base_entries = image(base)
        fails, known, runs = [], [], 0
        ran_by_pat = {}
        pats = PATTERNS if tier == "thorough" else PATTERNS
        for pat in pats:
            for mode in ("report", "clean"):
                shutil.rmtree(snapdir, ignore_errors=True)
                shutil.copytree(base, snapdir)
                e2 = dict(env)
                if mode == "clean":
                    e2["UPDATE_SNAPS"] = "clean"
                args = [binp, "-test.count=1", "-test.v"] + (["-test.run", pat] if pat else [])
                p = subprocess.run(args, cwd=mod, env=e2, stdout=subprocess.PIPE, stderr=subprocess.STDOUT, text=True, timeout=900)
                runs += 1
                ran = set(re.findall(r"^=== RUN\s+(\S+)", p.stdout, re.M))
                ran_by_pat.setdefault(pat, set()).update(ran)
                skipped = set(re.findall(r"^\s*--- SKIP: (\S+)", p.stdout, re.M))
                executed = ran - skipped
                files, entries = image(snapdir)
                listed = set(m.strip() for m in re.findall(r"^  ↳\s+•\s(.*)$", p.stdout, re.M))
                owners = {"TestBeta_1.snap": ["TestBeta"], "custom_name.snap": ["TestBeta"], "TestSoleSkipper_1.snap": ["TestSoleSkipper"],
                          "s_test.snap": ["TestSoleSkipper"], "z_test.snap": ["TestZeta", "TestZeta/Sub2"],
                          "api.snapshot_test.snap": ["TestSnapNamed"], "q_test.snap": ["TestQuery/schema"]}
                gone = set()
                for f, b in base_files.items():
                    lostf = f not in files
                    namedf = any(l.endswith("/" + f) for l in listed)
                    if not (lostf or namedf):
                        continue
                    own = owners.get(f, [])
                    if (f == "a_test.snap" and any(t_.split("/")[0] in ("TestAlpha", "TestAlphabet", "TestBeta", "TestSkipper", "TestSkipperSibling", "TestPartly") for t_ in executed)) \
                            or (own and any(o in executed for o in own)):
                        continue       # a test of that file ran: not C08's subject
                    gone.add(f)
                    what = "file %s (none of its tests ran under -run %r, %s mode): %s" % (f, pat, mode, "removed" if lostf else "listed as obsolete")
                    sk = own and all(o in skipped for o in own)
                    if sk:
                        sig = "F5"        # every test owning the file called snaps.Skip*: file-level protection does not look at the skip list
                    elif pat and not f.endswith("_test.snap"):
                        sig = "K6"        # -run + standalone / custom-named file: the sibling `<file>.go` lookup cannot succeed
                    elif pat and f == "TestSoleSkipper_1.snap":
                        sig = "K6"
                    else:
                        sig = None
                    (known if sig else fails).append({"msg": what, "sig": sig})
                for (f, i), body in base_entries.items():
                    if f in gone or f not in files:
                        continue
                    name = i.rsplit(b" - ", 1)[0].decode()
                    if name in executed:
                        continue          # this test ran: C07/C09 speak about it
                    lost = entries.get((f, i)) != body
                    named = i.decode() in listed
                    if lost or named:
                        what = "entry [%s] of %s (test did not run under -run %r, %s mode): %s" % (
                            i.decode(), f, pat, mode, "removed" if lost else "listed as obsolete")
                        sig = self.classify(pat, i.decode(), f, name, ran, skipped)
                        (known if sig else fails).append({"msg": what, "sig": sig})
        shutil.rmtree(snapdir, ignore_errors=True)
        # ---- tie of Model/GoRun.v: the model of Go's own -run selection against what the real runner ran (patterns of the
        # model's class: alternations of '/'-separated, optionally anchored literals)
        sel_checked = 0
        try:
            import common
            universe = sorted(ran_by_pat.get("", set()))
            inclass = [p_ for p_ in pats if p_ and re.fullmatch(r"[A-Za-z0-9_^$|/]*", p_)]
            lines = ["op gosel pat=%s names=%s" % (hx(p_.encode()), ",".join(hx(n.encode()) for n in universe)) for p_ in inclass]
            out = common.run_model(common.build_driver(), {0: lines}, shards=1)[0]
            rows = [l for l in out if l.startswith("gosel ")]
            for p_, row in zip(inclass, rows):
                sel = dict(x.split(":") for x in row.split("sel=", 1)[1].split(",") if ":" in x)
                for n in universe:
                    sel_checked += 1
                    m_ = sel.get(hx(n.encode())) == "1"
                    g_ = n in ran_by_pat.get(p_, set())
                    if m_ != g_:
                        fails.append({"msg": "go_selects (Model/GoRun.v) says %s for test %s under -run %r, the real runner %s it" % (
                            "selected" if m_ else "not selected", n, p_, "ran" if g_ else "did not run"), "tie": True})
        except Exception as ex:      # the tie itself could not be evaluated
            fails.append({"msg": "go_selects tie could not be evaluated: %r" % (ex,), "tie": True})
        self._bb_known = known
        hits = sorted(set(k["sig"] for k in known))
        return fails, {"blackbox_runs": runs, "blackbox_patterns": len(pats), "go_selects_model_vs_runner_comparisons": sel_checked, "blackbox_known_finding_hits": len(known),
                       "blackbox_known_kinds": hits, "_known_hits": [{"K3K4": "K3/K4"}.get(h, h) for h in hits]}

    @staticmethod
    def classify(pat, entry_id, f, name, ran, skipped):
        """narrow signatures of the known -run findings"""
        if pat:
            try:
                whole = re.search(pat, entry_id) is not None
            except re.error:
                whole = False
            if whole and name not in ran:
                return "K3K4"      # the whole-id regexp matches an id of a test Go did not select (ordinal suffix / per-level selection)
        if name in skipped or any(name.startswith(s + "/") for s in skipped):
            if f == "a_test.snap" and pat and not re.search(pat, entry_id):
                return None
        return None


PROP = C08()
