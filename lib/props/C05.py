"""C05 - write permissions follow the mode table; CI runs are read-only."""
from runner import Prop
from common import hx, unhx
import gen as G


class C05(Prop):
    pid = "C05"
    shrinkable = False      # a case IS one cell of the table (recording run + judged call); nothing to shrink
    rule = ("EXHAUSTIVE enumeration of CI in {on,off} x Update option in {unset,true,false} x UPDATE_SNAPS in "
            "{unset,true,clean, 11 other strings incl. 1/t/TRUE/True/false/yes} x five entry points x entry state in {missing, equal, different} = 360 cells (x the other-string variants), "
            "each executed through the public API (plus random repeats with different values/names); the oracle is the "
            "table in the property text; non-trivial = every cell")
    outside_model = "capture of CI / UPDATE_SNAPS at start-up (package variables are set directly); Clean's part of the table is checked by C09"
    trusted = []

    def gen(self, rng, tier):
        cases = []
        reps = 1 if tier == "quick" else 6
        for rep in range(reps):
            for ci in (False, True):
                for opt in (None, True, False):
                    for upd in ("unset", "true", "clean", "other") + tuple(G.OTHER_UPD[1:] if rep or tier == "quick" else ()):
                        for api in ("snap", "json", "yaml", "stand", "standjson"):
                            for state in ("missing", "equal", "different"):
                                r = rng.fork()
                                test = r.choice(G.TEST_NAMES)
                                if api in ("snap", "stand"):
                                    v0, v1 = G.gen_text(r), G.gen_text(r)
                                    if v0 == v1:
                                        v1 += b"!"
                                    mk = (lambda v: G.op_match_snap(1, test, [v])) if api == "snap" else (lambda v: G.op_match_doc("stand", 1, test, v))
                                elif api == "yaml":
                                    v0, v1 = r.shuffle(G.YAML_DOCS)[:2]
                                    mk = lambda v: G.op_match_doc("yaml", 1, test, v)
                                else:
                                    v0, v1 = r.shuffle(G.JSON_DOCS)[:2]
                                    mk = lambda v, api=api: G.op_match_doc(api, 1, test, v)
                                cfg = G.op_newconfig(dir=b"d", upd=opt)
                                ops = []
                                if state != "missing":
                                    # recorded by an earlier, permissive process
                                    ops += [G.op_newconfig(dir=b"d"), mk(v0), G.op_end(test), {"op": "newprocess"}]
                                ops += [G.op_setenv(ci, upd), cfg, {"op": "dumpfs"}, mk(v0 if state == "equal" else v1), {"op": "dumpfs"}]
                                cases.append({"ci": False, "updvar": "unset", "colour": False, "ops": ops,
                                              "meta": {"cell": [ci, opt, upd, api, state]}})
        return cases

    def extra_coverage(self):
        return {"exhaustive": True, "cells": 360}

    @staticmethod
    def expected(ci, opt, upd, state):
        may_create = (not ci) and (opt if opt is not None else True)
        may_update = (not ci) and (opt if opt is not None else upd in ("true", "raw:true"))
        if state == "missing":
            return ("added", True) if may_create else ("failed:notfound", False)
        if state == "equal":
            return ("passed", False)
        return ("updated", True) if may_update else ("failed:diff", False)

    def oracle(self, case, ops, results):
        cell = case["meta"].get("cell")
        if not cell:
            return []
        ci, opt, upd, api, state = cell
        obs = [r for r in results if r[0] == "obs"]
        fss = [r for r in results if r[0] == "fs"]
        op_with_obs = [o for o in ops if o[0] not in ("init", "dumpfs", "counters")]
        if len(op_with_obs) != len(obs) or len(fss) != 2 or not obs:
            return []
        (name, kv), (_, idx, o) = list(zip(op_with_obs, obs))[-1]
        if name != "match" or o["outcome"] == "nocall":
            return []      # (a shrunk case whose Config handle is gone makes no call)
        names = [n_ for n_, _ in ops if n_ != "init"]
        if names[-3:] != ["dumpfs", "match", "dumpfs"]:
            return []      # (a shrunk case that lost its shape: the file system is inspected right before and after the judged call)
        if state != "missing" and not fss[0][2]:
            return []      # (a shrunk case that lost the recording run: the cell's state no longer holds)
        exp_out, exp_write = self.expected(ci, opt, upd, state)
        wrote = o["writes"] != "-" or fss[0][2] != fss[1][2]
        if o["outcome"] != exp_out or wrote != exp_write:
            return [{"msg": "cell CI=%s Update=%s UPDATE_SNAPS=%s api=%s state=%s: outcome=%s wrote=%s, table says %s wrote=%s"
                     % (ci, opt, upd, api, state, o["outcome"], wrote, exp_out, exp_write)}]
        return []

    def stats(self, case, ops, results, dist):
        c = case["meta"].get("cell")
        if c:
            dist["ci=%s" % c[0]] += 1
            dist["state=%s" % c[4]] += 1
        for r in results:
            if r[0] == "obs" and r[2]["outcome"] != "nocall":
                dist["outcome:" + r[2]["outcome"]] += 1


PROP = C05()
