"""C05 - write permissions follow the mode table; CI runs are read-only."""
import os, shutil, subprocess
from runner import Prop
from common import hx, unhx, REPO, GOENV
import gen as G

BB_TEST = '''package bb

import (
	"os"
	"testing"

	"github.com/gkampitakis/go-snaps/snaps"
)

func TestMain(m *testing.M) {
	v := m.Run()
	if os.Getenv("BB_SORT") == "1" {
		snaps.Clean(m, snaps.CleanOpts{Sort: true})
	} else {
		snaps.Clean(m)
	}
	os.Exit(v)
}

func TestVal(t *testing.T)   { snaps.MatchSnapshot(t, os.Getenv("BB_VALUE")) }
func TestStand(t *testing.T) { snaps.MatchStandaloneSnapshot(t, os.Getenv("BB_VALUE")) }
func TestGone(t *testing.T) {
	if os.Getenv("BB_GONE") == "1" {
		snaps.MatchSnapshot(t, "gone")
	}
}
'''


class C05(Prop):
    pid = "C05"
    wants_dirs = True
    shrinkable = False      # a case IS one cell of the table (recording run + judged call); nothing to shrink
    rule = ("EXHAUSTIVE enumeration of CI in {on,off} x Update option in {unset,true,false} x UPDATE_SNAPS in "
            "{unset,true,clean, 11 other strings incl. 1/t/TRUE/True/false/yes} x five entry points x entry state in {missing, equal, different} = 360 cells (x the other-string variants), "
            "each executed through the public API (plus random repeats with different values/names); the oracle is the "
            "table in the property text; non-trivial = every cell")
    outside_model = "capture of CI / UPDATE_SNAPS at start-up (package variables are set directly); Clean's part of the table is checked by C09"
    trusted = []

    def gen(self, rng, tier):
        cases = []
        reps = 1 if tier == "quick" else 6
        for rep in range(reps):
            for ci in (False, True):
                for opt in (None, True, False):
                    for upd in ("unset", "true", "clean", "other") + tuple(G.OTHER_UPD[1:] if rep or tier == "quick" else ()):
                        for api in ("snap", "json", "yaml", "stand", "standjson"):
                            for state in ("missing", "equal", "different"):
                                r = rng.fork()
                                test = r.choice(G.TEST_NAMES)
                                if api in ("snap", "stand"):
                                    v0, v1 = G.gen_text(r), G.gen_text(r)
                                    if v0 == v1:
                                        v1 += b"!"
                                    mk = (lambda v: G.op_match_snap(1, test, [v])) if api == "snap" else (lambda v: G.op_match_doc("stand", 1, test, v))
                                elif api == "yaml":
                                    v0, v1 = r.shuffle(G.YAML_DOCS)[:2]
                                    mk = lambda v: G.op_match_doc("yaml", 1, test, v)
                                else:
                                    v0, v1 = r.shuffle(G.JSON_DOCS)[:2]
                                    mk = lambda v, api=api: G.op_match_doc(api, 1, test, v)
                                cfg = G.op_newconfig(dir=b"d", upd=opt)
                                ops = []
                                if state != "missing":
                                    # recorded by an earlier, permissive process
                                    ops += [G.op_newconfig(dir=b"d"), mk(v0), G.op_end(test), {"op": "newprocess"}]
                                ops += [G.op_setenv(ci, upd), cfg, {"op": "dumpfs"}, mk(v0 if state == "equal" else v1), {"op": "dumpfs"}]
                                cases.append({"ci": False, "updvar": "unset", "colour": False, "ops": ops,
                                              "meta": {"cell": [ci, opt, upd, api, state]}})
        # "on CI no call and NO CLEAN ever creates, modifies or deletes anything" / "Clean deletes obsolete items only when ...":
        # an existing EMPTY snapshot directory addressed by a call that may create nothing, then Clean - files and directories
        # must be exactly what they were
        for ci in (True, False):
            for upd in ("unset", "true", "clean", "other"):
                for api in ("snap", "stand", "json"):
                    if not ci and upd in ("true", "clean"):
                        continue          # deletion of obsolete FILES is allowed there (C09 judges what exactly)
                    opt = None if ci else False
                    mk = {"snap": G.op_match_snap(1, b"TestEmpty", [b"v"]), "stand": G.op_match_doc("stand", 1, b"TestEmpty", b"v"),
                          "json": G.op_match_doc("json", 1, b"TestEmpty", b'{"a":1}')}[api]
                    ops = [{"op": "putdir", "path": hx(b"emptydir/__snapshots__")}, G.op_putfile(b"emptydir/other/old_test.snap", b"\n[TestOld - 1]\nx\n---\n"),
                           G.op_setenv(ci, upd), G.op_newconfig(dir=b"emptydir/__snapshots__", upd=opt), mk, G.op_end(b"TestEmpty"),
                           {"op": "dumpfs"}, {"op": "clean", "sort": True, "count": 1, "colour": False}, {"op": "dumpfs"}]
                    cases.append({"ci": False, "updvar": "unset", "colour": False, "ops": ops, "meta": {"cell": None, "readonly_clean": [ci, upd, api]}})
        # ... and "Clean deletes obsolete items ONLY when UPDATE_SNAPS is `true` or `clean`": an addressed file whose live entries
        # are out of order and that holds an obsolete entry, Clean WITH sorting in every mode that may not delete - sorting may
        # reorder the entries, none may disappear
        from C09 import frame
        for ci in (True, False):
            for upd in ("unset", "other", "true", "clean"):
                if not ci and upd in ("true", "clean"):
                    continue
                used = frame(b"TestB - 1", b"b") + frame(b"TestGone - 1", b"stale") + frame(b"TestA - 1", b"a")
                ops = [G.op_putfile(b"sd/used.snap", used), G.op_setenv(ci, upd), G.op_newconfig(dir=b"sd", fn=b"used"),
                       G.op_match_snap(1, b"TestA", [b"a"]), G.op_end(b"TestA"), G.op_match_snap(1, b"TestB", [b"b"]), G.op_end(b"TestB"),
                       {"op": "dumpfs"}, {"op": "clean", "sort": True, "count": 1, "colour": False}, {"op": "dumpfs"}]
                cases.append({"ci": False, "updvar": "unset", "colour": False, "ops": ops, "meta": {"cell": None, "readonly_sort": [ci, upd]}})
        return cases

    def extra_coverage(self):
        return {"exhaustive": True, "cells": 360}

    @staticmethod
    def expected(ci, opt, upd, state):
        may_create = (not ci) and (opt if opt is not None else True)
        may_update = (not ci) and (opt if opt is not None else upd in ("true", "raw:true"))
        if state == "missing":
            return ("added", True) if may_create else ("failed:notfound", False)
        if state == "equal":
            return ("passed", False)
        return ("updated", True) if may_update else ("failed:diff", False)

    def extra_run(self, tier, seed, workdir):
        """Black box: the mode is decoded from the REAL process environment when the package is initialised (ciinfo, os.Getenv,
        the shouldClean expression) - which the white-box harness, setting the package variables itself, cannot see. A tiny module
        with TestMain + snaps.Clean is run as a real `go test` binary under every (CI, UPDATE_SNAPS) cell from three starting
        points: nothing recorded, the recorded values, other recorded values + a stale entry."""
        mod = os.path.join(workdir, "bbmode")
        os.makedirs(mod, exist_ok=True)
        open(os.path.join(mod, "go.mod"), "w").write("module bb\n\ngo 1.22\n\nrequire github.com/gkampitakis/go-snaps v0.0.0\n\nreplace github.com/gkampitakis/go-snaps => %s\n" % REPO)
        shutil.copy(os.path.join(REPO, "go.sum"), os.path.join(mod, "go.sum"))
        open(os.path.join(mod, "m_test.go"), "w").write(BB_TEST)
        env = dict(GOENV, NO_COLOR="1")
        for k in list(env):
            if k in ("CI", "UPDATE_SNAPS", "CONTINUOUS_INTEGRATION", "BUILD_NUMBER", "RUN_ID") or k.startswith(("GITHUB_", "GITLAB_", "JENKINS_", "BUILDKITE", "TRAVIS", "CIRCLE")):
                env.pop(k)
        binp = os.path.join(workdir, "bbmode.test")
        p = subprocess.run(["go", "test", "-c", "-vet=off", "-o", binp, "."], cwd=mod, env=env, stdout=subprocess.PIPE, stderr=subprocess.STDOUT, text=True, errors="replace", timeout=900)
        if p.returncode != 0:
            return [{"msg": "black-box build failed: " + p.stdout[-800:]}], {}
        snapdir = os.path.join(mod, "__snapshots__")

        def run(e):
            q = subprocess.run([binp, "-test.count=1"], cwd=mod, env=dict(env, **e), stdout=subprocess.PIPE, stderr=subprocess.STDOUT, text=True, errors="replace", timeout=900)
            img = {}
            if os.path.isdir(snapdir):
                for f in sorted(os.listdir(snapdir)):
                    if os.path.isfile(os.path.join(snapdir, f)):        # (a sub-directory is no snapshot file)
                        img[f] = open(os.path.join(snapdir, f), "rb").read()
            return q.returncode, q.stdout, img

        shutil.rmtree(snapdir, ignore_errors=True)
        rc, out, base = run({"BB_VALUE": "v0", "BB_GONE": "1"})
        fails, cells = [], 0
        if rc != 0 or {f_ for f_ in base if ".snap" in f_} != {"m_test.snap", "TestStand_1.snap"} or b"[TestGone - 1]" not in base.get("m_test.snap", b""):
            return [{"msg": "black box: the recording run did not create the expected files: rc=%s files=%s" % (rc, sorted(base))}], {}
        upds = [None, "true", "clean", "false", "1", "TRUE", "", "yes"]
        for ci in (False, True):
            for upd in upds:
                e = {}
                if ci:
                    e["CI"] = "true"
                if upd is not None:
                    e["UPDATE_SNAPS"] = upd
                may_update = (not ci) and upd == "true"
                may_create = not ci
                deletes = (not ci) and upd in ("true", "clean")
                where = "CI=%s UPDATE_SNAPS=%r" % (ci, upd)
                # (1) nothing recorded
                shutil.rmtree(snapdir, ignore_errors=True)
                rc, out, img = run(dict(e, BB_VALUE="v0", BB_GONE="0"))
                cells += 1
                if may_create != (("m_test.snap" in img) and ("TestStand_1.snap" in img)) or (rc == 0) != may_create:
                    fails.append({"msg": "black box %s, nothing recorded: exit=%d files=%s (creation allowed: %s)" % (where, rc, sorted(img), may_create)})
                # (2) other values recorded + a stale entry
                shutil.rmtree(snapdir, ignore_errors=True)
                os.makedirs(snapdir)
                for f, b in base.items():
                    open(os.path.join(snapdir, f), "wb").write(b)
                rc, out, img = run(dict(e, BB_VALUE="v1", BB_GONE="0"))
                cells += 1
                changed = img.get("TestStand_1.snap") == b"v1" and b"\nv1\n" in img.get("m_test.snap", b"")
                untouched = img.get("TestStand_1.snap") == b"v0" and b"\nv0\n" in img.get("m_test.snap", b"")
                if may_update and not (changed and rc == 0):
                    fails.append({"msg": "black box %s, changed values: not updated (exit=%d)" % (where, rc)})
                if not may_update and not (untouched and rc != 0):
                    fails.append({"msg": "black box %s, changed values: exit=%d, stored values %s (updating is not enabled: the mismatch must fail the run and leave the files alone)"
                                         % (where, rc, "changed" if changed else "other")})
                stale_there = b"[TestGone - 1]" in img.get("m_test.snap", b"")
                if deletes == stale_there:
                    fails.append({"msg": "black box %s: stale entry %s (Clean deletes: %s)" % (where, "kept" if stale_there else "removed", deletes)})
                # (3) the recorded values: passes in every mode, files byte-identical apart from the stale entry
                shutil.rmtree(snapdir, ignore_errors=True)
                os.makedirs(snapdir)
                for f, b in base.items():
                    open(os.path.join(snapdir, f), "wb").write(b)
                rc, out, img = run(dict(e, BB_VALUE="v0", BB_GONE="1"))
                cells += 1
                if rc != 0 or img != base:
                    fails.append({"msg": "black box %s, recorded values replayed: exit=%d, files %s" % (where, rc, "changed" if img != base else "same")})
                # (4) the same with sorting requested (the recorded file is NOT in natural order): on CI nothing may be written;
                # off CI the entries are reordered, none lost
                rc, out, img = run(dict(e, BB_VALUE="v0", BB_GONE="1", BB_SORT="1"))
                cells += 1
                if ci and img != base:
                    fails.append({"msg": "black box %s, Clean with Sort on CI: the snapshot file was rewritten" % where})
                from C09 import parse_entries
                if not ci and (sorted(parse_entries(img.get("m_test.snap", b""))) != sorted(parse_entries(base["m_test.snap"]))
                               or img.get("m_test.snap", b"").find(b"[TestGone - 1]") > img.get("m_test.snap", b"").find(b"[TestVal - 1]")):
                    fails.append({"msg": "black box %s, Clean with Sort: the file is not the sorted rearrangement of its entries" % where})
        shutil.rmtree(snapdir, ignore_errors=True)
        return fails, {"black_box_mode_cells": cells, "black_box": "real go test binary with TestMain+Clean under real CI / UPDATE_SNAPS environment variables"}

    def oracle(self, case, ops, results):
        cell = case["meta"].get("cell")
        if case["meta"].get("readonly_clean"):
            fs_ = [r for r in results if r[0] == "fs"]
            dl = [r for r in results if r[0] == "dirs"]
            if len(fs_) != 2 or len(dl) != 2 or "*" in (dl[0][2].get("list"), dl[1][2].get("list")):
                return self.skip("guard")
            fails = []
            if fs_[0][2] != fs_[1][2]:
                fails.append({"msg": "Clean in a read-only mode %s changed the files" % (case["meta"]["readonly_clean"],)})
            d0, d1 = set(dl[0][2]["list"].split(",")), set(dl[1][2]["list"].split(","))
            if d0 != d1:
                fails.append({"msg": "Clean in a read-only mode %s changed the directories: removed %s created %s" % (
                    case["meta"]["readonly_clean"], [unhx(x) for x in sorted(d0 - d1)], [unhx(x) for x in sorted(d1 - d0)])})
            return fails
        if case["meta"].get("readonly_sort"):
            from C09 import parse_entries
            fs_ = [r for r in results if r[0] == "fs"]
            if len(fs_) != 2:
                return self.skip("guard")
            key = hx(b"/S/sd/used.snap")
            b_, a_ = fs_[0][2].get(key), fs_[1][2].get(key)
            if b_ is None:
                return self.skip("guard")
            if a_ is None or sorted(parse_entries(unhx(a_))) != sorted(parse_entries(unhx(b_))):
                return [{"msg": "Clean with sorting in a mode that may not delete %s: the entries of the addressed file were %s, are %s" % (
                    case["meta"]["readonly_sort"], [i for i, _ in parse_entries(unhx(b_))], [i for i, _ in parse_entries(unhx(a_ or "-"))])}]
            return []
        if not cell:
            return self.skip("guard")
        ci, opt, upd, api, state = cell
        obs = [r for r in results if r[0] == "obs"]
        fss = [r for r in results if r[0] == "fs"]
        op_with_obs = [o for o in ops if o[0] not in ("init", "dumpfs", "counters")]
        if len(op_with_obs) != len(obs) or len(fss) != 2 or not obs:
            return self.skip("guard")
        (name, kv), (_, idx, o) = list(zip(op_with_obs, obs))[-1]
        if name != "match" or o["outcome"] == "nocall":
            return self.skip("a shrunk case whose Config handle is gone makes no call")
        names = [n_ for n_, _ in ops if n_ != "init"]
        if names[-3:] != ["dumpfs", "match", "dumpfs"]:
            return self.skip("a shrunk case that lost its shape: the file system is inspected right ")
        if state != "missing" and not fss[0][2]:
            return self.skip("a shrunk case that lost the recording run: the cell's state no longer ")
        exp_out, exp_write = self.expected(ci, opt, upd, state)
        wrote = o["writes"] != "-" or fss[0][2] != fss[1][2]
        # (the table decides WHETHER the call fails and whether anything is written; which message reports the failure is not its business)
        if o["outcome"].split(":")[0] != exp_out.split(":")[0] or wrote != exp_write:
            return [{"msg": "cell CI=%s Update=%s UPDATE_SNAPS=%s api=%s state=%s: outcome=%s wrote=%s, table says %s wrote=%s"
                     % (ci, opt, upd, api, state, o["outcome"], wrote, exp_out, exp_write)}]
        return []

    def stats(self, case, ops, results, dist):
        c = case["meta"].get("cell")
        if c:
            dist["ci=%s" % c[0]] += 1
            dist["state=%s" % c[4]] += 1
        for r in results:
            if r[0] == "obs" and r[2]["outcome"] != "nocall":
                dist["outcome:" + r[2]["outcome"]] += 1


PROP = C05()
