"""C20 - every call has exactly one outcome and the summary adds up (counters part)."""
from runner import Prop
import common
from common import hx, unhx
import gen as G


class C20(Prop):
    pid = "C20"
    fields = {"obs": ["outcome", "errors", "logs", "writes", "~line"], "fs": "*", "counters": "*",
              "clean": ["layout", "ofiles", "otests", "writes", "printed", "passed", "failed", "added", "updated", "skipped", "removed"], "readsum": ["ok", "agree", "~render"]}
    rule = ("long mixed histories over all five entry points (passes, creations, updates, diff failures, invalid input, "
            "matcher failures, missing snapshots on CI, calls without values, snaps.Skip), two processes with different modes, "
            "counters read and Clean run (its exact stdout read back by the verified reader, colours on or off) after each process; the oracle tallies the signals received by the scripted testingT and compares "
            "them with the library's counters; non-trivial = at least three different outcomes occurred")
    outside_model = "concurrent counter increments (mutex) are a runtime matter; the printed summary is covered with Clean (C09)"
    trusted = []

    def gen(self, rng, tier):
        n = 300 if tier == "quick" else 5000
        cases = []
        for i in range(n):
            r = rng.fork()
            ops = [G.op_newconfig(dir=b"d", upd=r.choice([None, None, True, False]))]
            if r.chance(1, 3):
                # the same stale id in both addressed files: each occurrence is judged (and listed) on its own
                stale = b"\n[TestStale - 1]\nleft over\n---\n"
                ops = [G.op_putfile(b"def/zz_verif_trace_test.snap", stale), G.op_putfile(b"d/zz_verif_trace_test.snap", stale)] + ops
            prog = G.gen_program(r, handles=(0, 1))
            body = G.run_program(r, prog, r.range(1, 2))
            # sprinkle special calls
            extra = []
            for _ in range(r.range(0, 5)):
                t = r.choice(G.TEST_NAMES)
                k = r.below(6)
                if k in (3, 4) and r.chance(1, 3):
                    t = r.choice(G.PCT_NAMES + G.PCT_STANDALONE)     # sub-tests named "100%", "x%dy": an outcome like any other
                if k == 0:
                    extra.append({"op": "match", "api": "snap", "h": 0, "test": hx(t), "novalues": True})
                elif k == 1:
                    extra.append(G.op_match_doc("json", 0, t, r.choice(G.BAD_JSON)))
                elif k == 2:
                    extra.append({"op": "skip", "test": hx(t), "form": r.choice(["", "f", "now"])})
                    if r.chance(1, 2):
                        # a sub-test of a skipped test calling a skip wrapper too: every call counts
                        extra.append({"op": "skip", "test": hx(t + r.choice([b"/child", b"/sub", b"/child/deep"])), "form": r.choice(["", "f", "now"])})
                elif k == 3:
                    extra.append(G.op_match_doc("standjson", 1, t, r.choice(G.JSON_DOCS)))
                elif k == 4:
                    extra.append(G.op_match_doc("stand", 1, t, G.gen_text(r)))
                else:
                    doc, good, bad = r.choice(G.DOC_WITH_PATHS)
                    extra.append(G.op_match_doc("json", 1, t, doc, "string", G.gen_matchers(r, good, bad, "mixed")))
            body1 = G.interleave(r, [body, extra])
            env2 = r.choice(G.ENVS)
            prog2 = G.mutate_program(r, prog)
            def clean_op():
                return {"op": "clean", "sort": r.chance(1, 2), "count": 1, "colour": r.chance(1, 2)}
            cfg0 = next(o for o in ops if o["op"] == "newconfig")
            ops += body1 + [{"op": "counters"}, {"op": "dumpfs"}, clean_op(), {"op": "dumpfs"}, {"op": "newprocess"}, cfg0, G.op_setenv(env2[0], env2[1])]
            ops += G.interleave(r, [G.run_program(r, prog2, 1), [dict(e) for e in extra]]) + [{"op": "counters"}, {"op": "dumpfs"}, clean_op(), {"op": "dumpfs"}]
            cases.append({"ci": False, "updvar": r.choice(["unset", "true"]), "colour": False, "ops": ops, "meta": {}})
        # a process in which every snapshot test is skipped through the library and NO Match* call runs: the summary still
        # shows the skips (and nothing else)
        for i in range(max(3, n // 40)):
            r = rng.fork()
            sk = []
            for t in r.shuffle(G.TEST_NAMES)[: r.range(1, 3)]:
                sk.append({"op": "skip", "test": hx(t), "form": r.choice(["", "f", "now"])})
                if r.chance(1, 3):
                    sk.append({"op": "skip", "test": hx(t + b"/child"), "form": r.choice(["", "f", "now"])})
            ops = sk + [{"op": "counters"}, {"op": "dumpfs"}, {"op": "clean", "sort": r.chance(1, 2), "count": 1, "colour": r.chance(1, 2)}, {"op": "dumpfs"}]
            cases.append({"ci": r.chance(1, 3), "updvar": r.choice(["unset", "true", "clean"]), "colour": False, "ops": ops, "meta": {"skip_only": True}})
        # file-system failures (outside the model: "FS calls succeed"): the snapshot directory cannot be created / file unreadable
        for i in range(n // 10):
            r = rng.fork()
            t = r.choice(G.TEST_NAMES)
            ops = [G.op_putfile(b"blocker", b"i am a regular file"), G.op_newconfig(dir=b"blocker/sub"), G.op_newconfig(dir=b"ok")]
            if r.chance(1, 2):
                # the snapshot FILE cannot be read: a directory sits at its path (multi-entry and first standalone file)
                ops += [{"op": "putdir", "path": hx(b"ok/zz_verif_trace_test.snap")},
                        {"op": "putdir", "path": hx(b"ok/" + t.replace(b"/", b"_") + b"_1.snap")},
                        {"op": "putdir", "path": hx(b"ok/" + t.replace(b"/", b"_") + b"_1.snap.json")}]
            calls = []
            for _ in range(r.range(2, 5)):
                h = r.choice([1, 1, 2])
                api = r.choice(["snap", "json", "yaml", "stand", "standjson"])
                if api == "snap":
                    calls.append(G.op_match_snap(h, t, [G.gen_text(r)]))
                elif api == "stand":
                    calls.append(G.op_match_doc("stand", h, t, G.gen_text(r)))
                elif api == "yaml":
                    calls.append(G.op_match_doc("yaml", h, t, r.choice(G.YAML_DOCS)))
                else:
                    calls.append(G.op_match_doc(api, h, t, r.choice(G.JSON_DOCS)))
            ops += calls + [{"op": "counters"}]
            cases.append({"ci": False, "updvar": "unset", "colour": False, "ops": ops, "meta": {"oracle_only": True}})
        # ... an existing snapshot cannot be REWRITTEN (immutable files): update mode, changed values, all five entry points
        for i in range(n // 15):
            r = rng.fork()
            t = r.choice(G.TEST_NAMES)
            ops = [G.op_newconfig(dir=b"ok")]
            rec, chg = [], []
            for api in r.shuffle(["snap", "json", "yaml", "stand", "standjson"])[: r.range(2, 5)]:
                if api == "snap":
                    rec.append(G.op_match_snap(1, t, [b"old value"])); chg.append(G.op_match_snap(1, t, [b"new value\nlonger"]))
                elif api == "stand":
                    rec.append(G.op_match_doc("stand", 1, t, b"old")); chg.append(G.op_match_doc("stand", 1, t, b"new"))
                elif api == "yaml":
                    rec.append(G.op_match_doc("yaml", 1, t, b"a: 1\n")); chg.append(G.op_match_doc("yaml", 1, t, b"a: 2\nb: 3\n"))
                else:
                    rec.append(G.op_match_doc(api, 1, t, b'{"a":1}')); chg.append(G.op_match_doc(api, 1, t, b'{"a":2,"b":[1,2]}'))
            ops += rec + [G.op_end(t), {"op": "counters"}, {"op": "newprocess"}, G.op_newconfig(dir=b"ok"), G.op_setenv(False, "true"),
                          {"op": "lockfiles"}] + chg + [{"op": "counters"}, {"op": "unlockfiles"}]
            cases.append({"ci": False, "updvar": "unset", "colour": False, "ops": ops, "meta": {"oracle_only": True, "locked": True}})
        return cases

    def oracle(self, case, ops, results):
        fails = []
        tally = {"erred": 0, "added": 0, "updated": 0, "passed": 0, "skipped": 0}
        it = iter(ops)
        opl = [o for o in ops if o[0] not in ("init", "dumpfs", "lockfiles", "unlockfiles")]
        if case["meta"].get("locked"):
            lk = [r for r in results if r[0] == "lockfiles"]
            if not lk or lk[0][2].get("ok") != "1":
                return self.skip("the file system does not support immutable files: nothing to judge")
            # every call after the lock must fail with exactly one error and change nothing
            seen_lock = False
            for name, kv in ops:
                if name == "lockfiles":
                    seen_lock = True
            obs_after = []
            after = False
            it_res = iter([r for r in results if r[0] in ("obs", "lockfiles")])
            for r in it_res:
                if r[0] == "lockfiles":
                    after = True
                elif after:
                    obs_after.append(r)
            for kind, idx, o in obs_after:
                if o["outcome"] in ("nocall",):
                    continue
                if not o["outcome"].startswith("failed:") or o["errors"] != "1" or o["logs"] != "-" or o["writes"] != "-":
                    fails.append({"msg": "obs %d: the snapshot could not be rewritten (immutable file), yet outcome=%s errors=%s logs=%s writes=%s"
                                         % (idx, o["outcome"], o["errors"], o["logs"], o["writes"])})
        ri = 0
        res = [r for r in results if r[0] in ("obs", "counters", "clean")]
        # "lists exactly the items Clean judged obsolete": when the summary says `removed`, the listed tests are exactly
        # the entries that disappeared from the snapshot files (as a multiset: one line per removed entry)
        from C09 import parse_entries
        seq = [r for r in results if r[0] in ("fs", "clean")]
        for a, c_, b in zip(seq, seq[1:], seq[2:]):
            if a[0] == "fs" and c_[0] == "clean" and b[0] == "fs" and c_[2].get("removed") == "1":
                gone = []
                for p_, content in a[2].items():
                    if content == "-" or not unhx(p_).endswith(b".snap"):
                        continue
                    if p_ not in b[2]:
                        continue          # the whole file was removed: listed under files
                    before = [i for i, _ in parse_entries(unhx(content))]
                    after = [i for i, _ in parse_entries(unhx(b[2][p_]))] if b[2][p_] != "-" else []
                    for i in before:
                        if i in after:
                            after.remove(i)
                        else:
                            gone.append(i)
                listed = [] if c_[2]["otests"] == "~" else [unhx(x) for x in c_[2]["otests"].split(",")]
                if sorted(gone) != sorted(listed):
                    fails.append({"msg": "Clean removed the entries %s but its summary lists %s" % (sorted(gone), sorted(listed))})
        for name, kv in opl:
            if ri >= len(res):
                break
            kind, idx, o = res[ri]
            ri += 1
            if name == "counters":
                if kind != "counters":
                    return self.skip("guard")
                got = {k: int(v) for k, v in o.items()}
                if got != tally:
                    fails.append({"msg": "counters %s differ from the signals received by the test: %s" % (got, tally)})
                continue
            if name == "clean":
                if kind != "clean":
                    return self.skip("guard")
                shown = {"erred": int(o["failed"]), "added": int(o["added"]), "updated": int(o["updated"]), "passed": int(o["passed"]), "skipped": int(o["skipped"])}
                if shown != tally:
                    fails.append({"msg": "the Snapshot Summary shows %s, the signals received by the tests add up to %s" % (shown, tally)})
                continue
            if kind != "obs":
                return self.skip("guard")
            if name == "newprocess":
                tally = {k: 0 for k in tally}
            if name == "skip":
                tally["skipped"] += 1
            if name == "match":
                oc = o["outcome"]
                errs, logs = int(o["errors"]), ([] if o["logs"] == "-" else o["logs"].split(","))
                if oc == "warned" or oc == "nocall":
                    if errs or [l for l in logs if l not in ("warning", "unknown")]:
                        fails.append({"msg": "obs %d: no-value call signalled %s/%s" % (idx, errs, logs)})
                    continue
                shape = {"passed": (0, []), "added": (0, ["added"]), "updated": (0, ["updated"])}.get(oc, (1, []))
                if errs != shape[0] or not common.logs_agree(",".join(logs) or "-", ",".join(shape[1]) or "-") or oc.startswith("multi") or oc == "nocount":
                    f_ = {"msg": "obs %d: outcome %s signalled as errors=%d logs=%s" % (idx, oc, errs, logs)}
                    if oc.startswith("failed") and errs == 1 and logs and all(l == "unknown" for l in logs):
                        # exactly one error and, next to it, a log that is neither an `added` nor an `updated` log (a hint, say): the
                        # text fixes the error, it does not forbid further words - the model does not log there: a broken tie
                        f_["tie"] = True
                    fails.append(f_)
                if errs:
                    tally["erred"] += errs
                elif logs == ["added"] or (logs == ["unknown"] and oc == "added"):
                    tally["added"] += 1
                elif logs == ["updated"] or (logs == ["unknown"] and oc == "updated"):
                    tally["updated"] += 1
                elif not logs:
                    tally["passed"] += 1
        return fails

    def nontrivial(self, case, ops, results):
        return len(set(r[2]["outcome"].split(":")[0] for r in results if r[0] == "obs") - {"nocall"}) >= 3

    def stats(self, case, ops, results, dist):
        for r in results:
            if r[0] == "obs" and r[2]["outcome"] != "nocall":
                dist["outcome:" + r[2]["outcome"]] += 1


PROP = C20()
