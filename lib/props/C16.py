"""C16 - masked fields never influence the snapshot; unmasked fields always do."""
import json
from runner import Prop
from common import hx, unhx
import gen as G
import genjson as J
from C15 import pick_paths, PLACEHOLDERS

SCALARS = [('str', 'x'), ('str', 'other value'), ('num', '3'), ('num', '-0.5'), ('lit', 'true'), ('lit', 'null'), ('str', '\\u00e9'), ('str', '')]


class C16(Prop):
    pid = "C16"
    rule = ("metamorphic pairs through MatchJSON / MatchStandaloneJSON / MatchYAML: process 1 stores document d1 under a set "
            "of matchers (Any / Custom, placeholders incl. ones needing escapes); process 2 presents d2 = d1 changed ONLY at "
            "masked paths (must pass, same stored text) and d3 = d1 changed at one UNMASKED path (must fail); "
            "distinct = distinct op list; non-trivial = both variants were exercised")
    outside_model = "YAML documents and paths are handled by goccy/go-yaml (oracle only); Type matchers need kind-preserving variants (strings only here)"
    trusted = []

    def gen(self, rng, tier):
        n = 300 if tier == "quick" else 5000
        cases = []
        for i in range(n):
            r = rng.fork()
            yaml = r.chance(1, 4)
            t = r.choice(G.TEST_NAMES)
            if yaml:
                base = {"user": {"name": "n", "age": 3}, "tags": ["x", "y"], "time": "t0", "ok": True}
                masked = r.shuffle([("user", "name"), ("time",), ("tags", 0)])[: r.range(1, 2)]
                unmasked = [p for p in [("user", "age"), ("tags", 1), ("ok",)]]
                def yp(p):
                    s = "$"
                    for c in p:
                        s += "[%d]" % c if isinstance(c, int) else "." + c
                    return s
                def dump(v):
                    return ("user:\n  name: %s\n  age: %s\ntags:\n  - %s\n  - %s\ntime: %s\nok: %s\n" % (
                        v["user"]["name"], v["user"]["age"], v["tags"][0], v["tags"][1], v["time"], str(v["ok"]).lower())).encode()
                def setp(v, p, x):
                    v = json.loads(json.dumps(v))
                    o = v
                    for c in p[:-1]:
                        o = o[c]
                    o[p[-1]] = x
                    return v
                ms = [{"kind": "any", "paths": [yp(p)]} for p in masked]
                d1 = base
                d2 = d1
                for p in masked:
                    # (also scalars written in another STYLE than the one they replace - quoted where the first input is plain:
                    # what is stored for a masked path may not depend on how the masked value was spelled)
                    d2 = setp(d2, p, r.choice(["zzz", "q", "v2", '"123"', "'x y'", '""', '"true"', '"a: b"', '"x #y"', "123", "true", "null", "~"]))
                d3 = setp(d1, r.choice(unmasked), "changed")
                api = "yaml"
                docs = [dump(d1), dump(d2), dump(d3)]
            elif r.chance(1, 4):
                # ONE multi-path matcher (Any or Type[string]) with ErrOnMissingPath(false) and an ABSENT path listed before /
                # between the present ones: the present ones are still masked
                d1 = {"id": "i1", "createdAt": "c1", "token": "t1", "n": 1, "keep": [1, 2]}
                mp = r.shuffle(["id", "createdAt", "token"])[: r.range(1, 3)]
                paths = list(mp)
                paths.insert(r.below(len(paths)), r.choice(["deletedAt", "nope.x", "zz"]))
                ms = [{"kind": r.choice(["any", "type"]), "type": "string", "paths": paths, "errOnMissing": False, "stmt": r.chance(1, 2)}]
                d2 = dict(d1)
                for k_ in mp:
                    d2[k_] = r.choice(["other", "x", "a much longer value"])
                d3 = dict(d1, n=2)
                api = r.choice(["json", "standjson"])
                docs = [json.dumps(d).encode() for d in (d1, d2, d3)]
            elif r.chance(1, 8):
                # one matcher over two SIBLING keys of which one is a textual prefix of the other (user / username): both are masked
                if r.chance(1, 2):
                    paths = r.shuffle(["user", "username"])
                    ms = [{"kind": "any", "paths": paths}]
                    mk = lambda tok, un, role: json.dumps({"user": {"id": 1, "token": tok}, "username": un, "role": role}).encode()
                    docs = [mk("aaa", "alice", "admin"), mk("bbb", "bob", "admin"), mk("aaa", "alice", "guest")]
                    api = r.choice(["json", "standjson"])
                else:
                    paths = r.shuffle(["$.created", "$.createdBy"])
                    ms = [{"kind": "any", "paths": paths}]
                    mk = lambda at, by, role: ("created:\n  at: %s\ncreatedBy: %s\nrole: %s\n" % (at, by, role)).encode()
                    docs = [mk("2024-01-01", "alice", "admin"), mk("2025-02-02", "bob", "admin"), mk("2024-01-01", "alice", "guest")]
                    api = "yaml"
            elif r.chance(1, 6):
                # numbers are compared as TEXT: integers beyond 2^53 that differ in the low bits, and two spellings of one
                # number, are different formatted values at an unmasked path
                big = r.choice([(9007199254740993, 9007199254740992), (18446744073709551615, 18446744073709551614),
                                ("1.0", "1"), ("1e2", "100"), ("0.10", "0.1"), ("-0", "0")])
                mk = lambda acct, created: ('{"account":%s,"createdAt":"%s","name":"jane","ids":[1,%s]}' % (acct, created, acct)).encode()
                ms = [r.choice([{"kind": "any", "paths": ["createdAt"]}, {"kind": "custom", "paths": ["createdAt"], "ret": "null"}])]
                api = r.choice(["json", "standjson"])
                docs = [mk(big[0], "2024-01-01"), mk(big[0], "2025-06-30"), mk(big[1], "2024-01-01")]
                # two spellings of ONE number are the same JSON value: whether they store alike is the printer's business (tied by
                # the model comparison), the property only speaks about inputs that differ
                spelling = isinstance(big[0], str)
            else:
                ast = J.gen_ast(r, maxdepth=3)
                ps = pick_paths(r, ast, 4) if ast[0] in ("obj", "arr") else []
                if len(ps) < 2:
                    ast = ('obj', [('a', ('str', 'hello world')), ('b', ('arr', [('num', '1'), ('lit', 'null')])), ('c', ('obj', [('x', ('num', '2'))])), ('time', ('str', '2020'))])
                    ps = pick_paths(r, ast, 4)
                k = r.range(1, len(ps) - 1)
                masked, unmasked = ps[:k], ps[k:]
                ms = []
                for p in masked:
                    if r.chance(2, 3):
                        ms.append({"kind": "any", "paths": [J.gjson_path(p)], "placeholder": r.choice(PLACEHOLDERS)})
                    else:
                        ms.append({"kind": "custom", "paths": [J.gjson_path(p)], "ret": r.choice(['"<c>"', '"<c>"', "null", "0"])})
                a2 = ast
                for p in masked:
                    cur = J.get_at(a2, p)
                    a2 = J.set_at(a2, p, r.choice([x for x in SCALARS if x != cur]))
                q = r.choice(unmasked)
                cur = J.get_at(ast, q)
                # compare decoded values: "x" -> a scalar that is a different JSON value
                cands = [x for x in SCALARS if J.to_py(x) != (J.to_py(cur) if cur[0] in ('str', 'num', 'lit') else object())]
                a3 = J.set_at(ast, q, r.choice(cands))
                api = r.choice(["json", "standjson"])
                docs = [J.render(r, a, ws=r.chance(1, 2)).encode() for a in (ast, a2, a3)]
            form = lambda: r.choice(["string", "bytes"])
            role3 = "unjudged" if locals().get("spelling") else "unmasked"
            spelling = False
            env2 = r.choice([(False, "unset"), (True, "unset"), (False, "other")])
            ops = [G.op_match_doc(api, 0, t, docs[0], form(), ms), G.op_end(t), {"op": "dumpfs"}, {"op": "newprocess"},
                   G.op_setenv(env2[0], env2[1]),
                   dict(G.op_match_doc(api, 0, t, docs[1], form(), ms), role="masked"), G.op_end(t),
                   dict(G.op_match_doc(api, 0, t, docs[2], form(), ms), role=role3), {"op": "dumpfs"}]
            cases.append({"ci": False, "updvar": "unset", "colour": False, "ops": ops, "meta": {"api": api}})
        return cases

    def oracle(self, case, ops, results):
        fails = []
        raws = [o for o in case["ops"] if o["op"] not in ("dumpfs", "counters")]
        obs = [r for r in results if r[0] == "obs"]
        ol = [o for o in ops if o[0] not in ("init", "dumpfs", "counters")]
        if not (len(raws) == len(obs) == len(ol)):
            return self.skip("guard")
        first = next(((kv, o) for raw, (_, _, o), (n, kv) in zip(raws, obs, ol) if n == "match" and "role" not in raw), None)
        if not first or first[1]["outcome"] != "added" or not first[0]["pre"].startswith("ok:"):
            return self.skip("guard")
        for raw, (_, idx, o), (n, kv) in zip(raws, obs, ol):
            role = raw.get("role")
            if role == "masked":
                if kv["pre"] != first[0]["pre"] or o["outcome"] != "passed" or o["errors"] != "0":
                    fails.append({"msg": "obs %d: input differing only at masked paths: outcome=%s, same stored text=%s"
                                  % (idx, o["outcome"], kv["pre"] == first[0]["pre"])})
            elif role == "unmasked":
                if not o["outcome"].startswith("failed") or o["errors"] != "1" or o["writes"] != "-":
                    fails.append({"msg": "obs %d: input differing at an unmasked path: outcome=%s errors=%s" % (idx, o["outcome"], o["errors"])})
        return fails

    def nontrivial(self, case, ops, results):
        oc = [r[2]["outcome"] for r in results if r[0] == "obs"]
        return "passed" in oc and any(x.startswith("failed") for x in oc)

    def stats(self, case, ops, results, dist):
        dist["api:" + case["meta"].get("api", "?")] += 1
        for r in results:
            if r[0] == "obs" and r[2]["outcome"] != "nocall":
                dist["outcome:" + r[2]["outcome"]] += 1


PROP = C16()
