"""C18 - YAML snapshots keep the document verbatim."""
from runner import Prop
from common import hx, unhx
import gen as G

DOCS = G.YAML_DOCS + [
    b"---\n---\nb: 2\n", b"a: 1\n---\n---\nb: 2\n", b"a: 1\n---\n", b"---\n", b"# only a comment\n", b"k: v\n\n\n# trailing comment\n",
    b"z: 1\na: 2\nm: 3\n", b"text: |\n  ---\n  /-/-/-/\n  end\n", b"seq:\n- a\n- b\n", b"'quoted key': \"v\"\n", b"a: 1\n...\n", b"x: [TestA - 1]\n",
    b"[TestA - 1]\n", b"a: b\r\nc: d\r\n"[:0] + b"emoji: \xf0\x9f\x98\x80\n", b"n: ~\nt: true\nf: 1.50\n", b"a: 1   \n", b"\nleading: blank\n"]


class C18(Prop):
    pid = "C18"
    rule = ("MatchYAML with string / []byte documents from a corpus (multi-document streams incl. empty documents and adjacent "
            "separators, block scalars containing --- and the escape token, comments, key order, trailing blank lines, final newline "
            "present/absent, header-looking flow sequences) and with Go values; create, update with a changed document, replay; "
            "invalid documents; the oracle checks the stored body is the document with only its --- lines escaped, that replay "
            "passes silently, that Go values marshal to the same text twice, and that invalid YAML writes nothing; "
            "non-trivial = a document with a separator, comment or block scalar")
    outside_model = "goccy/go-yaml entirely: validity and marshalling are observed from the real parser and handed to the model"
    trusted = []

    def gen(self, rng, tier):
        n = 300 if tier == "quick" else 5000
        cases = []
        for i in range(n):
            r = rng.fork()
            t = r.choice(G.TEST_NAMES)
            d1, d2 = r.choice(DOCS), r.choice(DOCS)
            form = lambda: r.choice(["string", "bytes"])
            ops = [G.op_match_doc("yaml", 0, t, d1, form()), G.op_end(t), {"op": "dumpfs"}]
            if r.chance(1, 2):
                # update with a changed document
                ops += [{"op": "newprocess"}, G.op_setenv(False, "true"), G.op_match_doc("yaml", 0, t, d2, form()), G.op_end(t), {"op": "dumpfs"}]
                last = d2
            else:
                last = d1
            ops += [{"op": "newprocess"}, G.op_setenv(r.chance(1, 2), "unset"), dict(G.op_match_doc("yaml", 0, t, last, form()), role="replay"), {"op": "dumpfs"}]
            if r.chance(1, 3):
                ops += [dict(G.op_match_doc("yaml", 0, r.choice(G.TEST_NAMES), r.choice(G.BAD_YAML)), role="invalid"), {"op": "dumpfs"}]
            if r.chance(1, 4):
                # a Go value twice: same text every time
                v = r.choice([b'{"b":[1,2,{"c":null}],"a":"x"}', b'{"user":{"name":"n","age":3},"tags":["x","y"]}', b'[1,"two",{"k":true}]'])
                t2 = b"TestVal"
                ops += [dict(G.op_match_doc("yaml", 0, t2, v, "value"), role="value1"), G.op_end(t2), dict(G.op_match_doc("yaml", 0, t2, v, "value"), role="value2")]
            cases.append({"ci": False, "updvar": "unset", "colour": False, "ops": ops, "meta": {}})
        return cases

    def oracle(self, case, ops, results):
        raws = [o for o in case["ops"] if o["op"] not in ("dumpfs", "counters")]
        obs = [r for r in results if r[0] == "obs"]
        ol = [o for o in ops if o[0] not in ("init", "dumpfs", "counters")]
        fss = [r for r in results if r[0] == "fs"]
        if not (len(raws) == len(obs) == len(ol)):
            return self.skip("guard")
        fails = []
        main = hx(b"/S/def/zz_verif_trace_test.snap")
        fsi = 0
        prev_fs = {}
        value_pre = None
        stored = {}
        opi = 0
        # iterate in original op order to align fs dumps
        ri = 0
        for o in case["ops"]:
            if o["op"] == "dumpfs":
                if fsi < len(fss):
                    prev_fs, fsi = fss[fsi][2], fsi + 1
                continue
            if o["op"] == "counters" or ri >= len(obs):
                continue
            (name, kv), (_, idx, ob) = ol[ri], obs[ri]
            ri += 1
            if name != "match" or kv["api"] != "yaml":
                continue
            role = o.get("role")
            if kv["pre"].startswith("ok:") and o.get("form") != "value":
                if unhx(kv["pre"][3:]) != unhx(o["doc"]):
                    fails.append({"msg": "obs %d: a valid string/[]byte document was re-encoded before storing" % idx})
            if ob["outcome"] in ("added", "updated") and kv["pre"].startswith("ok:"):
                # the dump that follows shows the stored body
                nxt = fss[fsi][2] if fsi < len(fss) else None
                if nxt is not None:
                    doc = unhx(kv["pre"][3:])
                    # line for line the document, verbatim; only a line that is the terminator or starts with its escape
                    # token may be stored in an escaped form (which form is the storage scheme's business, judged by the
                    # replay below and by the correspondence with the model)
                    from C09 import parse_entries
                    body = dict(parse_entries(unhx(nxt.get(main, "-")))).get(unhx(kv["test"]) + b" - 1")
                    dl = doc.split(b"\n")
                    special = lambda l: l == b"---" or l.startswith(b"/-/-/-/")
                    if body is None or len(body.split(b"\n")) != len(dl) or any(
                            s_ != d_ and not special(d_) for s_, d_ in zip(body.split(b"\n"), dl)):
                        fails.append({"msg": "obs %d: stored entry is not the document line for line (only terminator-like lines may be escaped)" % idx})
            if ob["outcome"] in ("added", "updated", "passed") and role != "replay":
                stored[kv["test"]] = kv["pre"]
            if role == "replay" and kv["pre"].startswith("ok:") and stored.get(kv["test"]) == kv["pre"]:
                if ob["outcome"] != "passed" or ob["errors"] != "0" or ob["writes"] != "-":
                    fails.append({"msg": "obs %d: replay of the stored document: outcome=%s" % (idx, ob["outcome"])})
            if role == "invalid":
                if kv["pre"] == "invalid" and (not ob["outcome"].startswith("failed") or ob["errors"] != "1" or ob["writes"] != "-"):
                    fails.append({"msg": "obs %d: invalid YAML: outcome=%s writes=%s" % (idx, ob["outcome"], ob["writes"])})
            if role == "value1":
                value_pre = kv["pre"] if ob["outcome"] in ("added", "passed", "updated") else None
            if o["op"] == "endtest":
                pass
            if role == "value2" and value_pre is not None and any(
                    x["op"] == "endtest" and x["test"] == o["test"] for x in case["ops"][:case["ops"].index(o)]):
                if kv["pre"] != value_pre or ob["outcome"] != "passed":
                    fails.append({"msg": "obs %d: a Go value did not marshal to the same text twice / did not replay" % idx})
        return fails

    def known_signature(self, finding, case, ops, results, failure):
        from C01 import header_collision
        return finding["id"] == "K2" and header_collision(ops)

    def nontrivial(self, case, ops, results):
        return any(n == "match" and kv.get("pre", "").startswith("ok:") and (b"---" in unhx(kv["pre"][3:]) or b"#" in unhx(kv["pre"][3:]) or b"|" in unhx(kv["pre"][3:])) for n, kv in ops)

    def stats(self, case, ops, results, dist):
        for r in results:
            if r[0] == "obs" and r[2]["outcome"] != "nocall":
                dist["outcome:" + r[2]["outcome"].split(":")[0]] += 1
        for n, kv in ops:
            if n == "match":
                dist["pre:" + kv["pre"].split(":")[0]] += 1


PROP = C18()
