"""C04 - update mode converges and rewrites only what differs."""
from runner import Prop
from common import hx, unhx
import gen as G
from C01 import header_collision, per_test_calls
from C09 import parse_entries


def stand_value(r):
    """a standalone file holds its value byte for byte: CRLF text, lone carriage returns, the empty value and raw bytes are
    values like any other (unchanged ones must not be rewritten, changed ones must converge)"""
    k = r.below(8)
    if k == 0:
        return b"HTTP/1.1 200 OK\r\nContent-Type: text/plain\r\nX-Id: %d\r\n\r\nhello\r\nworld" % r.below(3)
    if k == 1:
        return r.choice([b"", b"\r", b"\r\n", b"a\rb", b"line\r\n"])
    if k == 2:
        return bytes(r.below(256) for _ in range(r.range(1, 24)))
    return G.gen_text(r)


class C04(Prop):
    pid = "C04"
    rule = ("update-mode histories: process 1 records a program (1-4 tests, 1-12 calls, all five entry points incl. standalone), "
            "process 2 runs with updating enabled (UPDATE_SNAPS=true or Update(true)) and a random subset of values changed "
            "(shorter, longer, empty, multi-line, terminator-like), process 3 replays read-only; the oracle checks: exactly the changed "
            "slots were rewritten to the new values, unchanged calls wrote nothing (mtime pinned), all other entries byte-identical "
            "and in place, the read-only run passes silently with no write; non-trivial = at least one update happened. "
            "Plus the file-format functions themselves (getPrevSnapshot / addNewSnapshot / updateSnapshot / escapeEndChars / unescapeEndChars on "
            "a fresh copy of a file) against the model: thorough = EVERY file of <= 3 lines over 7 line tokens (blank, text, terminator, escape token, "
            "two headers, padded terminator) with and without final newline x every value of <= 2 lines (41 800 triples, malformed files included); "
            "quick = 3000 random triples over files of <= 6 lines")
    outside_model = "value formatting is input"
    trusted = []
    fields = {"obs": ["outcome", "errors", "logs", "writes", "touched", "~line"], "fs": "*", "counters": "*", "frame": ["prev", "added", "updated", "esc", "unesc"]}
    FRAME_TOKENS = [b"", b"a", b"---", b"/-/-/-/", b"[T - 1]", b"[U - 1]", b" ---", b"[T - 1] "]

    def frame_cases(self, rng, tier):
        """the file-format functions (getPrevSnapshot / addNewSnapshot / updateSnapshot / escape / unescape) on small files:
        thorough = EVERY file of <= 3 lines over FRAME_TOKENS (with and without final newline) x every value of <= 2 lines;
        quick = a random sample of files of <= 6 lines"""
        import itertools
        T = self.FRAME_TOKENS
        triples = []
        if tier == "thorough":
            files = [b"\n".join(c) + e for k in range(0, 4) for c in itertools.product(T[:7], repeat=k) for e in (b"", b"\n")]
            vals = [b"\n".join(c) for k in range(0, 3) for c in itertools.product(T[:7], repeat=k)]
            triples = [(f, b"[T - 1]", v) for f in sorted(set(files)) for v in sorted(set(vals))]
        else:
            for _ in range(3000):
                f = b"\n".join(rng.choice(T) for _ in range(rng.range(0, 6))) + rng.choice([b"", b"\n"])
                if rng.chance(1, 3):      # a well-formed file
                    f = b"".join(b"\n" + rng.choice([b"[T - 1]", b"[U - 1]", b"[T - 2]"]) + b"\n" + b"\n".join(rng.choice(T[:2] + T[3:]) for _ in range(rng.range(0, 3))) + b"\n---\n"
                                 for _ in range(rng.range(0, 3)))
                v = b"\n".join(rng.choice(T) for _ in range(rng.range(0, 3)))
                triples.append((f, rng.choice([b"[T - 1]", b"[T - 1]", b"[U - 1]", b"[T - 2]"]), v))
        cases = []
        for k in range(0, len(triples), 200):
            ops = [{"op": "frame", "doc": hx(f), "test": hx(i), "values": [hx(v)]} for f, i, v in triples[k:k + 200]]
            cases.append({"ci": False, "updvar": "unset", "colour": False, "ops": ops, "meta": {"frame": True}})
        return cases

    def frame_oracle(self, ops, results):
        """on WELL-FORMED files (a sequence of entries with distinct headers, bodies free of terminator lines) and escaped values:
        reading returns the body; appending adds exactly one entry at the end; rewriting changes exactly that entry's body"""
        fails = []
        for (n_, kv), (_, idx, o) in zip([x for x in ops if x[0] == "frame"], [r for r in results if r[0] == "frame"]):
            f, i, v = unhx(kv["file"]), unhx(kv["id"]), unhx(kv["value"])
            ents = parse_entries(f)
            if b"".join(b"\n[" + a + b"]\n" + b_ + b"\n---\n" for a, b_ in ents) != f or len({a for a, _ in ents}) != len(ents):
                continue
            if any(l == b"---" for l in v.split(b"\n")) or any(l == b"---" for _, b_ in ents for l in b_.split(b"\n")):
                continue
            if any(l.startswith(b"[") and l.endswith(b"]") for _, b_ in ents for l in b_.split(b"\n")) or any(l.startswith(b"[") and l.endswith(b"]") for l in v.split(b"\n")):
                continue          # header-like body lines: known finding K2
            d = dict(ents)
            inner = i[1:-1]
            want_prev = "~" if inner not in d else None
            if want_prev == "~" and o["prev"] != "~":
                fails.append({"msg": "frame %d: an entry was read for a header the file does not hold" % idx, "tie": True})
            if inner in d and (o["prev"] == "~" or unhx(o["prev"].split("@")[0]) != d[inner].rstrip(b"\n") and unhx(o["prev"].split("@")[0]) != d[inner]):
                # (what the library's internal reader RETURNS - escaped or already unescaped - is its own business: a complaint about
                # it is a broken tie with the model's get_prev, not an input on which a Match* call misbehaves)
                fails.append({"msg": "frame %d: reading %r returned %s, the entry holds %r" % (idx, i, o["prev"], d[inner]), "tie": True})
            if o["added"] not in ("!", "~"):
                # exactly one new entry, the old ones untouched and in their order (WHERE the new one goes is not the property's business)
                got_ = parse_entries(unhx(o["added"]))
                if [e_ for e_ in got_ if e_ != (inner, v)] != ents or got_.count((inner, v)) != 1 + ents.count((inner, v)):
                    fails.append({"msg": "frame %d: adding an entry did not add exactly one entry and keep the others in place" % idx})
            if inner in d and o["updated"] not in ("!", "~"):
                exp = [(a, v if a == inner else b_) for a, b_ in ents]
                if parse_entries(unhx(o["updated"])) != exp:
                    fails.append({"msg": "frame %d: rewriting %r did not change exactly that entry" % (idx, i)})
        return fails

    def gen(self, rng, tier):
        n = 300 if tier == "quick" else 5000
        cases = []
        for i in range(n):
            r = rng.fork()
            collide = r.chance(1, 12)
            cfg = [G.op_newconfig(dir=b"def", upd=True)] if r.chance(1, 3) else []
            h = 1 if cfg else 0
            prog = G.gen_program(r, ntests=(1, 4), maxcalls=12, collide=collide, handles=(h,),
                                 apis=("snap", "snap", "json", "yaml"))
            # add standalone calls
            prog = [(t, hh, calls + ([G.op_match_doc("stand", hh, t, stand_value(r))] if r.chance(1, 3) else [])
                     + ([G.op_match_doc("standjson", hh, t, r.choice(G.JSON_DOCS))] if r.chance(1, 4) else [])) for t, hh, calls in prog]
            if r.chance(1, 6):
                # bulky entries: the file spans several 4096-byte scanner windows, entries straddle the window boundaries
                def bulk(c):
                    if c["api"] != "snap":
                        return c
                    txt = b"\n".join(bytes([97 + r.below(26)]) * r.range(20, 90) for _ in range(r.range(8, 60)))
                    return dict(c, values=[hx(txt)])
                prog = [(t, hh, [bulk(c) for c in calls]) for t, hh, calls in prog]
            elif r.chance(1, 6):
                # very LONG LINES (at and beyond 4096 bytes, a scanner's / reader's default buffer): a neighbour's long line must
                # survive a rewrite in one piece, and an old body made of one long run of dashes must leave no residue
                def longline(c):
                    if c["api"] != "snap" or not r.chance(1, 2):
                        return c
                    n_ = r.choice([4095, 4096, 4097, 4099, 5000, 8192, 70000])
                    ch = r.choice([b"x", b"-", b"ab", b" "])
                    line = (ch * n_)[:n_]
                    txt = r.choice([line, b"head\n" + line + b"\ntail", line + b"\nold tail", b"a\n" + line])
                    return dict(c, values=[hx(txt)])
                prog = [(t, hh, [longline(c) for c in calls]) for t, hh, calls in prog]
            prog2 = G.mutate_program(r, prog, frac=r.choice([(0, 1), (1, 4), (1, 2), (1, 1)]), collide=collide)
            # standalone values are not touched by mutate_program's generator for non-multi apis: mutate by hand
            prog2 = [(t, hh, [dict(c, doc=hx(stand_value(r))) if c["api"] == "stand" and r.chance(1, 2) else c for c in calls]) for t, hh, calls in prog2]
            p1 = cfg + G.run_program(r, prog, 1)
            p2 = cfg + ([] if cfg else [G.op_setenv(False, "true")]) + G.run_program(r, prog2, 1)
            renv = r.choice([(True, "unset"), (False, "unset"), (False, "other"), (True, "true")])
            p3 = [G.op_newconfig(dir=b"def")] if cfg else []
            p3 += [G.op_setenv(renv[0], renv[1])] + G.run_program(r, prog2, 1)
            ops = p1 + [{"op": "dumpfs"}, {"op": "newprocess"}] + p2 + [{"op": "dumpfs"}, {"op": "newprocess"}] + p3 + [{"op": "dumpfs"}]
            cases.append({"ci": False, "updvar": "unset", "colour": False, "ops": ops, "meta": {"collide": collide}})
        return cases + self.frame_cases(rng.fork(), tier)

    def oracle(self, case, ops, results):
        if case["meta"].get("frame"):
            return self.frame_oracle(ops, results)
        obs = [r for r in results if r[0] == "obs"]
        fss = [r for r in results if r[0] == "fs"]
        opl = [o for o in ops if o[0] not in ("init", "dumpfs", "counters")]
        if len(opl) != len(obs) or len(fss) != 3:
            return self.skip("guard")
        procs, cur = [], []
        for (name, kv), (_, idx, o) in zip(opl, obs):
            if name == "newprocess":
                procs.append(cur)
                cur = []
            else:
                cur.append((name, kv, idx, o))
        procs.append(cur)
        if len(procs) != 3:
            return self.skip("guard")
        p1, p2, p3 = procs
        if per_test_calls(p1).keys() != per_test_calls(p2).keys() or per_test_calls(p2) != per_test_calls(p3):
            return self.skip("guard")
        m1 = [x for x in p1 if x[0] == "match"]
        m2 = [x for x in p2 if x[0] == "match"]
        upd_on = any((n == "setenv" and kv["upd"] == "true" and kv["ci"] == "0") or (n == "newconfig" and kv["upd"] == "1") for n, kv, _, _ in p2)
        if not upd_on or per_test_calls(p1).keys() != per_test_calls(p2).keys() or \
                any(len(per_test_calls(p1)[t]) != len(per_test_calls(p2)[t]) for t in per_test_calls(p1)):
            return self.skip("guard")
        if not m1 or not all(x[3]["outcome"] == "added" for x in m1):
            return self.skip("guard")
        fails = []
        # per-test positional comparison of values between process 1 and process 2
        v1 = per_test_calls(p1)
        seen = {}
        for name, kv, idx, o in m2:
            k = seen.get(kv["test"], 0)
            seen[kv["test"]] = k + 1
            old = v1.get(kv["test"], [])
            if k >= len(old) or not kv["pre"].startswith("ok:"):
                continue
            same = old[k][2] == kv["pre"]
            if same and "value" in (old[k][3], kv.get("form", "")) and old[k][3] != kv.get("form", ""):
                # one call handed a Go VALUE, the other the text: that they format identically is C14's first sentence (and rests on
                # what "standard JSON encoding" means for `<`, `>`, `&`), not something this property says - not judged here
                continue
            if same and (o["outcome"] != "passed" or o["writes"] != "-" or o.get("touched", "-") != "-"):
                fails.append({"msg": "obs %d: unchanged value under update mode: outcome=%s writes=%s" % (idx, o["outcome"], o["writes"])})
            if not same and o["outcome"] != "updated":
                fails.append({"msg": "obs %d: changed value under update mode: outcome=%s" % (idx, o["outcome"])})
        # entries not addressed with a changed value are byte-identical and in place
        main = hx(b"/S/def/zz_verif_trace_test.snap")
        e1 = parse_entries(unhx(fss[0][2].get(main, "-")))
        e2 = parse_entries(unhx(fss[1][2].get(main, "-")))
        if [i for i, _ in e1] != [i for i, _ in e2]:
            fails.append({"msg": "update run changed the sequence of entries: %s -> %s" % ([i for i, _ in e1], [i for i, _ in e2])})
        # read-only follow-up: all pass, nothing written
        ro = any(n == "setenv" and (kv["upd"] != "true" or kv["ci"] == "1") for n, kv, _, _ in p3) and \
            not any(n == "newconfig" and kv["upd"] == "1" for n, kv, _, _ in p3)
        if not ro:
            return fails
        for name, kv, idx, o in p3:
            if name == "match" and kv["pre"].startswith("ok:"):
                if o["outcome"] != "passed" or o["errors"] != "0" or o["logs"] != "-" or o["writes"] != "-" or o.get("touched", "-") != "-":
                    fails.append({"msg": "read-only follow-up obs %d: outcome=%s writes=%s" % (idx, o["outcome"], o["writes"])})
        if fss[1][2] != fss[2][2]:
            fails.append({"msg": "read-only follow-up changed the directory"})
        return fails

    def known_signature(self, finding, case, ops, results, failure):
        return finding["id"] == "K2" and header_collision(ops, failure)

    def nontrivial(self, case, ops, results):
        return any(r[0] == "obs" and r[2]["outcome"] == "updated" for r in results)

    def stats(self, case, ops, results, dist):
        for r in results:
            if r[0] == "obs" and r[2]["outcome"] != "nocall":
                dist["outcome:" + r[2]["outcome"].split(":")[0]] += 1
        for n, kv in ops:
            if n == "match":
                dist["api:" + kv["api"]] += 1
            if n == "frame":
                dist["frame_triples"] += 1
        for r in results:
            if r[0] == "frame":
                dist["frame:prev=" + ("none" if r[2]["prev"] == "~" else "some")] += 1


PROP = C04()
