"""C04 - update mode converges and rewrites only what differs."""
from runner import Prop
from common import hx, unhx
import gen as G
from C01 import header_collision, per_test_calls
from C09 import parse_entries


class C04(Prop):
    pid = "C04"
    rule = ("update-mode histories: process 1 records a program (1-4 tests, 1-12 calls, all five entry points incl. standalone), "
            "process 2 runs with updating enabled (UPDATE_SNAPS=true or Update(true)) and a random subset of values changed "
            "(shorter, longer, empty, multi-line, terminator-like), process 3 replays read-only; the oracle checks: exactly the changed "
            "slots were rewritten to the new values, unchanged calls wrote nothing (mtime pinned), all other entries byte-identical "
            "and in place, the read-only run passes silently with no write; non-trivial = at least one update happened")
    outside_model = "value formatting is input"
    trusted = []

    def gen(self, rng, tier):
        n = 300 if tier == "quick" else 5000
        cases = []
        for i in range(n):
            r = rng.fork()
            collide = r.chance(1, 12)
            cfg = [G.op_newconfig(dir=b"def", upd=True)] if r.chance(1, 3) else []
            h = 1 if cfg else 0
            prog = G.gen_program(r, ntests=(1, 4), maxcalls=12, collide=collide, handles=(h,),
                                 apis=("snap", "snap", "json", "yaml"))
            # add standalone calls
            prog = [(t, hh, calls + ([G.op_match_doc("stand", hh, t, G.gen_text(r))] if r.chance(1, 3) else [])
                     + ([G.op_match_doc("standjson", hh, t, r.choice(G.JSON_DOCS))] if r.chance(1, 4) else [])) for t, hh, calls in prog]
            prog2 = G.mutate_program(r, prog, frac=r.choice([(0, 1), (1, 4), (1, 2), (1, 1)]), collide=collide)
            # standalone values are not touched by mutate_program's generator for non-multi apis: mutate by hand
            prog2 = [(t, hh, [dict(c, doc=hx(G.gen_text(r))) if c["api"] == "stand" and r.chance(1, 2) else c for c in calls]) for t, hh, calls in prog2]
            p1 = cfg + G.run_program(r, prog, 1)
            p2 = cfg + ([] if cfg else [G.op_setenv(False, "true")]) + G.run_program(r, prog2, 1)
            renv = r.choice([(True, "unset"), (False, "unset"), (False, "other"), (True, "true")])
            p3 = [G.op_newconfig(dir=b"def")] if cfg else []
            p3 += [G.op_setenv(renv[0], renv[1])] + G.run_program(r, prog2, 1)
            ops = p1 + [{"op": "dumpfs"}, {"op": "newprocess"}] + p2 + [{"op": "dumpfs"}, {"op": "newprocess"}] + p3 + [{"op": "dumpfs"}]
            cases.append({"ci": False, "updvar": "unset", "colour": False, "ops": ops, "meta": {"collide": collide}})
        return cases

    def oracle(self, case, ops, results):
        obs = [r for r in results if r[0] == "obs"]
        fss = [r for r in results if r[0] == "fs"]
        opl = [o for o in ops if o[0] not in ("init", "dumpfs", "counters")]
        if len(opl) != len(obs) or len(fss) != 3:
            return []
        procs, cur = [], []
        for (name, kv), (_, idx, o) in zip(opl, obs):
            if name == "newprocess":
                procs.append(cur)
                cur = []
            else:
                cur.append((name, kv, idx, o))
        procs.append(cur)
        if len(procs) != 3:
            return []
        p1, p2, p3 = procs
        if per_test_calls(p1).keys() != per_test_calls(p2).keys() or per_test_calls(p2) != per_test_calls(p3):
            return []
        m1 = [x for x in p1 if x[0] == "match"]
        m2 = [x for x in p2 if x[0] == "match"]
        upd_on = any((n == "setenv" and kv["upd"] == "true" and kv["ci"] == "0") or (n == "newconfig" and kv["upd"] == "1") for n, kv, _, _ in p2)
        if not upd_on or per_test_calls(p1).keys() != per_test_calls(p2).keys() or \
                any(len(per_test_calls(p1)[t]) != len(per_test_calls(p2)[t]) for t in per_test_calls(p1)):
            return []
        if not m1 or not all(x[3]["outcome"] == "added" for x in m1):
            return []
        fails = []
        # per-test positional comparison of values between process 1 and process 2
        v1 = per_test_calls(p1)
        seen = {}
        for name, kv, idx, o in m2:
            k = seen.get(kv["test"], 0)
            seen[kv["test"]] = k + 1
            old = v1.get(kv["test"], [])
            if k >= len(old) or not kv["pre"].startswith("ok:"):
                continue
            same = old[k][2] == kv["pre"]
            if same and (o["outcome"] != "passed" or o["writes"] != "-"):
                fails.append({"msg": "obs %d: unchanged value under update mode: outcome=%s writes=%s" % (idx, o["outcome"], o["writes"])})
            if not same and o["outcome"] != "updated":
                fails.append({"msg": "obs %d: changed value under update mode: outcome=%s" % (idx, o["outcome"])})
        # entries not addressed with a changed value are byte-identical and in place
        main = hx(b"/S/def/zz_verif_trace_test.snap")
        e1 = parse_entries(unhx(fss[0][2].get(main, "-")))
        e2 = parse_entries(unhx(fss[1][2].get(main, "-")))
        if [i for i, _ in e1] != [i for i, _ in e2]:
            fails.append({"msg": "update run changed the sequence of entries: %s -> %s" % ([i for i, _ in e1], [i for i, _ in e2])})
        # read-only follow-up: all pass, nothing written
        ro = any(n == "setenv" and (kv["upd"] != "true" or kv["ci"] == "1") for n, kv, _, _ in p3) and \
            not any(n == "newconfig" and kv["upd"] == "1" for n, kv, _, _ in p3)
        if not ro:
            return fails
        for name, kv, idx, o in p3:
            if name == "match" and kv["pre"].startswith("ok:"):
                if o["outcome"] != "passed" or o["errors"] != "0" or o["logs"] != "-" or o["writes"] != "-":
                    fails.append({"msg": "read-only follow-up obs %d: outcome=%s writes=%s" % (idx, o["outcome"], o["writes"])})
        if fss[1][2] != fss[2][2]:
            fails.append({"msg": "read-only follow-up changed the directory"})
        return fails

    def known_signature(self, finding, case, ops, results, failure):
        return finding["id"] == "K2" and header_collision(ops)

    def nontrivial(self, case, ops, results):
        return any(r[0] == "obs" and r[2]["outcome"] == "updated" for r in results)

    def stats(self, case, ops, results, dist):
        for r in results:
            if r[0] == "obs" and r[2]["outcome"] != "nocall":
                dist["outcome:" + r[2]["outcome"].split(":")[0]] += 1
        for n, kv in ops:
            if n == "match":
                dist["api:" + kv["api"]] += 1


PROP = C04()
