"""C10 - Clean rewrites preserve content; sorting is an idempotent permutation."""
import re
from runner import Prop
from common import hx, unhx
import gen as G
from C09 import CleanBase, parse_entries, frame, CLEAN_FIELDS, env_at_clean


nat_less = G.nat_less


def overflowing(i):
    """the id holds a numeral that does not fit 64 bits"""
    return any(int(m) >= 2 ** 64 for m in re.findall(rb"\d+", i))


class C10(CleanBase):
    pid = "C10"
    fields = dict(CleanBase.fields, natural="*", testid="*", clean=CLEAN_FIELDS + ["touched"])
    rule = ("well-formed snapshot files (ids of mixed numeric width such as TestC9/TestC10 and - 1..- 12 ordinals, any order, bodies "
            "with blank, terminator-like and bracketed lines) x subsets of stale entries x sort on/off x modes, Clean run twice; "
            "plus direct comparisons of the natural comparator / sort / sortedness test and header recognition on generated ids; "
            "the oracle checks per-entry bodies before/after, no drop/duplication, natural order (independent comparator), "
            "no-op files unwritten and idempotence; non-trivial = the file was rewritten at least once")
    outside_model = "slices.SortFunc (pdqsort): modelled as 'a correct sort'; exact order is compared only where the natural order is total (no leading-zero numerals)"
    trusted = []

    def gen(self, rng, tier):
        n = 300 if tier == "quick" else 5000
        cases = []
        for i in range(n):
            r = rng.fork()
            setup, run, info = self.gen_tree(r, sort_names=True)
            ci, upd = r.choice([(False, "unset"), (False, "true"), (False, "clean"), (False, "other"), (True, "clean")])
            sort = r.chance(2, 3)
            colour = r.chance(1, 3)      # Clean prints its summary with ANSI colours
            ops = setup + run + [G.op_setenv(ci, upd), {"op": "dumpfs"}, {"op": "clean", "sort": sort, "count": info["count"], "colour": colour}, {"op": "dumpfs"},
                                 {"op": "clean", "sort": sort, "count": info["count"], "colour": colour}, {"op": "dumpfs"}]
            # comparator / header recognition probes
            ids = [b"%s - %d" % (r.choice([b"TestA", b"TestC9", b"TestC10", b"TestC/x_2", b"TestC/x_10", b"Test", b"TestB/sub"]), r.choice([1, 2, 9, 10, 11, 100]))
                   for _ in range(r.range(2, 6))]
            if r.chance(1, 4):
                ids.append(r.choice([b"Test007 - 1", b"Test7 - 1", b"Test18446744073709551616 - 1", b"Test18446744073709551615 - 2", b"TestA - 01"]))
            ops.append({"op": "natural", "values": [hx(x) for x in ids]})
            ops.append({"op": "testid", "doc": hx(r.choice([b"[TestA - 1]", b"[TestA - ]", b"[Test - 12]", b"[FuzzX - 1]", b"[TestA - x - 1]", b"[TestA - 1] ", b"TestA - 1]",
                                                             b"[TestA - 1", b"[Test]", b"[TestA/b - c - 3]", b"[]", b"", b"[TestA - 1]]", b"[TestA -  2]"]))})
            cases.append({"ci": False, "updvar": "unset", "colour": False, "ops": ops,
                          "meta": {"mode": "ci=%s upd=%s sort=%s" % (ci, upd, sort), "ci": ci, "upd": upd, "sort": sort}})
        # an addressed file that ENDS IN AN UNTERMINATED ENTRY and is examined BEFORE the default file: the rewrite of the files
        # that follow must hold their own entries only (nothing read from the first file may reach them)
        for i in range(n // 6):
            r = rng.fork()
            setup, run, info = self.gen_tree(r, sort_names=False)
            tail = r.choice([b"left over line", b"stale line\nsecond stale line", b"[quoted - 1]\ntext"])
            first = frame(b"TestFirst - 1", b"f1") + b"\n[TestFirst - 2]\n" + tail + r.choice([b"\n", b""])
            cfg = [G.op_putfile(b"def/aaa_first.snap", first), G.op_newconfig(dir=b"def", fn=b"aaa_first")]
            extra = []
            for _ in range(info["count"]):
                extra += [G.op_match_snap(1, b"TestFirst", [b"f1"]), G.op_end(b"TestFirst")]
            ci, upd = r.choice([(False, "unset"), (False, "true"), (False, "clean"), (True, "clean")])
            sort = r.chance(3, 4)
            ops = setup + cfg + run + extra + [G.op_setenv(ci, upd), {"op": "dumpfs"}, {"op": "clean", "sort": sort, "count": info["count"], "colour": False}, {"op": "dumpfs"},
                                               {"op": "clean", "sort": sort, "count": info["count"], "colour": False}, {"op": "dumpfs"}]
            cases.append({"ci": False, "updvar": "unset", "colour": False, "ops": ops,
                          "meta": {"mode": "unterminated-first", "ci": ci, "upd": upd, "sort": sort}})
        # large files (>= 13 entries: slices.SortFunc leaves its insertion-sort regime) whose ids hold numerals that do
        # not fit uint64 (natural.Less falls back to byte order there and the order has cycles). Outside the model's
        # domain (sort_nat stands for "a correct sort" only where the order is total): decided by the oracle alone.
        for i in range(n // 10):
            r = rng.fork()
            big = [b"18446744073709551616", b"18446744073709551617", b"99999999999999999999999"]
            toks = [b"0", b"1", b"2", b"9", b"a", b"b", b"x", b"01", b"10", b"007", b"/"] + big
            ids = set()
            while len(ids) < r.range(13, 40):
                ids.add(b"Test" + b"".join(r.choice(toks) for _ in range(r.range(1, 4))) + b" - %d" % r.range(1, 12))
            ids = r.shuffle(sorted(ids))
            content = b"".join(frame(i_, b"v") for i_ in ids)
            # every entry is addressed by one passing call
            calls = []
            byname = {}
            for i_ in ids:
                t_, k_ = i_.rsplit(b" - ", 1)
                byname.setdefault(t_, []).append(int(k_))
            setup = [G.op_putfile(b"def/zz_verif_trace_test.snap", content)]
            for t_, ks in byname.items():
                for _k in range(max(ks)):
                    calls.append(G.op_match_snap(0, t_, [b"v"]))
                calls.append(G.op_end(t_))
            ops = setup + calls + [G.op_setenv(False, "unset"), {"op": "dumpfs"}, {"op": "clean", "sort": True, "count": 1}, {"op": "dumpfs"},
                                   {"op": "clean", "sort": True, "count": 1}, {"op": "dumpfs"}]
            cases.append({"ci": False, "updvar": "unset", "colour": False, "ops": ops,
                          "meta": {"mode": "bigfile", "ci": False, "upd": "unset", "sort": True, "oracle_only": True, "bigfile": True}})
        return cases

    def oracle(self, case, ops, results):
        meta = case["meta"]
        fss = [r for r in results if r[0] == "fs"]
        cl = [r for r in results if r[0] == "clean"]
        fails = []
        # natural comparator vs independent implementation
        for (name, kv), r_ in zip([o for o in ops if o[0] == "natural"], [r for r in results if r[0] == "natural"]):
            ids = [unhx(x) for x in kv["ids"].split(",")] if kv["ids"] != "~" else []
            # (pairs with a numeral of 2^64 or more are not judged: there "natural order" is whatever the comparator falls
            # back to - see K11 - and a repaired comparator may order them numerically)
            bits, judged = "", ""
            for i in range(len(ids)):
                for j in range(i, len(ids)):
                    bits += "1" if nat_less(ids[i], ids[j]) else "0"
                    bits += "1" if nat_less(ids[j], ids[i]) else "0"
                    judged += "00" if (overflowing(ids[i]) or overflowing(ids[j])) else "11"
            got = r_[2]["less"]
            if got != "*" and (len(got) != len(bits or "-") or any(g != b_ for g, b_, m_ in zip(got, bits, judged) if m_ == "1")):
                fails.append({"msg": "natural.Less disagrees with the independent comparator on %s" % ids})
        if len(fss) < 3 or len(cl) < 2 or "sort" not in meta:
            return fails
        main = hx(b"/S/def/zz_verif_trace_test.snap")
        b0, b1, b2 = fss[0][2], fss[1][2], fss[2][2]
        if main not in b0 or not any(n == "match" and kv["api"] == "snap" and kv["h"] == "0" for n, kv in ops):
            return fails
        e0, e1 = parse_entries(unhx(b0[main])), parse_entries(unhx(b1.get(main, "-")))
        stale = [] if cl[0][2]["otests"] == "~" else [unhx(x) for x in cl[0][2]["otests"].split(",")]
        ci_, upd_ = env_at_clean(case, ops)
        sort_ = next((kv["sort"] == "1" for name, kv in ops if name == "clean"), False)
        deletes = (not ci_) and upd_ in ("true", "clean")
        cnt = next((int(kv["count"]) for name, kv in ops if name == "clean"), 1)
        percall = {}
        for name, kv in ops:
            if name == "clean":
                break
            if name == "match" and kv["api"] == "snap" and kv["h"] == "0":
                percall[kv["test"]] = percall.get(kv["test"], 0) + 1
        main_live = set(unhx(t) + b" - %d" % k for t, n_ in percall.items() for k in range(1, n_ // cnt + 1))
        stale = [i for i in stale if i not in main_live]      # a same-named stale entry may live in another file
        keep = [(i, b) for i, b in e0 if not (deletes and i in stale)]
        if sorted(e1) != sorted(keep):
            fails.append({"msg": "entries after Clean differ from the surviving entries: before %s, after %s" % ([i for i, _ in e0], [i for i, _ in e1])})
        rewritten = b1.get(main) != b0[main]
        sorting = sort_ and not ci_
        if sorting:
            ids1 = [i for i, _ in e1]
            for x, y in zip(ids1, ids1[1:]):
                if x != y and nat_less(y, x) and not overflowing(x) and not overflowing(y):
                    fails.append({"msg": "after sorting %r precedes %r" % (x, y)})
                    break
        needs_prune = deletes and bool(stale)
        ids0 = [i for i, _ in e0]
        unsorted = any(x != y and nat_less(y, x) for x, y in zip(ids0, ids0[1:]))
        if not needs_prune and not (sorting and (unsorted or any(overflowing(i) for i in ids0))):
            if ("mod:" + main) in cl[0][2]["writes"] or main in cl[0][2].get("touched", "-").split(","):
                fails.append({"msg": "file needing neither pruning nor sorting was written: %s" % cl[0][2]["writes"]})
        # the second addressed file (Config with Filename, gen_tree): the same content rule, judged on its own - its stale
        # entries may carry the id of a live entry of the default file, and nothing of another file may appear in it
        cfg0 = next((kv for n_, kv in ops if n_ == "newconfig"), None)
        if cfg0 and cfg0.get("fn", "~") not in ("~", "-") and G.unhx_s(cfg0["fn"]) in ("aaa_second", "zzz_second"):
            sec = hx(b"/S/def/" + G.unhx_s(cfg0["fn"]).encode("latin-1") + b".snap")
            n2 = 0
            for name, kv in ops:
                if name == "clean":
                    break
                if name == "match" and kv["api"] == "snap" and kv["h"] == "1" and kv["test"] == hx(b"TestSecond"):
                    n2 += 1
            if sec in b0 and n2 >= cnt and n2 % cnt == 0:
                s0, s1 = parse_entries(unhx(b0[sec])), parse_entries(unhx(b1.get(sec, "-")))
                live2 = set(b"TestSecond - %d" % k for k in range(1, n2 // cnt + 1))
                keep2 = [(i, b) for i, b in s0 if not (deletes and i not in live2)]
                if sorted(s1) != sorted(keep2):
                    fails.append({"msg": "second file: entries after Clean differ from the surviving entries: before %s, after %s" % (s0, s1)})
        # idempotence
        if b2 != b1 or cl[1][2]["writes"] != "-":
            fails.append({"msg": "second Clean changed something: writes=%s" % cl[1][2]["writes"]})
        return fails

    def known_signature(self, finding, case, ops, results, failure):
        if finding["id"] == "K11" and "second Clean changed something" in failure["msg"]:
            fss = [r for r in results if r[0] == "fs"]
            main = hx(b"/S/def/zz_verif_trace_test.snap")
            if not fss or main not in fss[0][2] or not any(kv.get("sort") == "1" for n_, kv in ops if n_ == "clean"):
                return False
            ids = [i for i, _ in parse_entries(unhx(fss[0][2][main]))]
            return len(ids) >= 13 and any(overflowing(i) for i in ids)
        return False

    def nontrivial(self, case, ops, results):
        return any(r[0] == "clean" and "mod:" in r[2].get("writes", "") for r in results)


PROP = C10()
