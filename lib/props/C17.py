"""C17 - matcher failures fail the test and write nothing."""
from runner import Prop
import common, re
from common import hx, unhx
import gen as G


class C17(Prop):
    pid = "C17"
    rule = ("JSON / YAML / standalone-JSON calls with mixes of satisfiable and failing matchers (missing path, wrong type, "
            "callback error, ErrOnMissingPath(false)) in every order, in every mode (create allowed, update enabled, CI), "
            "on missing and existing entries, each followed by a good call of the same test; distinct = distinct op list; "
            "non-trivial = at least one call failed in its matchers")
    outside_model = "error texts produced by gjson/sjson/go-yaml (compared as kinds only); YAML path evaluation"
    trusted = []

    def gen(self, rng, tier):
        n = 400 if tier == "quick" else 6000
        cases = []
        for i in range(n):
            r = rng.fork()
            api = r.choice(["json", "json", "standjson", "yaml"])
            doc, good, bad = r.choice(G.DOC_WITH_PATHS)
            test = r.choice(G.TEST_NAMES)
            fail = r.choice([None, "missing", "missing2", "type", "custom", "mixed", "mixed", "nulltype"])
            ms = G.gen_matchers(r, good, bad, fail)
            if api == "yaml":
                doc = b"user:\n  name: n\n  age: 3\ntags:\n  - x\n  - y\ntime: t\nok: true\n"
                good_y = ["$.user.name", "$.user.age", "$.tags[0]", "$.time", "$.ok"]
                bad_y = ["$.missing", "$.user.nope"]
                ms = []
                ytypes = {"$.user.name": "string", "$.user.age": "uint64", "$.tags[0]": "string", "$.time": "string", "$.ok": "bool"}
                for pth in r.shuffle(list(good_y))[: r.range(1, 3)]:      # distinct paths: matchers apply left to right
                    kind = r.choice(["any", "custom", "type"])
                    ms.append({"kind": kind, "paths": [pth], "ret": '"<c>"', "type": ytypes[pth]})
                if fail:
                    f = fail if fail != "mixed" else r.choice(["missing", "missing2", "custom", "type", "badpath"])
                    if f == "missing":
                        bm = {"kind": r.choice(["any", "type", "custom"]), "paths": [r.choice(bad_y)], "type": "string", "ret": '"<c>"'}
                    elif f == "missing2":
                        bm = {"kind": r.choice(["any", "type"]), "paths": list(bad_y), "type": "string", "expect_named": list(bad_y)}
                        if bm["kind"] == "type" and r.chance(1, 2):
                            free = [q for q in good_y if q not in {m_["paths"][0] for m_ in ms}]
                            if free:
                                q = free[0]
                                bm = {"kind": "type", "type": "bool" if ytypes[q] != "bool" else "string", "paths": [q, bad_y[0]], "expect_named": [q, bad_y[0]]}
                    elif f == "badpath":
                        # a path the YAML path parser rejects
                        bm = {"kind": r.choice(["any", "type", "custom"]), "paths": [r.choice(["$..[", "$.tags[x]"])], "type": "string", "ret": '"<c>"'}   # (not `user.name`: whether a missing `$.` is an error is the path syntax's business)
                    elif f in ("type", "nulltype"):
                        # a value of the wrong type for Type, at a path no other matcher rewrites first
                        used = {m_["paths"][0] for m_ in ms}
                        pth = r.choice([q for q in good_y if q not in used] or good_y)
                        ms = [m_ for m_ in ms if m_["paths"][0] != pth]
                        bm = {"kind": "type", "paths": [pth], "type": "bool" if ytypes[pth] != "bool" else "string"}
                    else:
                        bm = {"kind": "custom", "paths": [r.choice(good_y)], "err": True}
                    ms.insert(r.below(len(ms) + 1), bm)
                elif r.chance(1, 3):
                    # a TOLERATED missing path (ErrOnMissingPath(false)), every matcher kind: ignored, the rest proceeds normally
                    ms.insert(r.below(len(ms) + 1), {"kind": r.choice(["any", "type", "custom"]), "paths": [r.choice(bad_y)], "type": "string",
                                                      "ret": '"<c>"', "errOnMissing": False, "stmt": r.chance(1, 2)})
            env = r.choice(G.ENVS)
            upd = r.choice([None, None, True, False])
            ops = [G.op_newconfig(dir=b"d", upd=upd)]
            pre_exists = r.chance(1, 2)
            good_ms = [{"kind": "any", "paths": [good_y[0] if api == "yaml" else good[0]]}] if r.chance(1, 2) else []
            call_bad = G.op_match_doc(api, 1, test, doc, r.choice(["string", "bytes"]), ms)
            call_good = G.op_match_doc(api, 1, test, doc, "string", good_ms)
            if pre_exists:
                ops += [call_good, call_good, G.op_end(test), {"op": "newprocess"}, G.op_newconfig(dir=b"d", upd=upd)]
            # re-execution variant: the execution whose ONLY call failed ends, the test runs again in the same process
            # (go test -count=2 / a retry wrapper): the good call is then call #1 of a new execution
            reexec = r.chance(1, 4)
            mid = [G.op_end(test)] if reexec else []
            ops += [G.op_setenv(env[0], env[1]), {"op": "dumpfs"}, call_bad, {"op": "dumpfs"}] + mid + [call_good, G.op_end(test), {"op": "dumpfs"}]
            cases.append({"ci": False, "updvar": "unset", "colour": False, "ops": ops, "meta": {"fail": fail, "api": api, "pre": pre_exists, "reexec": reexec}})
        return cases

    def oracle(self, case, ops, results):
        obs = [r for r in results if r[0] == "obs"]
        fss = [r for r in results if r[0] == "fs"]
        op_with_obs = [o for o in ops if o[0] not in ("init", "dumpfs", "counters")]
        if len(op_with_obs) != len(obs) or len(fss) != 3:
            return self.skip("guard")
        seq = [(n, kv, idx, o) for (n, kv), (_, idx, o) in zip(op_with_obs, obs)]
        ms = [x for x in seq if x[0] == "match"]
        if len(ms) < 2:
            return self.skip("guard")
        bad, good = ms[-2], ms[-1]
        fails = []
        if bad[3]["outcome"] == "nocall" or good[3]["outcome"] == "nocall":
            return self.skip("guard")
        # independent expectation: the generator knows which matcher sets must fail
        want_fail = case["meta"].get("fail") is not None
        if want_fail and bad[1]["pre"] != "matcherr":
            fails.append({"msg": "obs %d: a failing matcher (%s) was not reported: pre=%s outcome=%s"
                          % (bad[2], case["meta"].get("fail"), bad[1]["pre"][:20], bad[3]["outcome"])})
        if not want_fail and bad[1]["pre"] == "matcherr":
            fails.append({"msg": "obs %d: satisfiable matchers reported a failure" % bad[2]})
        if bad[1]["pre"] == "matcherr" and bad[3].get("etext", "-") != "-":
            # "one failure that names every failing matcher and path": the paths the generator knows to fail
            raw_bad = [o_ for o_ in case["ops"] if o_.get("op") == "match" and o_.get("matchers")]
            text = unhx(bad[3]["etext"])
            if raw_bad:
                known_bad = ("missing", "user.nope", "tags.7", "2", "0.z", "k.dot", "nope", "$.missing", "$.user.nope", "user.name", "$..[", "$.tags[x]")
                for m_ in raw_bad[0]["matchers"]:
                    for pth in m_["paths"]:
                        must = (pth in known_bad and m_.get("errOnMissing", True) is not False and not (pth == "user.name" and case["meta"].get("api") != "yaml")) or m_.get("err") or pth in m_.get("expect_named", [])
                        # (named literally or in Go string syntax)
                        if must and pth.encode() not in text and pth.replace("\\", "\\\\").replace('"', '\\"').encode() not in text:
                            f_ = {"msg": "obs %d: the failure does not name the failing path %s" % (bad[2], pth)}
                            # the path in another NOTATION (a JSON pointer /1/a for 1.a, $.a.b for a.b): its components, in order,
                            # separated by punctuation - a matter of wording, reported as a broken tie (the model prints the caller's
                            # own spelling)
                            comps = [c_ for c_ in re.split(r"[.\[\]/$\\\"']+", pth) if c_]
                            if comps and re.search(rb"[^A-Za-z0-9_]+".join(re.escape(c_.encode()) for c_ in comps), text):
                                f_["tie"] = True
                            fails.append(f_)
        if bad[1]["pre"] in ("matcherr", "invalid"):
            o = bad[3]
            if not o["outcome"].startswith("failed:") or o["errors"] != "1" or o["writes"] != "-" or fss[0][2] != fss[1][2]:
                fails.append({"msg": "obs %d: matchers failed but outcome=%s errors=%s writes=%s dir-changed=%s"
                              % (bad[2], o["outcome"], o["errors"], o["writes"], fss[0][2] != fss[1][2])})
            # the following good call must address slot/file 2 of this execution (slot/file 1 of the NEXT execution when the
            # test ended in between)
            ended_between = any(x[0] == "endtest" for x in seq[seq.index(bad) + 1: seq.index(good)])
            k_ = b"1" if ended_between else b"2"
            og = good[3]
            if og["outcome"] in ("added", "updated"):
                after = fss[2][2]
                if case["meta"]["api"] == "standjson":
                    if not any(unhx(p).endswith(b"_" + k_ + b".snap.json") for p in after if after[p] != fss[1][2].get(p)):
                        fails.append({"msg": "obs %d: the call after a failing one did not write file %s" % (good[2], k_.decode())})
                else:
                    changed = [p for p in after if after[p] != fss[1][2].get(p)]
                    want = b"[" + unhx(good[1]["test"]) + b" - " + k_ + b"]"
                    if not any(want in unhx(after[p]) for p in changed):
                        fails.append({"msg": "obs %d: the call after a failing one did not write slot %s" % (good[2], k_.decode())})
            elif case["meta"]["pre"] and og["outcome"] != "passed" and not common.kind_may_be(og["outcome"], "notfound"):
                fails.append({"msg": "obs %d: the call after a failing one lost its slot: %s" % (good[2], og["outcome"])})
        return fails

    def nontrivial(self, case, ops, results):
        return any(kv.get("pre") == "matcherr" for n, kv in ops if n == "match")

    def stats(self, case, ops, results, dist):
        dist["fail:%s" % case["meta"].get("fail")] += 1
        dist["api:%s" % case["meta"].get("api")] += 1
        for n, kv in ops:
            if n == "match":
                dist["pre:" + kv["pre"].split(":")[0]] += 1


PROP = C17()
