"""C07 - Clean never discards a snapshot that was matched in this run."""
from runner import Prop
from common import hx, unhx
import gen as G
from C09 import CleanBase, parse_entries, frame


class C07(CleanBase):
    pid = "C07"
    rule = ("test programs (1-4 tests incl. subtests and non-Test names such as fuzz seeds, 1-3 Match*/standalone calls each, "
            "custom Filename/Ext configs) executed -count 1-3 times over directories with stale items, followed by Clean in every "
            "mode x sort; the oracle requires every addressed slot/file to hold the same value after Clean and to be absent from the "
            "obsolete lists; non-trivial = Clean rewrote or removed something")
    outside_model = "-run patterns (C08); -count is injected through the test.count flag"
    trusted = []

    def gen(self, rng, tier):
        n = 300 if tier == "quick" else 5000
        cases = []
        for i in range(n):
            r = rng.fork()
            setup, run, info = self.gen_tree(r, sort_names=False)
            nontest = r.chance(1, 8)
            if nontest:
                t = r.choice(G.NONTEST_NAMES)
                calls = [G.op_match_snap(0, t, [b"fuzz value"])]
                run = run + calls * 1 + [G.op_end(t)]
                if info["count"] > 1:
                    run += (calls + [G.op_end(t)]) * (info["count"] - 1)
            # a second config with custom file name / extension
            cfg = [G.op_newconfig(dir=b"def", fn=r.choice([b"custom", None]), ext=r.choice([b".txt", None]))]
            t2 = r.choice([b"TestCfg", b"TestCfg/sub"])
            extra = []
            for _ in range(info["count"]):
                extra += [G.op_match_snap(1, t2, [b"v1"]), G.op_match_doc("standjson", 1, t2, b'{"a":1}'), G.op_end(t2)]
            ci, upd = r.choice(G.ENVS)
            sort = r.chance(1, 2)
            colour = r.chance(1, 3)      # Clean prints its summary with ANSI colours
            ops = setup + cfg + run + extra + [G.op_setenv(ci, upd), {"op": "dumpfs"}, {"op": "clean", "sort": sort, "count": info["count"], "colour": colour}, {"op": "dumpfs"}]
            cases.append({"ci": False, "updvar": "unset", "colour": False, "ops": ops,
                          "meta": {"mode": "ci=%s upd=%s sort=%s" % (ci, upd, sort), "nontest": nontest}})
        # an addressed file that ENDS IN AN UNTERMINATED ENTRY (truncated write, bad merge) and is examined BEFORE the default file:
        # whatever Clean read from it must not reach the files it examines (and rewrites) next
        for i in range(n // 6):
            r = rng.fork()
            setup, run, info = self.gen_tree(r, sort_names=False)
            tail = r.choice([b"left over line", b"stale line\nsecond stale line", b"[quoted - 1]\ntext"])
            first = frame(b"TestFirst - 1", b"f1") + b"\n[TestFirst - 2]\n" + tail + r.choice([b"\n", b""])
            cfg = [G.op_putfile(b"def/aaa_first.snap", first), G.op_newconfig(dir=b"def", fn=b"aaa_first")]
            extra = []
            for _ in range(info["count"]):
                extra += [G.op_match_snap(1, b"TestFirst", [b"f1"]), G.op_end(b"TestFirst")]
            ci, upd = r.choice(G.ENVS)
            sort = r.chance(3, 4)
            ops = setup + cfg + run + extra + [G.op_setenv(ci, upd), {"op": "dumpfs"}, {"op": "clean", "sort": sort, "count": info["count"], "colour": False}, {"op": "dumpfs"}]
            cases.append({"ci": False, "updvar": "unset", "colour": False, "ops": ops,
                          "meta": {"mode": "unterminated-first ci=%s upd=%s sort=%s" % (ci, upd, sort), "nontest": False}})
        # `%` in names (a format verb to the standalone path before fix F8; the model is exact for them since): whatever file the
        # standalone calls wrote must survive Clean and must not be listed
        for i in range(n // 8):
            r = rng.fork()
            t = r.choice([b"TestPct/100%", b"TestPct/%d_items", b"TestPct/a%sb", b"TestP%%"])
            cfg = G.op_newconfig(dir=b"def", fn=r.choice([None, b"f%v", b"plain"]), ext=r.choice([None, b".%x"]))
            calls = [G.op_match_doc(r.choice(["stand", "standjson"]), 1, t, b'{"a":1}') for _ in range(r.range(1, 3))]
            ci, upd = r.choice(G.ENVS)
            ops = [cfg] + calls + [G.op_end(t), G.op_setenv(ci, upd), {"op": "dumpfs"}, {"op": "clean", "sort": r.chance(1, 2), "count": 1}, {"op": "dumpfs"}]
            cases.append({"ci": False, "updvar": "unset", "colour": False, "ops": ops, "meta": {"mode": "pct"}})
        # the snapshot directory is reached through a SYMBOLIC LINK (a module below a linked path, a linked __snapshots__):
        # what the calls addressed must survive Clean and must not be listed, in every mode (no stale item exists here, so
        # nothing at all may change or be listed). Oracle only: the model's file system has no links.
        for i in range(max(6, n // 25)):
            r = rng.fork()
            link = r.choice([b"link", b"linked/pkg"])
            ops = [{"op": "symlink", "path": hx(link), "content": hx(b"real_target")},
                   G.op_newconfig(dir=link + b"/__snapshots__", fn=r.choice([None, b"suite"]), upd=True),
                   G.op_match_snap(1, b"TestLinked", [b"first"]), G.op_match_snap(1, b"TestLinked", [b"second"]),
                   G.op_match_doc("stand", 1, b"TestLinked", b"standalone value"), G.op_end(b"TestLinked")]
            ci, upd = r.choice(G.ENVS)
            ops += [G.op_setenv(ci, upd), {"op": "dumpfs"}, {"op": "clean", "sort": r.chance(1, 2), "count": 1}, {"op": "dumpfs"}]
            cases.append({"ci": False, "updvar": "unset", "colour": False, "ops": ops, "meta": {"mode": "symlink", "oracle_only": True}})
        return cases

    def oracle(self, case, ops, results):
        if case.get("meta", {}).get("mode") == "symlink":
            fss_ = [r for r in results if r[0] == "fs"]
            cl_ = [r for r in results if r[0] == "clean"]
            obs_ = [r for r in results if r[0] == "obs" and r[2]["outcome"] != "nocall"]
            if len(fss_) != 2 or not cl_ or len(obs_) < 3 or any(o[2]["outcome"] != "added" for o in obs_[:3]):
                return self.skip("guard")
            f = []
            if len([k for k in fss_[0][2] if b".snap" in unhx(k)]) != 2:
                return self.skip("guard")
            if fss_[0][2] != fss_[1][2]:
                f.append({"msg": "snapshot directory reached through a symbolic link: Clean changed files that this process addressed: before %s after %s" % (
                    sorted(unhx(k) for k in fss_[0][2]), sorted(unhx(k) for k in fss_[1][2]))})
            if cl_[0][2].get("ofiles", "~") != "~" or cl_[0][2].get("otests", "~") != "~":
                f.append({"msg": "snapshot directory reached through a symbolic link: Clean lists addressed items as obsolete: files %s tests %s" % (
                    cl_[0][2].get("ofiles"), cl_[0][2].get("otests"))})
            return f
        fss = [r for r in results if r[0] == "fs"]
        cl = [r for r in results if r[0] == "clean"]
        obs = [r for r in results if r[0] == "obs"]
        opl = [o for o in ops if o[0] not in ("init", "dumpfs", "counters", "clean")]
        if len(fss) < 2 or not cl or len(opl) != len(obs):
            return self.skip("guard")
        before, after = fss[-2][2], fss[-1][2]
        c = cl[0][2]
        if case["meta"].get("oracle_only"):
            fails = []
            ofiles = set() if c["ofiles"] == "~" else set(unhx(x) for x in c["ofiles"].split(","))
            for (name, kv), (_, idx, o) in zip(opl, obs):
                if name == "match" and o["outcome"] in ("added", "updated"):
                    for w in o["writes"].split(","):
                        p = w.split(":", 1)[1]
                        if after.get(p) != before.get(p):
                            fails.append({"msg": "file %r written by a call of this run was changed or removed by Clean" % unhx(p), "name": unhx(kv["test"])})
                        if unhx(p) in ofiles:
                            fails.append({"msg": "file %r written by a call of this run is listed as obsolete" % unhx(p), "name": unhx(kv["test"])})
            return fails
        cnt = next((int(kv["count"]) for name, kv in ops if name == "clean"), 1)
        otests = set() if c["otests"] == "~" else set(unhx(x) for x in c["otests"].split(","))
        ofiles = set() if c["ofiles"] == "~" else set(unhx(x) for x in c["ofiles"].split(","))
        # addressed slots: derive from the model-independent facts in the transcript: for every passed/added/updated
        # multi-entry call the entry `[test - k]` (k = ordinal within the execution) of the file that holds it
        fails = []
        k_of, execs = {}, {}
        addressed = {}
        cfgs = []
        for (name, kv), (_, idx, o) in zip(opl, obs):
            if name == "newconfig":
                cfgs.append(kv)
            if name == "endtest":
                for key in [x for x in k_of if x[0] == kv["test"]]:
                    k_of.pop(key)
                execs[kv["test"]] = execs.get(kv["test"], 0) + 1
            if name == "match" and o["outcome"] in ("passed", "added", "updated"):
                key = (kv["test"], kv["h"], kv["api"] in ("stand", "standjson"), kv["api"] == "standjson")
                k_of[key] = k_of.get(key, 0) + 1
                addressed.setdefault((kv["test"], kv["h"], kv["api"]), set()).add(k_of[key])
        if any(e != cnt for e in execs.values()):
            return self.skip("guard")
        tot = {}
        for (name, kv), (_, idx, o) in zip(opl, obs):
            if name == "match":
                tot[(kv["test"], kv["h"], kv["api"])] = tot.get((kv["test"], kv["h"], kv["api"]), 0) + 1
        if any(n_ % cnt for n_ in tot.values()) or any(execs.get(t, 0) != cnt for (t, _, _) in tot):
            return self.skip("not `count` uniform executions (e.g. a shrunk case): outside the quant")
        for (test, h, api), ks in addressed.items():
            t = unhx(test)
            cfg = cfgs[int(h) - 1] if int(h) > 0 and int(h) <= len(cfgs) else {"fn": "~", "dir": "~", "ext": "~"}
            if api in ("stand", "standjson"):
                d = "/S/def" if cfg["dir"] == "~" else G.unhx_s(cfg["dir"])
                fn = t.decode("latin-1").replace("/", "_") if cfg["fn"] in ("~", "-") else G.unhx_s(cfg["fn"])
                ext = G.unhx_s(cfg["ext"]) if cfg["ext"] not in ("~", "-") else (".json" if api == "standjson" else "")
                for k in ks:
                    p = ("%s/%s_%d.snap%s" % (d, fn, k, ext)).encode("latin-1")
                    if hx(p) in before and after.get(hx(p)) != before[hx(p)]:
                        fails.append({"msg": "addressed standalone file %r changed or removed by Clean" % p, "name": t})
                    if p in ofiles:
                        fails.append({"msg": "addressed standalone file %r listed as obsolete" % p, "name": t})
            else:
                p = G.expected_multi_path(cfg, api, test).encode("latin-1")
                eb = dict(parse_entries(unhx(before.get(hx(p), "-"))))
                ea = dict(parse_entries(unhx(after.get(hx(p), "-"))))
                for k in ks:
                    i = t + b" - %d" % k
                    if i in eb and ea.get(i) != eb[i]:
                        fails.append({"msg": "addressed entry [%s] of %r lost or altered by Clean" % (i.decode("latin-1"), p), "name": t})
                    if i in otests:
                        fails.append({"msg": "addressed entry [%s] listed as obsolete" % i.decode("latin-1"), "name": t})
                if p in ofiles:
                    fails.append({"msg": "addressed file %r listed as obsolete" % p, "name": t})
        return fails

    def known_signature(self, finding, case, ops, results, failure):
        if finding["id"] == "K5":
            return "name" in failure and not failure["name"].startswith(b"Test") and "lost or altered" in failure["msg"]
        return False

    def nontrivial(self, case, ops, results):
        return any(r[0] == "clean" and r[2].get("writes", "-") != "-" for r in results)


PROP = C07()
