"""C06 - parallel tests that share a snapshot file are serialisable."""
import os, subprocess, json
from runner import Prop
import common
from common import hx, unhx, build_go
import gen as G
from C09 import parse_entries, parse_file, frame


class C06(Prop):
    pid = "C06"
    instrument = True
    fields = {"sched": ["ok", "finished", "file", "outcomes"], "parallel": []}
    rule = ("controlled schedules on yield-instrumented copies of the CURRENT sources (every lock and file-system operation is a "
            "scheduling point; one goroutine runs at a time; the controller models the RW lock): 2-3 goroutines, 1-2 MatchSnapshot calls "
            "each on one shared file, every assignment of {create, match, mismatch, update} given by the initial file and the mode; ALL "
            "interleavings depth-first up to a cap per scenario (quick) / larger caps, 3 goroutines and random deep schedules (thorough); "
            "plus a -race stress of Match*, Skip* and one shared Config from free-running goroutines; the oracle requires every schedule "
            "to finish, every call to get its serial outcome and the final file to hold exactly one well-formed entry per addressed slot "
            "with the right value and all other entries intact; distinct = distinct event trace; non-trivial = >= 2 goroutines wrote")
    outside_model = ("the Go scheduler and memory model: real preemption inside library code between two instrumented operations, and "
                     "data races, are not expressible in the executable model (covered by the -race stress, which is a test)")
    trusted = ["the instrumented copy differs from the sources only by verifYield calls (harness/yieldgen, go/ast)"]

    def scenarios(self, r, ng, ncalls):
        tests = r.shuffle([b"TestA", b"TestB", b"TestA/sub", b"TestC", b"TestAB"])[:ng]
        initial = []
        calls = []
        for g, t in enumerate(tests):
            for k in range(1, ncalls + 1):
                kind = r.choice(["create", "match", "mismatch"])
                val = r.choice([b"v", b"value %d" % k, b"two\nlines", b"---", b"x" * 50, b""])
                if kind == "match":
                    initial.append((b"%s - %d" % (t, k), val))
                elif kind == "mismatch":
                    initial.append((b"%s - %d" % (t, k), r.choice([b"old", b"older\nvalue", b""]) if val not in (b"old", b"") else b"other"))
                calls.append("%d|%s|%s" % (g, hx(t), hx(val)))
        extra = [(b"TestOther - 1", b"untouched\nentry")] if r.chance(1, 2) else []
        ents = r.shuffle(initial + extra)
        esc = lambda b: b"\n".join(b"/-/-/-/" if l == b"---" else l for l in b.split(b"\n"))
        content = b"".join(frame(i, esc(b)) for i, b in ents)
        return calls, content, bool(ents)

    def gen(self, rng, tier):
        cases = []
        n = 30 if tier == "quick" else 300
        cap = 300 if tier == "quick" else 3000
        for i in range(n):
            r = rng.fork()
            ng = 2 if (tier == "quick" or r.chance(2, 3)) else 3
            ncalls = r.choice([1, 1, 2]) if ng == 2 else 1
            calls, content, has = self.scenarios(r, ng, ncalls)
            upd = r.choice(["true", "unset", "true"])
            form = "dfs" if r.chance(3, 4) else "random:%d" % r.below(1 << 30)
            op = {"op": "sched", "values": calls, "content": hx(content), "path": "x" if has else "~", "count": cap, "form": form}
            cases.append({"ci": False, "updvar": upd, "colour": False, "ops": [op], "meta": {"ng": ng}})
        # two concurrent UPDATES of different slots of one file, the earlier slot's new value having another number of lines
        # (whatever a call learnt about the file before taking the write lock - a line number, an offset - is stale by then)
        for i in range(3 if tier == "quick" else 12):
            r = rng.fork()
            t1, t2 = r.shuffle([b"TestA", b"TestB", b"TestAB", b"TestC"])[:2]
            old1, new1 = r.choice([(b"a\nb\nc", b"short"), (b"one", b"now\nthree\nlines"), (b"l1\nl2", b"")])
            old2, new2 = r.choice([(b"x", b"y\nz"), (b"p\nq", b"r")])
            ents = [(t1 + b" - 1", old1), (t2 + b" - 1", old2)]
            if r.chance(1, 2):
                ents.insert(r.below(3), (b"TestOther - 1", b"untouched\nentry"))
            content = b"".join(frame(i_, b_) for i_, b_ in ents)
            calls = ["0|%s|%s" % (hx(t1), hx(new1)), "1|%s|%s" % (hx(t2), hx(new2))]
            if r.chance(1, 2):
                calls = ["0|%s|%s" % (hx(t2), hx(new2)), "1|%s|%s" % (hx(t1), hx(new1))]
            op = {"op": "sched", "values": calls, "content": hx(content), "path": "x", "count": cap, "form": "dfs"}
            cases.append({"ci": False, "updvar": "true", "colour": False, "ops": [op], "meta": {"ng": 2}})
        # one shared Config used concurrently by different entry points (oracle only: the micro-step model covers
        # MatchSnapshot calls; here the claim is C12's: the location depends on the Config's options alone)
        for i in range(max(2, n // 10)):
            r = rng.fork()
            calls = ["0|%s|%s|cfgjson" % (hx(b"TestJ"), hx(b'{"a":1}')), "1|%s|%s|cfg" % (hx(b"TestS"), hx(b"plain value"))]
            if r.chance(1, 2):
                calls.append("1|%s|%s|cfg" % (hx(b"TestS"), hx(b"second")))
            op = {"op": "sched", "values": calls, "content": "-", "path": "~", "count": cap, "form": "dfs", "shared_cfg": True}
            cases.append({"ci": False, "updvar": "unset", "colour": False, "ops": [op], "meta": {"ng": 2, "oracle_only": True}})
        return cases

    def oracle(self, case, ops, results):
        fails = []
        upd = case.get("updvar") == "true" and not case.get("ci")
        create = not case.get("ci")
        for (name, kv), (kind, idx, o) in zip([o for o in ops if o[0] == "sched"], [r for r in results if r[0] == "sched"]):
            if o.get("finished") == "*":
                continue
            if o.get("ok") == "0" or "finished" not in o:
                # the model refused the observed event trace: the code no longer follows the modelled lock protocol
                fails.append({"msg": "sched %s: event trace rejected (%s): %s" % (idx, o.get("reason", "?"), kv["events"][-160:])})
                continue
            init = dict(parse_entries(unhx(kv["file"]))) if kv["file"] != "~" else {}
            # expected serial outcomes and final entries
            exp_out, exp_entries = {}, dict(init)
            per_g = {}
            shared = any(o_.get("shared_cfg") for o_ in case["ops"])
            for c in kv["calls"].split(";"):
                g, tid, snap, _, cr, up = c.split(":")
                if shared and unhx(tid).startswith(b"[TestJ"):
                    exp_out.setdefault(g, []).append("added")     # the standalone JSON call (its file is not the shared one)
                    continue
                per_g[g] = per_g.get(g, 0) + 1
                header = unhx(tid)[1:-1]
                body = unhx(snap)
                if header not in init:
                    oc = "added" if cr == "1" else "failed:notfound"
                    if cr == "1":
                        exp_entries[header] = body
                elif init[header] == body:
                    oc = "passed"
                elif up == "1":
                    oc = "updated"
                    exp_entries[header] = body
                else:
                    oc = "failed:diff"
                exp_out.setdefault(g, []).append(oc)
            want = ";".join("%s:%s" % (g, "/".join(v)) for g, v in sorted(exp_out.items()))
            if o["finished"] != "1":
                # (tie-level: the controller's picture of the lock comes from the yield rewriter; a lock operation it cannot see
                # looks exactly like this)
                fails.append({"msg": "sched %s: schedule did not finish (deadlock): %s" % (idx, kv["events"][-120:]), "tie": True})
                continue
            if not common.outcomes_agree(o["outcomes"], want):
                fails.append({"msg": "sched %s: outcomes %s, serial execution gives %s" % (idx, o["outcomes"], want), "events": kv["events"]})
            final = unhx(o["file"]) if o["file"] != "~" else b""
            got, residue = parse_file(final)
            if residue:
                fails.append({"msg": "sched %s: final file is not a sequence of well-formed entries (torn): %r" % (idx, final[-80:]), "events": kv["events"]})
            elif sorted(got) != sorted(exp_entries.items()):
                fails.append({"msg": "sched %s: final entries %s, expected %s" % (idx, sorted(i for i, _ in got), sorted(exp_entries)), "events": kv["events"]})
        return fails

    def extra_run(self, tier, seed, workdir):
        """-race stress (a test, not a proof): Match*, Skip* and one shared Config from free-running goroutines"""
        try:
            bins = build_go("C06-race", race=True)
        except common.BuildError as e:
            return [{"msg": "race build failed: " + str(e)[-500:]}], {}
        case = {"id": 1, "ci": False, "updvar": "unset", "colour": False, "ops": [{"op": "parallel", "count": 15 if tier == "quick" else 200}]}
        fin = os.path.join(workdir, "race.jsonl")
        fout = os.path.join(workdir, "race.out")
        open(fin, "w").write(json.dumps(case) + "\n")
        env = common.clean_env(VERIF_IN=fin, VERIF_OUT=fout, TMPDIR=workdir, GORACE="halt_on_error=0")
        p = subprocess.run([bins["snaps"], "-test.run", "^TestVerifTrace$", "-test.count=1"], env=env, cwd=workdir,
                           stdout=subprocess.PIPE, stderr=subprocess.STDOUT, text=True, timeout=1500)
        fails = []
        if "DATA RACE" in p.stdout:
            i = p.stdout.index("DATA RACE")
            fails.append({"msg": "race detector report under concurrent Match*/Skip*/shared Config", "report": p.stdout[max(0, i - 50): i + 1500]})
        elif p.returncode != 0:
            fails.append({"msg": "race stress run failed: " + p.stdout[-600:]})
        out = open(fout).read() if os.path.exists(fout) else ""
        for l in out.splitlines():
            if l.startswith("parallel ") and "bad=0" not in l:
                fails.append({"msg": "free-running goroutines: failing calls or lost counters: " + l})
        return fails, {"race_stress_rounds": 15 if tier == "quick" else 200, "race_detector": "go test -race build of the harness"}

    def nontrivial(self, case, ops, results):
        return any(r[0] == "sched" and r[2].get("outcomes", "").count("added") + r[2].get("outcomes", "").count("updated") >= 2 for r in results)

    def stats(self, case, ops, results, dist):
        n = sum(1 for r in results if r[0] == "sched")
        dist["schedules"] += n
        dist["goroutines:%d" % case["meta"].get("ng", 0)] += 1
        for r in results:
            if r[0] == "sched":
                for tok in r[2].get("outcomes", "").replace(";", "/").split("/"):
                    dist["outcome:" + tok.split(":")[-1]] += 1


PROP = C06()
