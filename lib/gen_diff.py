#!/usr/bin/env python3
"""Case generator for the difflib / report correspondence check (ops "opcodes" and "diff",
see harness/whitebox/snaps_diff_test.go and driver/cmd_diff.ml).

  gen_diff.py random <seed> <ncases> > cases.jsonl
      random text pairs: 0..400 lines, alphabets of 1..200 distinct lines (so that both the
      ">10 lines" range rule and the ">=200 lines" popularity purge are exercised), edits by
      insert / delete / replace / block move, binary line contents, with and without a
      final newline; each pair is used for one "opcodes" and one "diff" op.
  gen_diff.py exhaustive <maxlen> > cases.jsonl
      every pair of line sequences of length 1..maxlen over the alphabet {"a","b",""}
      (maxlen = 5: 363^2 = 131769 pairs).

Checking: run the Go harness on cases.jsonl (VERIF_IN/VERIF_OUT, -test.run '^TestVerifTrace$'),
feed the lines that start with "op " (prefix removed) and the "case N" lines to the model
driver, and compare its output with the remaining lines of the Go output byte for byte.
"""
import itertools, json, random, sys

def hx(b): return b.hex() if b else "-"

def emit(out, cid, ops):
    out.write(json.dumps({"id": cid, "ci": False, "updvar": "unset", "colour": False, "ops": ops}) + "\n")

def rand_text(nlines, alpha, blank_p=0.1, final_nl=None):
    lines = []
    for _ in range(nlines):
        if random.random() < blank_p: lines.append(b"")
        else: lines.append(random.choice(alpha))
    s = b"\n".join(lines)
    if final_nl is None: final_nl = random.random() < 0.5
    if final_nl: s += b"\n"
    return s

def mutate(s, alpha):
    lines = s.split(b"\n")
    k = random.choice([0, 1, 1, 2, 3, 5, 10, 30])
    for _ in range(k):
        op = random.random()
        pos = random.randrange(len(lines) + 1)
        if op < 0.35 and lines:
            del lines[min(pos, len(lines) - 1)]
        elif op < 0.7:
            lines.insert(pos, random.choice(alpha))
        elif op < 0.85 and lines:
            lines[min(pos, len(lines) - 1)] = random.choice(alpha)
        elif lines:
            i = random.randrange(len(lines)); j = min(len(lines), i + random.randrange(1, 8))
            blk = lines[i:j]; del lines[i:j]
            p = random.randrange(len(lines) + 1); lines[p:p] = blk
    return b"\n".join(lines)

def alphabet():
    k = random.choice([1, 2, 3, 5, 8, 30, 200])
    kind = random.random()
    al = []
    for i in range(k):
        if kind < 0.3: al.append(bytes([97 + i % 26]) * (1 + i // 26))
        elif kind < 0.6: al.append(("line %d" % i).encode())
        else: al.append(bytes(random.randrange(0, 256) for _ in range(random.randrange(0, 6))).replace(b"\n", b"x"))
    return al

def gen_random(seed, ncases, out):
    random.seed(seed)
    for cid in range(1, ncases + 1):
        ops = []
        for _ in range(random.randrange(1, 6)):
            al = alphabet()
            size = random.choice([0, 1, 2, 3, 5, 8, 9, 10, 11, 12, 20, 40, 100, 199, 200, 201, 250, 400])
            a = rand_text(size, al) if size else random.choice([b"", b"\n", b"x"])
            r = random.random()
            if r < 0.7: b = mutate(a, al)
            elif r < 0.9: b = rand_text(random.choice([0, 1, 3, 10, 11, 50, 200, 230]), al)
            else: b = a
            if random.random() < 0.1: a, b = b, a
            name = random.choice([b"", b"__snapshots__/x_test.snap", b"a b\xff:1"])
            line = random.choice([0, 1, 7, 99, 100, 12345])
            ops.append({"op": "opcodes", "values": [hx(a), hx(b)]})
            ops.append({"op": "diff", "values": [hx(a), hx(b)], "path": hx(name), "count": line, "colour": False})
        emit(out, cid, ops)

def gen_exhaustive(maxlen, out):
    alpha = [b"a", b"b", b""]
    seqs = [b"\n".join(s) for k in range(1, maxlen + 1) for s in itertools.product(alpha, repeat=k)]
    ops = []; cid = 0
    for a in seqs:
        for b in seqs:
            ops.append({"op": "opcodes", "values": [hx(a), hx(b)]})
            ops.append({"op": "diff", "values": [hx(a), hx(b)], "path": hx(b"x.snap"), "count": 3, "colour": False})
            if len(ops) >= 4000:
                cid += 1; emit(out, cid, ops); ops = []
    if ops:
        cid += 1; emit(out, cid, ops)

if __name__ == "__main__":
    if len(sys.argv) >= 4 and sys.argv[1] == "random":
        gen_random(int(sys.argv[2]), int(sys.argv[3]), sys.stdout)
    elif len(sys.argv) >= 3 and sys.argv[1] == "exhaustive":
        gen_exhaustive(int(sys.argv[2]), sys.stdout)
    else:
        sys.stderr.write(__doc__); sys.exit(2)
