(* Dec: decimal printing of naturals (strconv.Itoa / %d for n >= 0). *)
From Coq Require Import List NArith Bool Lia.
Import ListNotations.
From Snaps Require Import Base.Bytes.

Definition digit (d : N) : N := (48 + d)%N.

(* fuel-driven most-significant-first printer on N *)
Fixpoint dec_aux (fuel : nat) (n : N) (acc : bytes) : bytes :=
  match fuel with
  | O => acc
  | S f => let acc' := digit (n mod 10) :: acc in
           if N.ltb n 10 then acc' else dec_aux f (n / 10) acc'
  end.

Definition decN (n : N) : bytes := dec_aux (S (N.to_nat (N.log2 n))) n [].
Definition dec (n : nat) : bytes := decN (N.of_nat n).

Definition is_digit (c : N) : bool := N.leb 48 c && N.leb c 57.
