(* Dec: decimal printing of naturals (strconv.Itoa / %d for n >= 0). *)
From Coq Require Import List NArith Bool Lia Decimal.
Import ListNotations.
From Snaps Require Import Base.Bytes.

Fixpoint uint_bytes (u : Decimal.uint) : bytes :=
  match u with
  | Nil => []
  | D0 r => 48%N :: uint_bytes r
  | D1 r => 49%N :: uint_bytes r
  | D2 r => 50%N :: uint_bytes r
  | D3 r => 51%N :: uint_bytes r
  | D4 r => 52%N :: uint_bytes r
  | D5 r => 53%N :: uint_bytes r
  | D6 r => 54%N :: uint_bytes r
  | D7 r => 55%N :: uint_bytes r
  | D8 r => 56%N :: uint_bytes r
  | D9 r => 57%N :: uint_bytes r
  end.

(* most significant digit first, "0" for zero *)
Definition dec (n : nat) : bytes := uint_bytes (Nat.to_uint n).

Definition is_digit (c : N) : bool := N.leb 48 c && N.leb c 57.
