(* Bytes: byte strings as lists of N; decidable equality; string literals. *)
From Coq Require Import String Ascii.
From Coq Require Import List NArith Bool Lia.
Import ListNotations.

Definition byte := N.
Definition bytes := list N.

Fixpoint beq (a b : bytes) : bool :=
  match a, b with
  | [], [] => true
  | x :: a', y :: b' => N.eqb x y && beq a' b'
  | _, _ => false
  end.

Definition B (s : string) : bytes := map N_of_ascii (list_ascii_of_string s).

Definition nl : N := 10%N.
Definition cr : N := 13%N.

Fixpoint is_prefix (p s : bytes) : bool :=
  match p, s with
  | [], _ => true
  | x :: p', y :: s' => N.eqb x y && is_prefix p' s'
  | _ :: _, [] => false
  end.

Definition is_suffix (p s : bytes) : bool := is_prefix (rev p) (rev s).

(* first index of [pat] in [s] *)
Fixpoint index_of (pat s : bytes) : option nat :=
  if is_prefix pat s then Some O else
  match s with
  | [] => None
  | _ :: r => option_map S (index_of pat r)
  end.

Definition contains (pat s : bytes) : bool :=
  match index_of pat s with Some _ => true | None => false end.

Fixpoint mem_bytes (x : bytes) (l : list bytes) : bool :=
  match l with [] => false | y :: r => beq x y || mem_bytes x r end.

(* replace every occurrence of byte [a] by [b] *)
Definition replace_byte (a b : N) (s : bytes) : bytes :=
  map (fun c => if N.eqb c a then b else c) s.

(* lexicographic byte order *)
Fixpoint bytes_ltb (a b : bytes) : bool :=
  match a, b with
  | [], [] => false
  | [], _ :: _ => true
  | _ :: _, [] => false
  | x :: a', y :: b' => if N.ltb x y then true else if N.ltb y x then false else bytes_ltb a' b'
  end.

Fixpoint insert_sorted (x : bytes) (l : list bytes) : list bytes :=
  match l with
  | [] => [x]
  | y :: r => if bytes_ltb y x then y :: insert_sorted x r else x :: l
  end.
Definition sort_bytes (l : list bytes) : list bytes := fold_right insert_sorted [] l.

Fixpoint dedup (l : list bytes) : list bytes :=
  match l with
  | [] => []
  | x :: r => if mem_bytes x r then dedup r else x :: dedup r
  end.
