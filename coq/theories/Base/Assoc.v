(* Assoc: association lists keyed by byte strings. *)
From Coq Require Import List NArith Bool.
Import ListNotations.
From Snaps Require Import Base.Bytes.

Section Assoc.
  Context {V : Type}.
  Fixpoint alookup (k : bytes) (m : list (bytes * V)) : option V :=
    match m with
    | [] => None
    | (k', v) :: r => if beq k k' then Some v else alookup k r
    end.
  (* update in place (keeps position) or append at the end *)
  Fixpoint aset (k : bytes) (v : V) (m : list (bytes * V)) : list (bytes * V) :=
    match m with
    | [] => [(k, v)]
    | (k', v') :: r => if beq k k' then (k, v) :: r else (k', v') :: aset k v r
    end.
  Fixpoint aremove (k : bytes) (m : list (bytes * V)) : list (bytes * V) :=
    match m with
    | [] => []
    | (k', v') :: r => if beq k k' then r else (k', v') :: aremove k r
    end.
  Definition akeys (m : list (bytes * V)) : list bytes := map fst m.
End Assoc.

Section Assoc2.
  Context {V : Type}.
  Definition key2 := (bytes * bytes)%type.
  Definition key2_eqb (a b : key2) : bool := beq (fst a) (fst b) && beq (snd a) (snd b).
  Fixpoint alookup2 (k : key2) (m : list (key2 * V)) : option V :=
    match m with
    | [] => None
    | (k', v) :: r => if key2_eqb k k' then Some v else alookup2 k r
    end.
  Fixpoint aset2 (k : key2) (v : V) (m : list (key2 * V)) : list (key2 * V) :=
    match m with
    | [] => [(k, v)]
    | (k', v') :: r => if key2_eqb k k' then (k, v) :: r else (k', v') :: aset2 k v r
    end.
End Assoc2.
