(* Lines: newline splitting, bufio.ScanLines, strings.Split/Join on "\n". *)
From Coq Require Import List NArith Bool Lia.
Import ListNotations.
From Snaps Require Import Base.Bytes.

(* strings.Split(s, "\n"): always non-empty *)
Fixpoint split_nl (s : bytes) : list bytes :=
  match s with
  | [] => [[]]
  | c :: r =>
      if N.eqb c nl then [] :: split_nl r
      else match split_nl r with
           | l :: ls => (c :: l) :: ls
           | [] => [[c]]
           end
  end.

(* strings.Join(ls, "\n") *)
Fixpoint join_nl (ls : list bytes) : bytes :=
  match ls with
  | [] => []
  | [l] => l
  | l :: r => l ++ nl :: join_nl r
  end.

Definition unlines (ls : list bytes) : bytes := List.concat (map (fun l => l ++ [nl]) ls).

(* dropCR: remove one trailing "\r" (linear, no list reversal) *)
Fixpoint drop_cr (l : bytes) : bytes :=
  match l with
  | [] => []
  | c :: r => match r with
              | [] => if N.eqb c cr then [] else [c]
              | _ => c :: drop_cr r
              end
  end.

(* the final empty piece (input ended with a newline, or was empty) is not a token *)
Fixpoint drop_last_empty (ls : list bytes) : list bytes :=
  match ls with
  | [] => []
  | l :: r => match r with
              | [] => match l with [] => [] | _ => [l] end
              | _ => l :: drop_last_empty r
              end
  end.

(* bufio.Scanner with ScanLines over the whole input *)
Definition scan (s : bytes) : list bytes := map drop_cr (drop_last_empty (split_nl s)).

(* strings.TrimSuffix(s, "\n") *)
Fixpoint trim_one_nl (s : bytes) : bytes :=
  match s with
  | [] => []
  | c :: r => match r with
              | [] => if N.eqb c nl then [] else [c]
              | _ => c :: trim_one_nl r
              end
  end.
