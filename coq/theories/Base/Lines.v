(* Lines: newline splitting, bufio.ScanLines, strings.Split/Join on "\n". *)
From Coq Require Import List NArith Bool Lia.
Import ListNotations.
From Snaps Require Import Base.Bytes.

(* strings.Split(s, "\n"): always non-empty *)
Fixpoint split_nl (s : bytes) : list bytes :=
  match s with
  | [] => [[]]
  | c :: r =>
      if N.eqb c nl then [] :: split_nl r
      else match split_nl r with
           | l :: ls => (c :: l) :: ls
           | [] => [[c]]
           end
  end.

(* strings.Join(ls, "\n") *)
Fixpoint join_nl (ls : list bytes) : bytes :=
  match ls with
  | [] => []
  | [l] => l
  | l :: r => l ++ nl :: join_nl r
  end.

Definition unlines (ls : list bytes) : bytes := List.concat (map (fun l => l ++ [nl]) ls).

Definition drop_cr (l : bytes) : bytes :=
  match rev l with c :: r => if N.eqb c cr then rev r else l | [] => l end.

Definition drop_last_empty (ls : list bytes) : list bytes :=
  match rev ls with [] :: r => rev r | _ => ls end.

(* bufio.Scanner with ScanLines over the whole input *)
Definition scan (s : bytes) : list bytes := map drop_cr (drop_last_empty (split_nl s)).

(* strings.TrimSuffix(s, "\n") *)
Definition trim_one_nl (s : bytes) : bytes :=
  match rev s with c :: r => if N.eqb c nl then rev r else s | [] => s end.
