(* Extraction of the executable model for the correspondence check.
   Only ExtrOcamlBasic is used: N, positive and nat stay the extracted datatypes. *)
From Coq Require Import Extraction ExtrOcamlBasic.
From Snaps Require Import Base.Bytes Base.Lines Base.Dec Base.Assoc.
From Snaps Require Import Model.Frame Model.PathModel Model.Mode Model.Api Model.Json Model.Matchers Model.Difflib Model.Report Model.ScriptGen Model.ReportReader Model.Natural Model.Clean Model.Summary Model.Caller Model.Sched Model.RunFilter Model.GoRun.

Extraction Language OCaml.
Extraction "model.ml" init_state step run get_prev add_entry update_entry escape unescape
  clean join dirname basename ext snapshot_path header
  valid snapshot_json set_path_text
  split_newlines get_opcodes grouped_opcodes pretty_diff_nocolor
  clean_run natural_less sort_nat is_sorted_nat get_test_id
  base_caller snapshot_path_gen
  init_cfg next_ev enabled sched_step run_sched finished outcomes final_file
  run_serial group_outcomes lin_order call_atomic tally_of
  summary clean_stdout read_summary sumdata_of_result sumread_of strip_ansi
  apply_matchers_snapshot parse
  valid_script groups_of_script report_of_script unified_of_script read_report report_read_of
  groups_of_script_n unified_of_script_n report_of_script_n
  re_match test_skipped_run file_skipped_run go_selects.
