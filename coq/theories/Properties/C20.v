(* C20 - every call has exactly one outcome and the counters add up. *)
From Coq Require Import List NArith Bool Lia.
Import ListNotations.
From Snaps Require Import Base.Bytes Base.Assoc.
From Snaps Require Import Model.Frame Model.PathModel Model.Mode Model.Api.
From Snaps Require Import Model.Clean Model.Summary.
From Snaps Require Import Proofs.ApiP Proofs.StandaloneP Proofs.StepP Proofs.OutcomeP Proofs.SummaryP Proofs.SummaryHistoryP.

(* each Match* call with at least one value ends in exactly one of passed / added / updated /
   failed (the documented MatchSnapshot(t) without values only logs a warning) *)
Theorem C20_one_outcome : forall s a hd test p c,
  nth_error (s_cfgs s) hd = Some c -> ~ (a = ASnap /\ p = PNoValues) ->
  counts_as_outcome (o_outcome (snd (step s (OMatch a hd test p)))) = true.
Proof. exact match_one_outcome. Qed.
Print Assumptions C20_one_outcome.

(* ... signalled to the test as nothing / one `added` log / one `updated` log / exactly one error *)
Theorem C20_signals : forall s o,
  (o_errors (snd (step s o)), o_logs (snd (step s o))) = signals_of (o_outcome (snd (step s o))).
Proof. exact step_obs_shape. Qed.
Print Assumptions C20_signals.

(* the counters Clean prints are exactly the tally of these outcomes over the whole history,
   and the skip counter is the number of snaps.Skip* calls *)
Theorem C20_counters : forall ops s,
  Forall api_op ops -> ~ In ONewProcess ops ->
  s_events (fst (run s ops)) = tally (snd (run s ops)) (s_events s) /\
  length (s_skipped (fst (run s ops))) = length (s_skipped s) + count_skips (snd (run s ops)).
Proof. exact run_counters. Qed.
Print Assumptions C20_counters.

(* the TEXT Clean prints (byte-exact model of summary()/fmt.Println, with or without ANSI colours), read by an
   independent line-oriented reader, shows exactly the data it was printed from: the four outcome totals, the
   number of skips, the two lists item by item, and the obsolete/removed wording (items without newline / ESC) *)
Theorem C20_summary_readable : forall nocolor d,
  items_ok d -> read_summary (clean_stdout nocolor d) = Some (sumread_of d).
Proof. exact read_summary_correct. Qed.
Print Assumptions C20_summary_readable.

(* ... and over whole histories: what the reader sees in Clean's output after any history of API calls are the
   tallies of the outcomes of those calls, the number of snaps.Skip* calls, and exactly the lists Clean judged obsolete *)
Theorem C20_summary_totals : forall ops s0 sort_opt count nocolor,
  Forall api_op ops -> ~ In ONewProcess ops ->
  let s := fst (run s0 ops) in
  let r := snd (clean_run s sort_opt count) in
  items_ok (sumdata_of_result r) ->
  exists rd, read_summary (clean_stdout nocolor (sumdata_of_result r)) = Some rd /\
    sr_counts rd = tally (snd (run s0 ops)) (s_events s0) /\
    sr_skipped rd = length (s_skipped s0) + count_skips (snd (run s0 ops)) /\
    sr_files rd = cr_obsolete_files r /\ sr_tests rd = cr_obsolete_tests r.
Proof. exact summary_totals_history. Qed.
Print Assumptions C20_summary_totals.

(* nothing is printed exactly when there is nothing to show *)
Theorem C20_summary_empty_iff : forall nocolor d,
  summary nocolor d = [] <->
  sd_files d = [] /\ sd_tests d = [] /\
  n_erred (sd_counts d) = 0 /\ n_added (sd_counts d) = 0 /\
  n_updated (sd_counts d) = 0 /\ n_passed (sd_counts d) = 0 /\ sd_skipped d = 0.
Proof. exact summary_empty_iff. Qed.
Print Assumptions C20_summary_empty_iff.

(* two different data never print the same text (in either colour mode) *)
Theorem C20_summary_injective : forall nc1 nc2 d1 d2, items_ok d1 -> items_ok d2 ->
  clean_stdout nc1 d1 = clean_stdout nc2 d2 -> sumread_of d1 = sumread_of d2.
Proof. exact summary_injective_partial. Qed.
Print Assumptions C20_summary_injective.

(* the hypothesis on items is necessary: an item with a newline forges a section (computed) *)
Theorem C20_summary_newline_item_refuted : exists d, read_summary (clean_stdout true d) <> Some (sumread_of d).
Proof. exact newline_item_breaks_ex. Qed.
Print Assumptions C20_summary_newline_item_refuted.

Example C20_example :
  let e := {| ci := false; upd := UUnset; colour := false |} in
  let s := init_state e [47; 120]%N [47; 83]%N in
  let '(s1, obs) := run s [OMatch ASnap 0 [84]%N (POk [97]%N); OMatch ASnap 0 [85]%N (POk [97]%N);
                           OEndTest [84]%N; OMatch ASnap 0 [84]%N (POk [98]%N); OSkip [86]%N;
                           OMatch AJson 0 [85]%N PInvalid] in
  s_events s1 = {| n_erred := 2; n_added := 2; n_updated := 0; n_passed := 0 |} /\
  length (s_skipped s1) = 1.
Proof. vm_compute. split; reflexivity. Qed.

(* non-vacuity: every theorem of this file that has hypotheses has a concrete, non-trivial instance meeting ALL of them
   (lemmas <Theorem>_witness / <Theorem>_applied in Proofs/WitnessesP.v); a representative one is restated here *)
From Snaps Require Import Proofs.WitnessesP.
Example C20_witnesses :
  Forall api_op w20_ops /\ ~ In ONewProcess w20_ops /\ items_ok w20_d /\
  cr_obsolete_files w20_r = w20_obs_files /\ cr_obsolete_tests w20_r = w20_obs_tests /\
  nth_error (s_cfgs w20_s) w20_hd = Some w20_c1.
Proof. exact C20_witnesses_all. Qed.
