(* C20 - every call has exactly one outcome and the counters add up. *)
From Coq Require Import List NArith Bool Lia.
Import ListNotations.
From Snaps Require Import Base.Bytes Base.Assoc.
From Snaps Require Import Model.Frame Model.PathModel Model.Mode Model.Api.
From Snaps Require Import Proofs.ApiP Proofs.StandaloneP Proofs.StepP Proofs.OutcomeP.

(* each Match* call with at least one value ends in exactly one of passed / added / updated /
   failed (the documented MatchSnapshot(t) without values only logs a warning) *)
Theorem C20_one_outcome : forall s a hd test p c,
  nth_error (s_cfgs s) hd = Some c -> ~ (a = ASnap /\ p = PNoValues) ->
  counts_as_outcome (o_outcome (snd (step s (OMatch a hd test p)))) = true.
Proof. exact match_one_outcome. Qed.
Print Assumptions C20_one_outcome.

(* ... signalled to the test as nothing / one `added` log / one `updated` log / exactly one error *)
Theorem C20_signals : forall s o,
  (o_errors (snd (step s o)), o_logs (snd (step s o))) = signals_of (o_outcome (snd (step s o))).
Proof. exact step_obs_shape. Qed.
Print Assumptions C20_signals.

(* the counters Clean prints are exactly the tally of these outcomes over the whole history,
   and the skip counter is the number of snaps.Skip* calls *)
Theorem C20_counters : forall ops s,
  Forall api_op ops -> ~ In ONewProcess ops ->
  s_events (fst (run s ops)) = tally (snd (run s ops)) (s_events s) /\
  length (s_skipped (fst (run s ops))) = length (s_skipped s) + count_skips (snd (run s ops)).
Proof. exact run_counters. Qed.
Print Assumptions C20_counters.

Example C20_example :
  let e := {| ci := false; upd := UUnset; colour := false |} in
  let s := init_state e [47; 120]%N [47; 83]%N in
  let '(s1, obs) := run s [OMatch ASnap 0 [84]%N (POk [97]%N); OMatch ASnap 0 [85]%N (POk [97]%N);
                           OEndTest [84]%N; OMatch ASnap 0 [84]%N (POk [98]%N); OSkip [86]%N;
                           OMatch AJson 0 [85]%N PInvalid] in
  s_events s1 = {| n_erred := 2; n_added := 2; n_updated := 0; n_passed := 0 |} /\
  length (s_skipped s1) = 1.
Proof. vm_compute. split; reflexivity. Qed.
