(* C04 - update mode converges and rewrites only what differs. *)
From Coq Require Import String.
From Coq Require Import List NArith Bool Lia.
Import ListNotations.
From Snaps Require Import Base.Bytes Base.Lines Base.Dec Base.Assoc.
From Snaps Require Import Model.Frame Model.PathModel Model.Mode Model.Api.
From Snaps Require Import Proofs.BytesP Proofs.LinesP Proofs.FrameP Proofs.ApiP Proofs.StandaloneP
  Proofs.StepP Proofs.IsolationP Proofs.OutcomeP.
From Snaps Require Import Proofs.HistoryP Proofs.UpdateHistoryP Proofs.StandaloneHistoryP.

(* the rewrite replaces exactly the entries under the header, byte for byte, and leaves every
   other entry byte-identical and in place: the new file IS the rendering of the old entry
   list with that entry's body replaced (so shorter/longer/empty/multi-line bodies leave no
   residue of the old file length) *)
Theorem C04_rewrite_exact : forall tid snap es,
  Forall wf_entry es -> no_collision tid es -> tid <> [] -> tid <> endseq ->
  update_entry tid snap (render es) = render (map (replace_entry tid snap) es).
Proof. exact update_entry_render. Qed.
Print Assumptions C04_rewrite_exact.

(* the rewritten slot replays the new value: an immediately following read-only run passes *)
Theorem C04_converges : forall tid snap es,
  Forall wf_entry es -> wf_entry (tid, snap) -> no_collision tid es -> ~ In tid (split_nl snap) ->
  tid <> [] -> tid <> endseq -> lookup_entry tid es <> None ->
  option_map fst (get_prev tid (update_entry tid snap (render es))) = Some snap.
Proof. exact update_sets. Qed.
Print Assumptions C04_converges.

Theorem C04_stored_value_passes : forall a text, same a (snap_of a text) text = true.
Proof. exact same_snap. Qed.
Print Assumptions C04_stored_value_passes.

(* calls whose values already match perform no write at all; a mismatch is rewritten only when
   updating is enabled (full decision table of a multi-entry call) *)
Theorem C04_call_table : forall s a c test text,
  is_standalone a = false ->
  let path := multi_path s c test in
  let id := multi_id s c test in
  let r := fst (reg_multi s path test) in
  exists s' o, multi_call s a c test (POk text) = (s', o) /\
    o_path o = path /\ o_id o = id /\ reg_view s' = reg_view r /\ s_env s' = s_env s /\
    s_cleanup s' = s_cleanup r /\ s_scleanup s' = s_scleanup s /\ s_skipped s' = s_skipped s /\
    match lookup_slot (s_fs s) path id with
    | Some (prev, line) =>
        if same a prev text then
          o_outcome o = Passed /\ o_writes o = [] /\ s_fs s' = s_fs s /\ o_line o = line
        else if should_update (s_env s) (c_update c) then
          o_outcome o = Updated /\ o_writes o = [(WRewrite, path)] /\
          s_fs s' = aset path (update_entry id (snap_of a text) (file_or_empty (s_fs s) path)) (s_fs s)
        else o_outcome o = Failed EDiff /\ o_writes o = [] /\ s_fs s' = s_fs s /\ o_line o = line
    | None =>
        if should_create (s_env s) (c_update c) then
          o_outcome o = Added /\
          o_writes o = [(match alookup path (s_fs s) with Some _ => WAppend | None => WCreate end, path)] /\
          s_fs s' = aset path (add_entry id (snap_of a text) (file_or_empty (s_fs s) path)) (s_fs s)
        else o_outcome o = Failed ENotFound /\ o_writes o = [] /\ s_fs s' = s_fs s
    end /\
    s_events s' = bump (o_outcome o) (s_events s) /\
    o_errors o = (match o_outcome o with Failed _ => 1 | _ => 0 end) /\
    o_logs o = (match o_outcome o with Added => [LAdded] | Updated => [LUpdated] | _ => [] end).
Proof. exact multi_call_spec. Qed.
Print Assumptions C04_call_table.

(* standalone variants: the file is replaced wholesale *)
Theorem C04_standalone : forall s a c test text prev s' o,
  alookup (stand_path s c test) (s_fs s) = Some prev -> prev <> text ->
  stand_call s a c test (POk text) = (s', o) ->
  (should_update (s_env s) (c_update c) = false /\
     o_outcome o = Failed EDiff /\ o_errors o = 1 /\ o_writes o = [] /\ s_fs s' = s_fs s)
  \/ (should_update (s_env s) (c_update c) = true /\
     o_outcome o = Updated /\ o_errors o = 0 /\ o_logs o = [LUpdated] /\
     alookup (o_path o) (s_fs s') = Some text).
Proof. exact stand_mismatch. Qed.
Print Assumptions C04_standalone.

Example C04_example :
  let es := [(B "[TestA - 1]", B "a"); (B "[TestB - 1]", (B "long" ++ [nl] ++ B "body")%list); (B "[TestC - 1]", [])] in
  update_entry (B "[TestB - 1]") [] (render es) =
  render [(B "[TestA - 1]", B "a"); (B "[TestB - 1]", []); (B "[TestC - 1]", [])].
Proof. vm_compute. reflexivity. Qed.

(* ---------- over histories: update mode CONVERGES ---------- *)

(* a run that rewrites entries (any history of multi-entry calls on entry-structured collision-free files, one value per slot)
   leaves the files in a state that the SAME run - in update mode again, or in any other mode - passes silently without a
   single write: a second update run changes nothing *)
Theorem C04_update_run_converges : forall H s0 h e2,
  fresh s0 -> headers_ok H -> efs_ok H (s_fs s0) ->
  Forall hist_op_ok h -> Forall has_value h ->
  Forall rec_ok_upd (snd (run s0 h)) ->
  Forall (fact_ok H) (facts s0 h) -> consistent (facts s0 h) ->
  let s1 := fst (run s0 h) in
  let t0 := replay_start s1 e2 in
  Forall silent_pass (snd (run t0 h)) /\ s_fs (fst (run t0 h)) = s_fs s1.
Proof. exact replay_after_update. Qed.
Print Assumptions C04_update_run_converges.

(* ... and so do standalone files, which update mode replaces wholesale *)
Theorem C04_standalone_update_run_converges : forall s0 h e2,
  fresh s0 -> Forall stand_op_ok h -> Forall has_value h -> Forall rec_ok_upd (snd (run s0 h)) ->
  sconsistent (sfacts s0 h) ->
  let s1 := fst (run s0 h) in
  let t0 := replay_start s1 e2 in
  Forall silent_pass (snd (run t0 h)) /\ s_fs (fst (run t0 h)) = s_fs s1.
Proof. exact standalone_replay_after_update. Qed.
Print Assumptions C04_standalone_update_run_converges.

(* non-vacuity: every theorem of this file that has hypotheses has a concrete, non-trivial instance meeting ALL of them
   (lemmas <Theorem>_witness / <Theorem>_applied in Proofs/WitnessesP.v); a representative one is restated here *)
From Snaps Require Import Proofs.WitnessesP.
Example C04_witnesses :
  (fresh w04_s0 /\ headers_ok w04_H /\ efs_ok w04_H (s_fs w04_s0) /\
   Forall hist_op_ok w04_h /\ Forall has_value w04_h /\ Forall rec_ok_upd (snd (run w04_s0 w04_h)) /\
   Forall (fact_ok w04_H) (facts w04_s0 w04_h) /\ consistent (facts w04_s0 w04_h) /\
   map o_outcome (snd (run w04_s0 w04_h)) = w04_outcomes) /\
  (fresh w04_ss0 /\ Forall stand_op_ok w04_sh /\ Forall has_value w04_sh /\
   Forall rec_ok_upd (snd (run w04_ss0 w04_sh)) /\ sconsistent (sfacts w04_ss0 w04_sh) /\
   map o_outcome (snd (run w04_ss0 w04_sh)) = w04_soutcomes) /\
  (Forall wf_entry w04_es /\ wf_entry (w04_tid2, w04_snap) /\ no_collision w04_tid2 w04_es /\
   ~ In w04_tid2 (split_nl w04_snap) /\ w04_tid2 <> [] /\ w04_tid2 <> endseq /\
   lookup_entry w04_tid2 w04_es <> None).
Proof. exact C04_witnesses_all. Qed.
