(* C13 - the failure report is empty only for identical text and shows the true edit.
   All statements are for arbitrary texts / line sequences (no size bound). *)
From Coq Require Import List NArith Bool Lia.
Import ListNotations.
From Snaps Require Import Base.Bytes Base.Lines.
From Snaps Require Import Model.Difflib Model.DifflibSpec Model.Report Model.ReportSpec.
From Snaps Require Import Proofs.DifflibP Proofs.ReportP.
From Snaps Require Import Model.Summary Model.ReportReader Proofs.ReportReaderP.
From Snaps Require Import Model.ScriptGen Proofs.ScriptGenP.

(* comparing two texts yields an empty report iff they are byte-identical *)
Theorem C13_empty_iff : forall (a b name : bytes) (line : nat),
  pretty_diff_nocolor a b name line = [] <-> a = b.
Proof. exact pretty_diff_empty_iff. Qed.
Print Assumptions C13_empty_iff.

(* header counts equal the numbers of `-` and `+` lines shown *)
Theorem C13_counts : forall a b : bytes,
  r_ins (unified_nocolor a b) = count_ins (r_lines (unified_nocolor a b)) /\
  r_del (unified_nocolor a b) = count_del (r_lines (unified_nocolor a b)).
Proof. exact unified_counts. Qed.
Print Assumptions C13_counts.

(* every `-` line is a line of the stored text, every `+` line a line of the received text *)
Theorem C13_lines_truthful : forall a b l : bytes,
  (In (RDel l) (r_lines (unified_nocolor a b)) -> In l (split_newlines a)) /\
  (In (RIns l) (r_lines (unified_nocolor a b)) -> In l (split_newlines b)).
Proof. exact report_lines_truthful. Qed.
Print Assumptions C13_lines_truthful.

(* taking the `-` lines out of the stored text and the `+` lines out of the received text
   leaves the same lines: both texts decompose along the edit script into kept + deleted,
   resp. kept + inserted pieces, the kept pieces coincide, and the `-`/`+` lines shown are
   exactly the deleted / inserted pieces *)
Theorem C13_residual : forall a b : bytes,
  let al := split_newlines a in
  let bl := split_newlines b in
  let ops := get_opcodes al bl in
  al = concat (map (fun c => kept_a_of al c ++ deleted_of al c) ops) /\
  bl = concat (map (fun c => kept_a_of al c ++ inserted_of bl c) ops) /\
  map (kept_a_of al) ops = map (kept_b_of bl) ops /\
  del_lines (r_lines (unified_nocolor a b)) = concat (map (deleted_of al) ops) /\
  ins_lines (r_lines (unified_nocolor a b)) = concat (map (inserted_of bl) ops).
Proof. exact report_residual. Qed.
Print Assumptions C13_residual.

(* NO_COLOR mode adds no escape sequences *)
Theorem C13_no_escape : forall (a b name : bytes) (line : nat),
  ~ In 27%N (a ++ b ++ name) -> ~ In 27%N (pretty_diff_nocolor a b name line).
Proof. exact pretty_diff_no_esc_In. Qed.
Print Assumptions C13_no_escape.

(* line splitting keeps every byte: two texts with the same lines are the same text *)
Theorem C13_split_inj : forall s t : bytes, split_newlines s = split_newlines t -> s = t.
Proof. exact split_newlines_inj. Qed.
Print Assumptions C13_split_inj.

(* ---- underneath: the line edit script ---- *)

(* the longest-match search returns a genuine common run inside the window *)
Theorem C13_longest_match_valid : forall (a b : list line) alo ahi blo bhi i j k,
  alo <= ahi -> ahi <= length a -> blo <= bhi -> bhi <= length b ->
  find_longest_match a b alo ahi blo bhi = (i, j, k) ->
  alo <= i /\ i + k <= ahi /\ blo <= j /\ j + k <= bhi /\
  (forall t, t < k -> nth (i + t) a [] = nth (j + t) b []).
Proof. exact flm_valid. Qed.
Print Assumptions C13_longest_match_valid.

(* the script tiles both texts contiguously ... *)
Theorem C13_tile_first : forall (a b : list line) c r,
  get_opcodes a b = c :: r -> i1 c = 0 /\ j1 c = 0.
Proof. exact opcodes_tile_first. Qed.
Theorem C13_tile_abut : forall (a b : list line) l1 c d l2,
  get_opcodes a b = l1 ++ c :: d :: l2 -> i1 d = i2 c /\ j1 d = j2 c.
Proof. exact opcodes_tile_abut. Qed.
Theorem C13_tile_last : forall (a b : list line) l c,
  get_opcodes a b = l ++ [c] -> i2 c = length a /\ j2 c = length b.
Proof. exact opcodes_tile_last. Qed.
Print Assumptions C13_tile_first.
Print Assumptions C13_tile_abut.
Print Assumptions C13_tile_last.

(* ... marks as equal only identical lines (and every opcode has the shape of its tag) ... *)
Theorem C13_equal_sound : forall (a b : list line) c,
  In c (get_opcodes a b) ->
  match op_tag c with
  | Equal => slice a (i1 c) (i2 c) = slice b (j1 c) (j2 c) /\ i1 c < i2 c /\ j1 c < j2 c
  | Insert => i1 c = i2 c /\ j1 c < j2 c
  | Delete => i1 c < i2 c /\ j1 c = j2 c
  | Replace => i1 c < i2 c /\ j1 c < j2 c
  end.
Proof. exact opcodes_equal_sound. Qed.
Print Assumptions C13_equal_sound.

(* ... replays the first text into the second ... *)
Theorem C13_replay : forall a b : list line,
  replay_b a b (get_opcodes a b) = b /\ replay_a a (get_opcodes a b) = a.
Proof. exact opcodes_replay. Qed.
Print Assumptions C13_replay.

(* ... and hunks never omit a changed line, for every context size *)
Theorem C13_hunks_keep_changes : forall n (a b : list line),
  filter non_equal (concat (grouped_opcodes n a b)) = filter non_equal (get_opcodes a b).
Proof. exact grouped_no_change_lost. Qed.
Theorem C13_hunks_contiguous : forall n (a b : list line),
  Forall abuts (grouped_opcodes n a b).
Proof. exact grouped_abut. Qed.
Print Assumptions C13_hunks_keep_changes.
Print Assumptions C13_hunks_contiguous.

(* non-vacuity: a replace in the middle of 12 lines produces a ranged hunk *)
Example C13_example :
  let a := [97;10;98;10;99;10;100;10;101;10;102;10;103;10;104;10;105;10;106;10;107;10;108]%N in
  let b := [97;10;98;10;99;10;100;10;101;10;88;10;103;10;104;10;105;10;106;10;107;10;108]%N in
  r_ins (unified_nocolor a b) = 1 /\ r_del (unified_nocolor a b) = 1 /\
  length (get_opcodes (split_newlines a) (split_newlines b)) = 3 /\
  pretty_diff_nocolor a b [] 0 <> [].
Proof. vm_compute. repeat split; discriminate. Qed.

(* ---------- the PRINTED BYTES carry the structure ---------- *)

(* an independent line-oriented reader of the NO_COLOR report (header counts with their padding, 2-byte line prefixes, range
   lines, footer) recovers from the printed bytes exactly the counts and the shown lines the report was printed from *)
Theorem C13_report_readable : forall a b name line,
  a <> b -> name_ok name = true ->
  read_report (pretty_diff_nocolor a b name line) =
  Some {| rr_del_count := r_del (unified_nocolor a b); rr_ins_count := r_ins (unified_nocolor a b);
          rr_lines := r_lines (unified_nocolor a b);
          rr_footer := match name with [] => None | _ :: _ => Some (name, line) end |}.
Proof. exact read_report_correct. Qed.
Print Assumptions C13_report_readable.

(* hence, about the bytes: the two numbers in the header equal the numbers of `- ` and `+ ` lines shown *)
Theorem C13_printed_counts : forall a b name line,
  a <> b -> name_ok name = true ->
  exists rr, read_report (pretty_diff_nocolor a b name line) = Some rr /\
             rr_del_count rr = count_del (rr_lines rr) /\ rr_ins_count rr = count_ins (rr_lines rr).
Proof. exact printed_counts. Qed.
(* every line printed behind `- ` is a line of the stored text, every line behind `+ ` a line of the received text *)
Theorem C13_printed_lines_truthful : forall a b name line,
  a <> b -> name_ok name = true ->
  exists rr, read_report (pretty_diff_nocolor a b name line) = Some rr /\
             (forall l, In (RDel l) (rr_lines rr) -> In l (split_newlines a)) /\
             (forall l, In (RIns l) (rr_lines rr) -> In l (split_newlines b)).
Proof. exact printed_lines_truthful. Qed.
(* two reports with the same bytes show the same lines and counts *)
Theorem C13_printed_injective : forall a b name line a' b' name' line',
  a <> b -> name_ok name = true -> name_ok name' = true ->
  pretty_diff_nocolor a b name line = pretty_diff_nocolor a' b' name' line' ->
  unified_nocolor a b = unified_nocolor a' b' /\ name = name' /\ (name <> [] -> line = line').
Proof. exact printed_injective. Qed.
Print Assumptions C13_printed_counts.
Print Assumptions C13_printed_lines_truthful.
Print Assumptions C13_printed_injective.


(* ====================================================================================================================
   The same statements for EVERY valid edit script - not only the one this model's matcher picks.

   [valid_script a b ops] is an executable checker (tiling + the shape of every opcode); [report_of_script] prints the
   report of an arbitrary script with the functions the model of the Go code uses. The correspondence check feeds the
   opcodes the IMPLEMENTATION produced into both: they must pass [valid_script], and the implementation's report must be
   [report_of_script] of them. A library that picks another valid script (auto-junk off, another matcher) is then still
   covered by the theorems below; the model's own choice ([get_opcodes]) is one instance.
   ==================================================================================================================== *)

(* the checker decides exactly "tiles both sequences and every opcode has the shape of its tag" *)
Theorem C13_valid_script_spec : forall (a b : list line) (ops : list opcode),
  valid_script a b ops = true <-> tiles 0 0 ops (length a) (length b) /\ Forall (op_wf a b) ops.
Proof. exact valid_script_spec. Qed.
Print Assumptions C13_valid_script_spec.

(* the model's matcher produces one valid script, and printing it is the model's report *)
Theorem C13_model_script_valid : forall a b : list line, valid_script a b (get_opcodes a b) = true.
Proof. exact get_opcodes_valid. Qed.
Theorem C13_model_report_is_script_report : forall (a b name : bytes) (line : nat),
  report_of_script a b (get_opcodes (split_newlines a) (split_newlines b)) name line = pretty_diff_nocolor a b name line.
Proof. exact report_of_script_model. Qed.
Print Assumptions C13_model_script_valid.
Print Assumptions C13_model_report_is_script_report.

(* empty iff byte-identical *)
Theorem C13_script_empty_iff : forall (a b : bytes) (ops : list opcode) (name : bytes) (line : nat),
  valid_script (split_newlines a) (split_newlines b) ops = true ->
  (report_of_script a b ops name line = [] <-> a = b).
Proof. exact report_of_script_empty_iff. Qed.
Print Assumptions C13_script_empty_iff.

(* no escape byte is added *)
Theorem C13_script_no_escape : forall (a b : bytes) (ops : list opcode) (name : bytes) (line : nat),
  ~ In 27%N (a ++ b ++ name) -> ~ In 27%N (report_of_script a b ops name line).
Proof. exact report_of_script_no_esc_In. Qed.
Print Assumptions C13_script_no_escape.

(* header counts = lines shown; every `-` line is a stored line, every `+` line a received line (any script at all) *)
Theorem C13_script_counts : forall (al bl : list bytes) (ops : list opcode),
  r_ins (unified_of_script al bl ops) = count_ins (r_lines (unified_of_script al bl ops)) /\
  r_del (unified_of_script al bl ops) = count_del (r_lines (unified_of_script al bl ops)).
Proof. exact script_counts. Qed.
Theorem C13_script_lines_truthful : forall (al bl : list bytes) (ops : list opcode) (l : bytes),
  (In (RDel l) (r_lines (unified_of_script al bl ops)) -> In l al) /\
  (In (RIns l) (r_lines (unified_of_script al bl ops)) -> In l bl).
Proof. exact script_lines_truthful. Qed.
Print Assumptions C13_script_counts.
Print Assumptions C13_script_lines_truthful.

(* taking the `-` lines out of the stored text and the `+` lines out of the received text leaves the same lines *)
Theorem C13_script_residual : forall (a b : bytes) (ops : list opcode),
  let al := split_newlines a in
  let bl := split_newlines b in
  valid_script al bl ops = true ->
  al = concat (map (fun c => kept_a_of al c ++ deleted_of al c) ops) /\
  bl = concat (map (fun c => kept_a_of al c ++ inserted_of bl c) ops) /\
  map (kept_a_of al) ops = map (kept_b_of bl) ops /\
  del_lines (r_lines (unified_of_script al bl ops)) = concat (map (deleted_of al) ops) /\
  ins_lines (r_lines (unified_of_script al bl ops)) = concat (map (inserted_of bl) ops).
Proof. exact script_residual. Qed.
Print Assumptions C13_script_residual.

(* underneath: tiling, equal only for identical lines, replay, hunks keep every change and stay contiguous *)
Theorem C13_script_tile_first : forall (a b : list line) (ops : list opcode),
  valid_script a b ops = true -> forall c r, ops = c :: r -> i1 c = 0 /\ j1 c = 0.
Proof. exact script_tile_first. Qed.
Theorem C13_script_tile_abut : forall (a b : list line) (ops : list opcode),
  valid_script a b ops = true -> forall l1 c d l2, ops = l1 ++ c :: d :: l2 -> i1 d = i2 c /\ j1 d = j2 c.
Proof. exact script_tile_abut. Qed.
Theorem C13_script_tile_last : forall (a b : list line) (ops : list opcode),
  valid_script a b ops = true -> forall l c, ops = l ++ [c] -> i2 c = length a /\ j2 c = length b.
Proof. exact script_tile_last. Qed.
Theorem C13_script_equal_sound : forall (a b : list line) (ops : list opcode),
  valid_script a b ops = true -> forall c, In c ops ->
  match op_tag c with
  | Equal => slice a (i1 c) (i2 c) = slice b (j1 c) (j2 c) /\ i1 c < i2 c /\ j1 c < j2 c
  | Insert => i1 c = i2 c /\ j1 c < j2 c
  | Delete => i1 c < i2 c /\ j1 c = j2 c
  | Replace => i1 c < i2 c /\ j1 c < j2 c
  end.
Proof. exact script_equal_sound. Qed.
Theorem C13_script_replay : forall (a b : list line) (ops : list opcode),
  valid_script a b ops = true -> replay_b a b ops = b /\ replay_a a ops = a.
Proof. exact script_replay. Qed.
Theorem C13_script_hunks_keep_changes : forall n (ops : list opcode),
  filter non_equal (concat (grouped_of_codes n ops)) = filter non_equal ops.
Proof. exact script_hunks_keep_changes. Qed.
Theorem C13_script_hunks_contiguous : forall (a b : list line) (ops : list opcode),
  valid_script a b ops = true -> forall n, Forall abuts (grouped_of_codes n ops).
Proof. exact script_hunks_contiguous. Qed.
Print Assumptions C13_script_tile_first.
Print Assumptions C13_script_tile_abut.
Print Assumptions C13_script_tile_last.
Print Assumptions C13_script_equal_sound.
Print Assumptions C13_script_replay.
Print Assumptions C13_script_hunks_keep_changes.
Print Assumptions C13_script_hunks_contiguous.

(* the PRINTED BYTES of any valid script's report carry the structure (read back by the independent reader) *)
Theorem C13_script_report_readable : forall (a b : bytes) (ops : list opcode) (name : bytes) (line : nat),
  let al := split_newlines a in
  let bl := split_newlines b in
  valid_script al bl ops = true -> a <> b -> name_ok name = true ->
  read_report (report_of_script a b ops name line) =
  Some {| rr_del_count := r_del (unified_of_script al bl ops);
          rr_ins_count := r_ins (unified_of_script al bl ops);
          rr_lines := r_lines (unified_of_script al bl ops);
          rr_footer := match name with [] => None | _ :: _ => Some (name, line) end |}.
Proof. exact read_report_of_script. Qed.
Theorem C13_script_printed_counts : forall (a b : bytes) (ops : list opcode) (name : bytes) (line : nat),
  valid_script (split_newlines a) (split_newlines b) ops = true -> a <> b -> name_ok name = true ->
  exists rr, read_report (report_of_script a b ops name line) = Some rr /\
             rr_del_count rr = count_del (rr_lines rr) /\ rr_ins_count rr = count_ins (rr_lines rr).
Proof. exact script_printed_counts. Qed.
Theorem C13_script_printed_lines_truthful : forall (a b : bytes) (ops : list opcode) (name : bytes) (line : nat),
  valid_script (split_newlines a) (split_newlines b) ops = true -> a <> b -> name_ok name = true ->
  exists rr, read_report (report_of_script a b ops name line) = Some rr /\
             (forall l, In (RDel l) (rr_lines rr) -> In l (split_newlines a)) /\
             (forall l, In (RIns l) (rr_lines rr) -> In l (split_newlines b)).
Proof. exact script_printed_lines_truthful. Qed.
Theorem C13_script_printed_residual : forall (a b : bytes) (ops : list opcode) (name : bytes) (line : nat),
  let al := split_newlines a in
  let bl := split_newlines b in
  valid_script al bl ops = true -> a <> b -> name_ok name = true ->
  exists rr, read_report (report_of_script a b ops name line) = Some rr /\
    al = concat (map (fun c => kept_a_of al c ++ deleted_of al c) ops) /\
    bl = concat (map (fun c => kept_a_of al c ++ inserted_of bl c) ops) /\
    map (kept_a_of al) ops = map (kept_b_of bl) ops /\
    del_lines (rr_lines rr) = concat (map (deleted_of al) ops) /\
    ins_lines (rr_lines rr) = concat (map (inserted_of bl) ops).
Proof. exact script_printed_residual. Qed.
Print Assumptions C13_script_report_readable.
Print Assumptions C13_script_printed_counts.
Print Assumptions C13_script_printed_lines_truthful.
Print Assumptions C13_script_printed_residual.

(* non-vacuity: on a 202-line pair where the auto-junk heuristic fires, the model's script and the script a matcher without
   that heuristic gives are BOTH valid, and their reports differ *)
Example C13_two_valid_scripts :
  valid_script ex_al ex_bl (get_opcodes ex_al ex_bl) = true /\ valid_script ex_al ex_bl ex_hand = true /\
  get_opcodes ex_al ex_bl <> ex_hand /\
  report_of_script ex_a ex_b (get_opcodes ex_al ex_bl) [] 0 <> report_of_script ex_a ex_b ex_hand [] 0.
Proof. vm_compute. repeat split; discriminate. Qed.

(* the reader does not depend on the WORDING of the header: any two labels (non-empty, free of space and newline) and any
   padding read to the same counts, lines and footer as the real ones. The correspondence check reads the bytes the
   implementation printed with this reader and compares what was read with the structured report of the implementation's script. *)
Theorem C13_reader_label_irrelevant : forall (ld li : bytes) (u : acc3) (name : bytes) (line : nat),
  label_ok ld = true -> label_ok li = true -> Forall rline_wf (r_lines u) -> r_lines u <> [] -> name_ok name = true ->
  read_report (render_lbl ld li u name line) = read_report (render_nocolor u name line).
Proof. exact read_report_label_irrelevant. Qed.
From Coq Require Import String.
Theorem C13_real_labels : forall (u : acc3) (name : bytes) (line : nat),
  render_lbl (B "Snapshot"%string) (B "Received"%string) u name line = render_nocolor u name line.
Proof. exact render_lbl_real. Qed.
Print Assumptions C13_reader_label_irrelevant.
Print Assumptions C13_real_labels.


(* ====================================================================================================================
   The number of context lines is PRESENTATION.

   [report_of_script_n n] / [unified_of_script_n n] print a script with n unchanged lines around each change (the code
   uses n = context = 3; [report_of_script] / [unified_of_script] above are these functions at n = context, by
   computation). The statements hold for EVERY n - no hypothesis on n, n = 0 included: grouping with any n keeps every
   changed line ([C13_script_hunks_keep_changes]), so n only decides which unchanged lines are shown and where hunks are
   cut. A library showing 5 lines of context keeps the property.
   (String is imported above: [List.concat] is written in full below.)
   ==================================================================================================================== *)

Theorem C13_script_n_is_context : forall (a b : bytes) (ops : list opcode) (name : bytes) (line : nat),
  report_of_script_n context a b ops name line = report_of_script a b ops name line /\
  unified_of_script_n context (split_newlines a) (split_newlines b) ops
  = unified_of_script (split_newlines a) (split_newlines b) ops.
Proof. intros. split; [exact (report_of_script_n_context a b ops name line)|exact (unified_of_script_n_context _ _ ops)]. Qed.
Print Assumptions C13_script_n_is_context.

(* empty iff byte-identical *)
Theorem C13_script_n_empty_iff : forall (n : nat) (a b : bytes) (ops : list opcode) (name : bytes) (line : nat),
  valid_script (split_newlines a) (split_newlines b) ops = true ->
  (report_of_script_n n a b ops name line = [] <-> a = b).
Proof. exact report_of_script_n_empty_iff. Qed.
Print Assumptions C13_script_n_empty_iff.

(* header counts = lines shown (any script at all) *)
Theorem C13_script_n_counts : forall (n : nat) (al bl : list bytes) (ops : list opcode),
  r_ins (unified_of_script_n n al bl ops) = count_ins (r_lines (unified_of_script_n n al bl ops)) /\
  r_del (unified_of_script_n n al bl ops) = count_del (r_lines (unified_of_script_n n al bl ops)).
Proof. exact script_counts_n. Qed.
Print Assumptions C13_script_n_counts.

(* every `-` line is a stored line, every `+` line a received line (any script at all) *)
Theorem C13_script_n_lines_truthful : forall (n : nat) (al bl : list bytes) (ops : list opcode) (l : bytes),
  (In (RDel l) (r_lines (unified_of_script_n n al bl ops)) -> In l al) /\
  (In (RIns l) (r_lines (unified_of_script_n n al bl ops)) -> In l bl).
Proof. exact script_lines_truthful_n. Qed.
Print Assumptions C13_script_n_lines_truthful.

(* taking the `-` lines out of the stored text and the `+` lines out of the received text leaves the same lines *)
Theorem C13_script_n_residual : forall (n : nat) (a b : bytes) (ops : list opcode),
  let al := split_newlines a in
  let bl := split_newlines b in
  valid_script al bl ops = true ->
  al = List.concat (map (fun c => kept_a_of al c ++ deleted_of al c)%list ops) /\
  bl = List.concat (map (fun c => kept_a_of al c ++ inserted_of bl c)%list ops) /\
  map (kept_a_of al) ops = map (kept_b_of bl) ops /\
  del_lines (r_lines (unified_of_script_n n al bl ops)) = List.concat (map (deleted_of al) ops) /\
  ins_lines (r_lines (unified_of_script_n n al bl ops)) = List.concat (map (inserted_of bl) ops).
Proof. exact script_residual_n. Qed.
Print Assumptions C13_script_n_residual.

(* no escape byte is added *)
Theorem C13_script_n_no_escape : forall (n : nat) (a b : bytes) (ops : list opcode) (name : bytes) (line : nat),
  ~ In 27%N (a ++ b ++ name)%list -> ~ In 27%N (report_of_script_n n a b ops name line).
Proof. exact report_of_script_n_no_esc_In. Qed.
Print Assumptions C13_script_n_no_escape.

(* the PRINTED BYTES carry the structure, for every n *)
Theorem C13_script_n_report_readable : forall (n : nat) (a b : bytes) (ops : list opcode) (name : bytes) (line : nat),
  let al := split_newlines a in
  let bl := split_newlines b in
  valid_script al bl ops = true -> a <> b -> name_ok name = true ->
  read_report (report_of_script_n n a b ops name line) =
  Some {| rr_del_count := r_del (unified_of_script_n n al bl ops);
          rr_ins_count := r_ins (unified_of_script_n n al bl ops);
          rr_lines := r_lines (unified_of_script_n n al bl ops);
          rr_footer := match name with [] => None | _ :: _ => Some (name, line) end |}.
Proof. exact read_report_of_script_n. Qed.
Print Assumptions C13_script_n_report_readable.

Theorem C13_script_n_printed_counts : forall (n : nat) (a b : bytes) (ops : list opcode) (name : bytes) (line : nat),
  valid_script (split_newlines a) (split_newlines b) ops = true -> a <> b -> name_ok name = true ->
  exists rr, read_report (report_of_script_n n a b ops name line) = Some rr /\
             rr_del_count rr = count_del (rr_lines rr) /\ rr_ins_count rr = count_ins (rr_lines rr).
Proof. exact script_printed_counts_n. Qed.
Print Assumptions C13_script_n_printed_counts.

Theorem C13_script_n_printed_lines_truthful : forall (n : nat) (a b : bytes) (ops : list opcode) (name : bytes) (line : nat),
  valid_script (split_newlines a) (split_newlines b) ops = true -> a <> b -> name_ok name = true ->
  exists rr, read_report (report_of_script_n n a b ops name line) = Some rr /\
             (forall l, In (RDel l) (rr_lines rr) -> In l (split_newlines a)) /\
             (forall l, In (RIns l) (rr_lines rr) -> In l (split_newlines b)).
Proof. exact script_printed_lines_truthful_n. Qed.
Print Assumptions C13_script_n_printed_lines_truthful.

Theorem C13_script_n_printed_residual : forall (n : nat) (a b : bytes) (ops : list opcode) (name : bytes) (line : nat),
  let al := split_newlines a in
  let bl := split_newlines b in
  valid_script al bl ops = true -> a <> b -> name_ok name = true ->
  exists rr, read_report (report_of_script_n n a b ops name line) = Some rr /\
    al = List.concat (map (fun c => kept_a_of al c ++ deleted_of al c)%list ops) /\
    bl = List.concat (map (fun c => kept_a_of al c ++ inserted_of bl c)%list ops) /\
    map (kept_a_of al) ops = map (kept_b_of bl) ops /\
    del_lines (rr_lines rr) = List.concat (map (deleted_of al) ops) /\
    ins_lines (rr_lines rr) = List.concat (map (inserted_of bl) ops).
Proof. exact script_printed_residual_n. Qed.
Print Assumptions C13_script_n_printed_residual.

(* two reports with the same bytes - printed from whatever valid scripts with whatever numbers of context lines - show
   the same lines and counts *)
Theorem C13_script_n_printed_injective : forall n a b ops name line n' a' b' ops' name' line',
  valid_script (split_newlines a) (split_newlines b) ops = true ->
  valid_script (split_newlines a') (split_newlines b') ops' = true ->
  a <> b -> name_ok name = true -> name_ok name' = true ->
  report_of_script_n n a b ops name line = report_of_script_n n' a' b' ops' name' line' ->
  unified_of_script_n n (split_newlines a) (split_newlines b) ops
  = unified_of_script_n n' (split_newlines a') (split_newlines b') ops' /\
  name = name' /\ (name <> [] -> line = line').
Proof. exact script_printed_injective_n. Qed.
Print Assumptions C13_script_n_printed_injective.

(* non-vacuity, on the 202-line pair and the script a matcher without auto-junk gives: 3 and 5 lines of context give
   different reports (same counts, same `-`/`+` lines, 13 resp. 15 shown lines), each reads back to its own structure;
   n = 0 shows the changes only and is still readable *)
Example C13_context_is_presentation :
  let f := B "f.snap"%string in
  valid_script ex_al ex_bl ex_hand = true /\
  report_of_script_n 3 ex_a ex_b ex_hand f 1 = report_of_script ex_a ex_b ex_hand f 1 /\
  report_of_script_n 3 ex_a ex_b ex_hand f 1 <> report_of_script_n 5 ex_a ex_b ex_hand f 1 /\
  read_report (report_of_script_n 3 ex_a ex_b ex_hand f 1) = Some (report_read_of (unified_of_script_n 3 ex_al ex_bl ex_hand) f 1) /\
  read_report (report_of_script_n 5 ex_a ex_b ex_hand f 1) = Some (report_read_of (unified_of_script_n 5 ex_al ex_bl ex_hand) f 1) /\
  read_report (report_of_script_n 0 ex_a ex_b ex_hand f 1) = Some (report_read_of (unified_of_script_n 0 ex_al ex_bl ex_hand) f 1) /\
  List.length (r_lines (unified_of_script_n 3 ex_al ex_bl ex_hand)) = 13 /\
  List.length (r_lines (unified_of_script_n 5 ex_al ex_bl ex_hand)) = 15 /\
  List.length (r_lines (unified_of_script_n 0 ex_al ex_bl ex_hand)) = 6 /\
  del_lines (r_lines (unified_of_script_n 3 ex_al ex_bl ex_hand)) = del_lines (r_lines (unified_of_script_n 5 ex_al ex_bl ex_hand)) /\
  ins_lines (r_lines (unified_of_script_n 3 ex_al ex_bl ex_hand)) = ins_lines (r_lines (unified_of_script_n 5 ex_al ex_bl ex_hand)) /\
  (r_del (unified_of_script_n 3 ex_al ex_bl ex_hand), r_ins (unified_of_script_n 3 ex_al ex_bl ex_hand)) = (2, 2) /\
  (r_del (unified_of_script_n 5 ex_al ex_bl ex_hand), r_ins (unified_of_script_n 5 ex_al ex_bl ex_hand)) = (2, 2) /\
  (r_del (unified_of_script_n 0 ex_al ex_bl ex_hand), r_ins (unified_of_script_n 0 ex_al ex_bl ex_hand)) = (2, 2).
Proof. vm_compute. repeat split; discriminate. Qed.

(* non-vacuity: every theorem of this file that has hypotheses has a concrete, non-trivial instance meeting ALL of them
   (lemmas <Theorem>_witness / <Theorem>_applied in Proofs/WitnessesP.v); a representative one is restated here *)
From Snaps Require Import Proofs.WitnessesP.
Example C13_witnesses :
  valid_script w13_al w13_bl w13_hand = true /\ w13_hand <> get_opcodes w13_al w13_bl /\
  w13_a <> w13_b /\ name_ok w13_name = true /\
  get_opcodes w13_al w13_bl = app w13_l1 (cons w13_c (cons w13_d w13_l2)) /\
  w13_hand = app w13_hl1 (cons w13_hc (cons w13_hd w13_hl2)) /\
  pretty_diff_nocolor w13_a w13_b w13_name w13_line = pretty_diff_nocolor w13_a2 w13_b2 w13_name w13_line /\
  w13_a <> w13_a2 /\ w13_b <> w13_b2 /\
  ~ In w13_esc (app w13_a (app w13_b w13_name)) /\
  label_ok w13_ld = true /\ label_ok w13_li = true /\ Forall rline_wf (r_lines w13_u_free) /\
  r_lines w13_u_free <> nil.
Proof. exact C13_witnesses_all. Qed.
