(* C09 - Clean reports every stale item, deletes only in clean mode, touches nothing else. *)
From Coq Require Import List NArith Bool Lia.
Import ListNotations.
From Snaps Require Import Base.Bytes Base.Assoc.
From Snaps Require Import Model.Frame Model.PathModel Model.Mode Model.Api Model.Natural Model.Clean.
From Snaps Require Import Proofs.CleanP.

(* when neither deleting nor sorting is allowed, Clean leaves every file as it was *)
Theorem C09_readonly : forall s sort_opt count,
  clean_deletes (s_env s) = false -> clean_sorts (s_env s) sort_opt = false ->
  s_fs (fst (clean_run s sort_opt count)) = s_fs s /\ cr_writes (snd (clean_run s sort_opt count)) = [].
Proof. exact clean_readonly. Qed.
Print Assumptions C09_readonly.

(* in particular on CI, whatever UPDATE_SNAPS and the sort option are *)
Theorem C09_ci_untouched : forall s sort_opt count,
  ci (s_env s) = true ->
  s_fs (fst (clean_run s sort_opt count)) = s_fs s /\ cr_writes (snd (clean_run s sort_opt count)) = [].
Proof. exact clean_ci_readonly. Qed.
Print Assumptions C09_ci_untouched.

(* a used file is rewritten only if (deleting allowed and a stale entry found) or sorting allowed *)
Theorem C09_rewrite_only_if : forall registered skipped update sort f o nf,
  examine_file registered skipped update sort f = (o, Some nf) ->
  (update = true /\ o <> []) \/ sort = true.
Proof. exact examine_file_rewrite_iff. Qed.
Print Assumptions C09_rewrite_only_if.

(* only unaddressed files whose name contains ".snap", directly inside a visited directory,
   are ever reported obsolete (and hence removed) *)
Theorem C09_only_snap_files : forall dir paths standalone names acc,
  let f := fun acc name =>
            if negb (contains snaps_ext name) then acc else
            let p := join2 dir name in
            if mem_bytes p paths then {| fr_obsolete := fr_obsolete acc; fr_used := fr_used acc ++ [p] |}
            else if mem_bytes p standalone then acc
            else {| fr_obsolete := fr_obsolete acc ++ [p]; fr_used := fr_used acc |} in
  forall p, In p (fr_obsolete (fold_left f names acc)) ->
  In p (fr_obsolete acc) \/
  exists name, In name names /\ contains snaps_ext name = true /\ p = join2 dir name /\
               mem_bytes p paths = false /\ mem_bytes p standalone = false.
Proof. exact examine_files_inner_snap. Qed.
Print Assumptions C09_only_snap_files.
