(* C09 - Clean reports every stale item, deletes only in clean mode, touches nothing else. *)
From Coq Require Import String.
From Coq Require Import List NArith Bool Lia Permutation.
Local Open Scope string_scope.
Import ListNotations.
From Snaps Require Import Base.Bytes Base.Assoc.
From Snaps Require Import Model.Frame Model.PathModel Model.Mode Model.Api Model.Natural Model.Clean Model.RunFilter.
From Snaps Require Import Proofs.FrameP Proofs.CleanP Proofs.CleanEntriesP Proofs.TestIdP Proofs.RunFilterP.

(* COMPLETE AND EXACT REPORT. For a well-formed addressed file with distinct recognised ids, in every
   mode: the entries reported obsolete are exactly those that are neither registered (addressed in this
   run) nor skip-protected - in file order, none missing, none extra. *)
Theorem C09_report_exact : forall reg skp update sort es,
  Forall centry_ok es -> NoDup (map fst es) ->
  fst (examine_file reg skp update sort (render (map to_entry es))) =
  map fst (filter (fun e => negb (kept reg skp e)) es).
Proof. exact obsolete_exact. Qed.
Print Assumptions C09_report_exact.

(* every id go-snaps writes for a Go test named Test... is recognised (so the theorem applies to
   every entry the library itself created) *)
Theorem C09_ids_recognised : forall name k,
  is_prefix (B "Test") name = true -> no_space name -> recognised (snapshot_occ_fmt name k).
Proof. exact recognised_go_name. Qed.
Print Assumptions C09_ids_recognised.

(* full description of what happens to one file: when it is rewritten and with what *)
Theorem C09_file_result : forall reg skp update sort es,
  Forall centry_ok es -> NoDup (map fst es) ->
  let obsolete := map fst (filter (fun e => negb (kept reg skp e)) es) in
  let ids := map fst es in
  let should_sort := sort && negb (is_sorted_nat ids) in
  let should_update := update && (match obsolete with [] => false | _ => true end) in
  examine_file reg skp update sort (render (map to_entry es)) =
  (obsolete,
   if negb should_update && negb should_sort then None
   else Some (render (map to_entry
          (flat_map (pick (stay reg skp update es)) (if should_sort then sort_nat ids else ids))))).
Proof. exact examine_file_entries. Qed.
Print Assumptions C09_file_result.

(* in every mode other than clean NO entry is removed (sorting may only reorder) ... *)
Theorem C09_report_only_keeps_all : forall reg skp es, stay reg skp false es = es.
Proof. exact stay_report_only. Qed.
(* ... and in clean mode exactly the reported entries are removed *)
Theorem C09_clean_removes_exactly : forall reg skp es, stay reg skp true es = filter (kept reg skp) es.
Proof. exact stay_clean. Qed.
Theorem C09_rewrite_is_permutation_of_staying : forall reg skp update sort es nf,
  Forall centry_ok es -> NoDup (map fst es) ->
  snd (examine_file reg skp update sort (render (map to_entry es))) = Some nf ->
  exists out, nf = render (map to_entry out) /\ Permutation out (stay reg skp update es).
Proof. exact rewrite_content. Qed.
Print Assumptions C09_report_only_keeps_all.
Print Assumptions C09_clean_removes_exactly.
Print Assumptions C09_rewrite_is_permutation_of_staying.

(* when neither deleting nor sorting is allowed, Clean leaves every file as it was *)
Theorem C09_readonly : forall s sort_opt count,
  clean_deletes (s_env s) = false -> clean_sorts (s_env s) sort_opt = false ->
  s_fs (fst (clean_run s sort_opt count)) = s_fs s /\ cr_writes (snd (clean_run s sort_opt count)) = [].
Proof. exact clean_readonly. Qed.
Print Assumptions C09_readonly.

(* in particular on CI, whatever UPDATE_SNAPS and the sort option are *)
Theorem C09_ci_untouched : forall s sort_opt count,
  ci (s_env s) = true ->
  s_fs (fst (clean_run s sort_opt count)) = s_fs s /\ cr_writes (snd (clean_run s sort_opt count)) = [].
Proof. exact clean_ci_readonly. Qed.
Print Assumptions C09_ci_untouched.

(* only unaddressed files whose name contains ".snap", directly inside a visited directory,
   are ever reported obsolete (and hence removed) *)
Theorem C09_only_snap_files : forall dir paths standalone names acc,
  let f := fun acc name =>
            if negb (contains snaps_ext name) then acc else
            let p := join2 dir name in
            if mem_bytes p paths then {| fr_obsolete := fr_obsolete acc; fr_used := fr_used acc ++ [p] |}
            else if mem_bytes p standalone then acc
            else {| fr_obsolete := fr_obsolete acc ++ [p]; fr_used := fr_used acc |} in
  forall p, In p (fr_obsolete (fold_left f names acc)) ->
  In p (fr_obsolete acc) \/
  exists name, In name names /\ contains snaps_ext name = true /\ p = join2 dir name /\
               mem_bytes p paths = false /\ mem_bytes p standalone = false.
Proof. exact examine_files_inner_snap. Qed.
Print Assumptions C09_only_snap_files.

Example C09_example :
  let es := [(B "TestA - 1", B "a"); (B "TestOld - 1", B "stale"); (B "TestA - 2", B "b")] in
  Forall centry_ok es /\
  examine_file [B "TestA - 1"; B "TestA - 2"] [] true false (render (map to_entry es)) =
  ([B "TestOld - 1"], Some (render (map to_entry [(B "TestA - 1", B "a"); (B "TestA - 2", B "b")]))) /\
  examine_file [B "TestA - 1"; B "TestA - 2"] [] false false (render (map to_entry es)) = ([B "TestOld - 1"], None).
Proof.
  split; [|split; vm_compute; reflexivity].
  repeat constructor; try (vm_compute; reflexivity); try (vm_compute; intuition discriminate).
Qed.
