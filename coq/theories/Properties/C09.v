(* C09 - Clean reports every stale item, deletes only in clean mode, touches nothing else. *)
From Coq Require Import String.
From Coq Require Import List NArith Bool Lia Permutation.
Local Open Scope string_scope.
Import ListNotations.
From Snaps Require Import Base.Bytes Base.Assoc.
From Snaps Require Import Model.Frame Model.PathModel Model.Mode Model.Api Model.Natural Model.Clean Model.RunFilter.
From Snaps Require Import Proofs.FrameP Proofs.CleanP Proofs.CleanEntriesP Proofs.TestIdP Proofs.RunFilterP Proofs.CleanFilesP.
From Snaps Require Import Proofs.CleanRunP.

(* COMPLETE AND EXACT REPORT. For a well-formed addressed file with distinct recognised ids, in every
   mode: the entries reported obsolete are exactly those that are neither registered (addressed in this
   run) nor skip-protected - in file order, none missing, none extra. *)
Theorem C09_report_exact : forall reg skp update sort es,
  Forall centry_ok es -> NoDup (map fst es) ->
  fst (examine_file reg skp update sort (render (map to_entry es))) =
  map fst (filter (fun e => negb (kept reg skp e)) es).
Proof. exact obsolete_exact. Qed.
Print Assumptions C09_report_exact.

(* every id go-snaps writes for a Go test named Test... is recognised (so the theorem applies to
   every entry the library itself created) *)
Theorem C09_ids_recognised : forall name k,
  is_prefix (B "Test") name = true -> no_space name -> recognised (snapshot_occ_fmt name k).
Proof. exact recognised_go_name. Qed.
Print Assumptions C09_ids_recognised.

(* full description of what happens to one file: when it is rewritten and with what *)
Theorem C09_file_result : forall reg skp update sort es,
  Forall centry_ok es -> NoDup (map fst es) ->
  let obsolete := map fst (filter (fun e => negb (kept reg skp e)) es) in
  let ids := map fst es in
  let should_sort := sort && negb (is_sorted_nat ids) in
  let should_update := update && (match obsolete with [] => false | _ => true end) in
  examine_file reg skp update sort (render (map to_entry es)) =
  (obsolete,
   if negb should_update && negb should_sort then None
   else Some (render (map to_entry
          (flat_map (pick (stay reg skp update es)) (if should_sort then sort_nat ids else ids))))).
Proof. exact examine_file_entries. Qed.
Print Assumptions C09_file_result.

(* in every mode other than clean NO entry is removed (sorting may only reorder) ... *)
Theorem C09_report_only_keeps_all : forall reg skp es, stay reg skp false es = es.
Proof. exact stay_report_only. Qed.
(* ... and in clean mode exactly the reported entries are removed *)
Theorem C09_clean_removes_exactly : forall reg skp es, stay reg skp true es = filter (kept reg skp) es.
Proof. exact stay_clean. Qed.
Theorem C09_rewrite_is_permutation_of_staying : forall reg skp update sort es nf,
  Forall centry_ok es -> NoDup (map fst es) ->
  snd (examine_file reg skp update sort (render (map to_entry es))) = Some nf ->
  exists out, nf = render (map to_entry out) /\ Permutation out (stay reg skp update es).
Proof. exact rewrite_content. Qed.
Print Assumptions C09_report_only_keeps_all.
Print Assumptions C09_clean_removes_exactly.
Print Assumptions C09_rewrite_is_permutation_of_staying.

(* when neither deleting nor sorting is allowed, Clean leaves every file as it was *)
Theorem C09_readonly : forall s sort_opt count,
  clean_deletes (s_env s) = false -> clean_sorts (s_env s) sort_opt = false ->
  s_fs (fst (clean_run s sort_opt count)) = s_fs s /\ cr_writes (snd (clean_run s sort_opt count)) = [].
Proof. exact clean_readonly. Qed.
Print Assumptions C09_readonly.

(* in particular on CI, whatever UPDATE_SNAPS and the sort option are *)
Theorem C09_ci_untouched : forall s sort_opt count,
  ci (s_env s) = true ->
  s_fs (fst (clean_run s sort_opt count)) = s_fs s /\ cr_writes (snd (clean_run s sort_opt count)) = [].
Proof. exact clean_ci_readonly. Qed.
Print Assumptions C09_ci_untouched.

(* only unaddressed files whose name contains ".snap", directly inside a visited directory, are ever reported obsolete
   (and hence removed): stated about examine_files itself *)
Theorem C09_only_snap_files : forall fs cleanup standalone p,
  In p (fr_obsolete (examine_files fs cleanup standalone)) ->
  contains snaps_ext (base_part p) = true /\ noslash (base_part p) /\
  ((exists q, In q (registry_paths cleanup) /\ dirname p = dirname q) \/
   (exists q, In q standalone /\ dirname p = dirname q)) /\
  ~ In p (registry_paths cleanup) /\ ~ In p standalone /\
  (dirname p <> [dot] -> p = (dir_pre (dirname p) ++ base_part p)%list /\ In p (map fst fs)).
Proof. exact reported_file_sound. Qed.
Print Assumptions C09_only_snap_files.

Example C09_example :
  let es := [(B "TestA - 1", B "a"); (B "TestOld - 1", B "stale"); (B "TestA - 2", B "b")] in
  Forall centry_ok es /\
  examine_file [B "TestA - 1"; B "TestA - 2"] [] true false (render (map to_entry es)) =
  ([B "TestOld - 1"], Some (render (map to_entry [(B "TestA - 1", B "a"); (B "TestA - 2", B "b")]))) /\
  examine_file [B "TestA - 1"; B "TestA - 2"] [] false false (render (map to_entry es)) = ([B "TestOld - 1"], None).
Proof.
  split; [|split; vm_compute; reflexivity].
  repeat constructor; try (vm_compute; reflexivity); try (vm_compute; intuition discriminate).
Qed.

(* ---------- the FILE level of a whole Clean run ---------- *)

(* COMPLETE AND EXACT FILE REPORT: a path is reported obsolete exactly when it is dir/name for a visited directory dir
   (the directory of some addressed multi-entry file or registered standalone file), name is a DIRECT child file of dir
   whose name contains ".snap", and the path is neither an addressed file nor a registered standalone file *)
Theorem C09_file_report_exact : forall fs cleanup standalone p,
  let paths := registry_paths cleanup in
  let dirs := dedup (map dirname paths ++ map dirname standalone) in
  In p (fr_obsolete (examine_files fs cleanup standalone)) <->
  exists dir name, In dir dirs /\ In name (readdir_files fs dir) /\ contains snaps_ext name = true /\
                   p = join2 dir name /\ mem_bytes p paths = false /\ mem_bytes p standalone = false.
Proof. exact examine_files_obsolete_iff. Qed.
Print Assumptions C09_file_report_exact.

(* ... in terms of the file system: every unaddressed file with .snap in its name directly inside a visited directory IS
   reported (completeness), *)
Theorem C09_unaddressed_file_reported : forall s count dir p c name,
  In (p, c) (s_fs s) -> In dir (run_dirs s count) -> dir <> [dot] ->
  file_name_in dir p = Some name -> contains snaps_ext name = true ->
  ~ In p (registry_paths (s_cleanup s)) -> ~ In p (registered_standalone (s_scleanup s) count) ->
  In p (fr_obsolete (run_files s count)).
Proof. exact run_unaddressed_file_reported. Qed.
Print Assumptions C09_unaddressed_file_reported.

(* the directory listing holds exactly the direct children that are files *)
Theorem C09_listing : forall fs dir n,
  In n (readdir_files fs dir) <-> exists p c, In (p, c) fs /\ file_name_in dir p = Some n.
Proof. exact readdir_files_in. Qed.
Print Assumptions C09_listing.

(* REMOVAL: off CI with UPDATE_SNAPS true/clean every reported file is gone afterwards; in every other mode no path
   disappears or appears and only addressed files can change at all (sorting) *)
Theorem C09_reported_files_removed : forall s sort_opt count,
  NoDup (map fst (s_fs s)) -> forall p,
  clean_deletes (s_env s) = true ->
  In p (cr_obsolete_files (snd (clean_run s sort_opt count))) ->
  alookup p (s_fs (fst (clean_run s sort_opt count))) = None.
Proof. exact clean_run_deletes_reported. Qed.
Theorem C09_report_only_keeps_paths : forall s sort_opt count p,
  clean_deletes (s_env s) = false ->
  alookup p (s_fs (fst (clean_run s sort_opt count))) = None <-> alookup p (s_fs s) = None.
Proof. exact clean_run_report_only_keeps_paths. Qed.
Theorem C09_report_only_changes_only_addressed : forall s sort_opt count p,
  clean_deletes (s_env s) = false ->
  alookup p (s_fs (fst (clean_run s sort_opt count))) <> alookup p (s_fs s) ->
  In p (fr_used (run_files s count)).
Proof. exact clean_run_report_only_changes. Qed.
Print Assumptions C09_reported_files_removed.
Print Assumptions C09_report_only_keeps_paths.
Print Assumptions C09_report_only_changes_only_addressed.

(* an addressed file ends up with exactly what the per-file examination returned for its ORIGINAL contents (to which the
   entry-level theorems above apply), and the entry report of the run is the concatenation of the per-file reports *)
Theorem C09_addressed_file_result : forall s sort_opt count,
  NoDup (map fst (s_fs s)) -> forall p,
  In p (fr_used (run_files s count)) ->
  alookup p (s_fs (fst (clean_run s sort_opt count))) =
  option_map (newc (run_exam s sort_opt count) p) (alookup p (s_fs s)).
Proof. exact clean_run_used_content. Qed.
Theorem C09_run_entry_report : forall s sort_opt count,
  NoDup (map fst (s_fs s)) ->
  cr_obsolete_tests (snd (clean_run s sort_opt count)) =
  flat_map (fun p => match alookup p (s_fs s) with
                     | Some f => fst (run_exam s sort_opt count p f)
                     | None => []
                     end) (fr_used (run_files s count)).
Proof. exact clean_run_obsolete_tests. Qed.
Print Assumptions C09_addressed_file_result.
Print Assumptions C09_run_entry_report.

(* TOUCHES NOTHING ELSE, in every mode: same content, not reported, no write of any kind - for files without .snap in their
   name, for files in directories no test addressed, and for files in sub-directories of visited directories *)
Theorem C09_untouched_no_snap_in_name : forall s sort_opt count p,
  contains snaps_ext (base_part p) = false -> untouched s sort_opt count p.
Proof. exact untouched_no_snap_in_name. Qed.
Theorem C09_untouched_unvisited_dir : forall s sort_opt count p,
  ~ In (dirname p) (run_dirs s count) -> untouched s sort_opt count p.
Proof. exact untouched_unvisited_dir. Qed.
Theorem C09_untouched_subdir : forall s sort_opt count dir sub x,
  In dir (run_dirs s count) ->
  ~ In (dirname (dir_pre dir ++ sub ++ slash :: x)%list) (run_dirs s count) ->
  untouched s sort_opt count (dir_pre dir ++ sub ++ slash :: x)%list.
Proof. exact untouched_subdir. Qed.
Theorem C09_creates_nothing : forall s sort_opt count p,
  alookup p (s_fs s) = None -> alookup p (s_fs (fst (clean_run s sort_opt count))) = None.
Proof. exact clean_run_creates_nothing. Qed.
Print Assumptions C09_untouched_no_snap_in_name.
Print Assumptions C09_untouched_unvisited_dir.
Print Assumptions C09_untouched_subdir.
Print Assumptions C09_creates_nothing.

(* the hypothesis "file-system keys are unique" holds in every reachable state *)
Theorem C09_reachable_keys_unique : forall e caller dir ops,
  NoDup (map fst (s_fs (fst (run (init_state e caller dir) ops)))).
Proof. exact reachable_keys_nodup. Qed.
Print Assumptions C09_reachable_keys_unique.

(* ---------- the ENTRY level for a whole Clean run ---------- *)

(* completeness: every entry of an addressed well-formed file that is neither registered nor skip-protected IS reported *)
Theorem C09_run_stale_entries_reported : forall s sort_opt count p es,
  NoDup (map fst (s_fs s)) ->
  In p (fr_used (run_files s count)) ->
  alookup p (s_fs s) = Some (render (map to_entry es)) ->
  Forall centry_ok es -> NoDup (map fst es) ->
  forall e, In e es -> mem_bytes (fst e) (run_reg s count p) = false -> test_skipped (s_skipped s) (fst e) = false ->
  In (fst e) (cr_obsolete_tests (snd (clean_run s sort_opt count))).
Proof. exact run_stale_entries_reported. Qed.
(* exactness: nothing else of that file is reported *)
Theorem C09_run_reported_entries_stale : forall s sort_opt count p es,
  alookup p (s_fs s) = Some (render (map to_entry es)) -> Forall centry_ok es -> NoDup (map fst es) ->
  forall id, In id (file_report s sort_opt count p) ->
  exists e, In e es /\ fst e = id /\ mem_bytes id (run_reg s count p) = false /\ test_skipped (s_skipped s) id = false.
Proof. exact run_reported_entries_stale. Qed.
Print Assumptions C09_run_stale_entries_reported.
Print Assumptions C09_run_reported_entries_stale.

(* in every mode that does not delete, the file keeps every entry (sorting may only reorder; untouched if no sorting is due) *)
Theorem C09_run_report_only_keeps_entries : forall s sort_opt count p es,
  NoDup (map fst (s_fs s)) ->
  In p (fr_used (run_files s count)) ->
  alookup p (s_fs s) = Some (render (map to_entry es)) ->
  Forall centry_ok es -> NoDup (map fst es) ->
  clean_deletes (s_env s) = false ->
  alookup p (s_fs (fst (clean_run s sort_opt count))) = Some (render (map to_entry (run_entries s sort_opt count p es))) /\
  Permutation (run_entries s sort_opt count p es) es /\
  (clean_sorts (s_env s) sort_opt = false \/ is_sorted_nat (map fst es) = true ->
   run_entries s sort_opt count p es = es /\ ~ In (WRewrite, p) (cr_writes (snd (clean_run s sort_opt count)))).
Proof. exact run_report_only_keeps_entries. Qed.
Print Assumptions C09_run_report_only_keeps_entries.

(* off CI with UPDATE_SNAPS true/clean exactly the reported entries are gone *)
Theorem C09_run_delete_mode_removes_reported : forall s sort_opt count p es,
  NoDup (map fst (s_fs s)) ->
  In p (fr_used (run_files s count)) ->
  alookup p (s_fs s) = Some (render (map to_entry es)) ->
  Forall centry_ok es -> NoDup (map fst es) ->
  clean_deletes (s_env s) = true ->
  alookup p (s_fs (fst (clean_run s sort_opt count))) = Some (render (map to_entry (run_entries s sort_opt count p es))) /\
  Permutation (run_entries s sort_opt count p es) (filter (kept (run_reg s count p) (s_skipped s)) es) /\
  (forall e, In e (run_entries s sort_opt count p es) <-> In e es /\ ~ In (fst e) (file_report s sort_opt count p)) /\
  (clean_sorts (s_env s) sort_opt = false \/ is_sorted_nat (map fst es) = true ->
   run_entries s sort_opt count p es = filter (kept (run_reg s count p) (s_skipped s)) es).
Proof. exact run_delete_mode_removes_reported. Qed.
Print Assumptions C09_run_delete_mode_removes_reported.

(* "... sub-directories and directories no test addressed are never touched": in the model Clean changes FILES only - the
   directories of the sandbox (also an empty snapshot directory that a failing call addressed), the registries, the counters
   and the skip list are what they were, in every mode. (The implementation's directories are observed at every checkpoint
   and judged by the oracles of C09 and C05.) *)
Theorem C09_directories_untouched : forall s sort_opt count,
  s_dirs (fst (clean_run s sort_opt count)) = s_dirs s.
Proof. exact clean_run_dirs. Qed.
Print Assumptions C09_directories_untouched.
Theorem C09_clean_changes_files_only : forall s sort_opt count,
  exists fs', fst (clean_run s sort_opt count) = set_fs s fs'.
Proof. exact clean_run_only_fs. Qed.
Print Assumptions C09_clean_changes_files_only.

(* non-vacuity: every theorem of this file that has hypotheses has a concrete, non-trivial instance meeting ALL of them
   (lemmas <Theorem>_witness / <Theorem>_applied in Proofs/WitnessesP.v); a representative one is restated here *)
From Snaps Require Import Proofs.WitnessesP.
Example C09_witnesses :
  (forall s, In s w09_states ->
     NoDup (map fst (s_fs s)) /\ In w09_snap (fr_used (run_files s w09_count)) /\
     alookup w09_snap (s_fs s) = Some (render (map to_entry w09_es)) /\
     Forall centry_ok w09_es /\ NoDup (map fst w09_es) /\
     In w09_stale w09_es /\ mem_bytes (fst w09_stale) (run_reg s w09_count w09_snap) = false /\
     test_skipped (s_skipped s) (fst w09_stale) = false /\
     In w09_old (fr_obsolete (run_files s w09_count))) /\
  clean_deletes (s_env w09_sD) = true /\ clean_deletes (s_env w09_sR) = false /\
  clean_deletes (s_env w09_sCI) = false /\ ci (s_env w09_sCI) = true /\
  (forall sort_opt, In w09_old (cr_obsolete_files (snd (clean_run w09_sD sort_opt w09_count)))) /\
  (forall s, In s w09_states -> forall sort_opt,
     In (fst w09_stale) (cr_obsolete_tests (snd (clean_run s sort_opt w09_count)))).
Proof. exact C09_witnesses_all. Qed.
