(* C02 - every change of the formatted value is reported (no false passes). *)
From Coq Require Import String.
From Coq Require Import List NArith Bool Lia.
Import ListNotations.
From Snaps Require Import Base.Bytes Base.Lines Base.Dec Base.Assoc.
From Snaps Require Import Model.Frame Model.PathModel Model.Mode Model.Api.
From Snaps Require Import Proofs.BytesP Proofs.LinesP Proofs.FrameP Proofs.DiffDecisionP Proofs.ApiP
  Proofs.StandaloneP Proofs.StepP Proofs.OutcomeP.
Local Open Scope string_scope.

(* Multi-entry APIs: the addressed entry stores what was written for v0; the call is given
   v1 <> v0 (any byte difference: trailing newlines, whitespace, invalid UTF-8 ...); updating
   is not enabled. Then: exactly one failure, nothing written. For MatchSnapshot / MatchYAML
   the hypothesis "no line equals the escape token /-/-/-/" is needed (K1 below). *)
Theorem C02_no_false_pass : forall s a c test v0 v1 n,
  is_standalone a = false ->
  lookup_slot (s_fs s) (multi_path s c test) (multi_id s c test) = Some (snap_of a v0, n) ->
  v0 <> v1 -> (a <> AJson -> no_token_line v0 /\ no_token_line v1) ->
  should_update (s_env s) (c_update c) = false ->
  exists s' o, multi_call s a c test (POk v1) = (s', o) /\
    o_outcome o = Failed EDiff /\ o_errors o = 1 /\ o_logs o = [] /\ o_writes o = [] /\
    s_fs s' = s_fs s.
Proof. exact multi_no_false_pass. Qed.
Print Assumptions C02_no_false_pass.

(* standalone APIs: no hypothesis on the texts at all *)
Theorem C02_no_false_pass_standalone : forall s a c test text prev s' o,
  alookup (stand_path s c test) (s_fs s) = Some prev -> prev <> text ->
  stand_call s a c test (POk text) = (s', o) ->
  (should_update (s_env s) (c_update c) = false /\
     o_outcome o = Failed EDiff /\ o_errors o = 1 /\ o_writes o = [] /\ s_fs s' = s_fs s)
  \/ (should_update (s_env s) (c_update c) = true /\
     o_outcome o = Updated /\ o_errors o = 0 /\ o_logs o = [LUpdated] /\
     alookup (o_path o) (s_fs s') = Some text).
Proof. exact stand_mismatch. Qed.
Print Assumptions C02_no_false_pass_standalone.

(* the decision itself: the report is empty iff the two texts are byte-identical *)
Theorem C02_decision : forall a b, diff_empty a b = beq a b.
Proof. exact diff_empty_beq. Qed.
Print Assumptions C02_decision.

(* storage + unescape is injective away from the escape token *)
Theorem C02_unescape_injective : forall a b,
  no_token_line a -> no_token_line b -> unescape a = unescape b -> a = b.
Proof. exact unescape_inj_on. Qed.
Print Assumptions C02_unescape_injective.

(* Finding K1: the full statement (without no_token_line) is false of the faithful model -
   a stored `/-/-/-/` line and a received `---` line are conflated (both sides are
   unescaped before comparing and escaping is not injective). *)
Theorem C02_refuted_escape :
  exists a v0 v1, v0 <> v1 /\ is_standalone a = false /\ same a (snap_of a v0) v1 = true.
Proof. exists ASnap, token, endseq. split; [discriminate|]. split; vm_compute; reflexivity. Qed.
Print Assumptions C02_refuted_escape.

(* non-vacuity: texts differing only in a trailing newline / in invalid UTF-8 bytes *)
Example C02_example :
  same ASnap (snap_of ASnap (B "a")) (B "a" ++ [nl])%list = false /\
  same AYaml (snap_of AYaml [97; 255; 98]%N) [97; 254; 98]%N = false /\
  same AJson (snap_of AJson (B "{}")) (B "{ }") = false.
Proof. vm_compute. repeat split. Qed.
