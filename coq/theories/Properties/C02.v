(* C02 - every change of the formatted value is reported (no false passes). *)
From Coq Require Import String.
From Coq Require Import List NArith Bool Lia.
Import ListNotations.
From Snaps Require Import Base.Bytes Base.Lines Base.Dec Base.Assoc.
From Snaps Require Import Model.Frame Model.PathModel Model.Mode Model.Api.
From Snaps Require Import Proofs.BytesP Proofs.LinesP Proofs.FrameP Proofs.DiffDecisionP Proofs.ApiP
  Proofs.StandaloneP Proofs.StepP Proofs.OutcomeP.
From Snaps Require Import Proofs.HistoryP Proofs.StandaloneHistoryP Proofs.NoFalsePassHistoryP.
Local Open Scope string_scope.

(* Multi-entry APIs: the addressed entry stores what was written for v0; the call is given
   v1 <> v0 (any byte difference: trailing newlines, whitespace, invalid UTF-8 ...); updating
   is not enabled. Then: exactly one failure, nothing written. For MatchSnapshot / MatchYAML
   the hypothesis "no line equals the escape token /-/-/-/" is needed (K1 below). *)
Theorem C02_no_false_pass : forall s a c test v0 v1 n,
  is_standalone a = false ->
  lookup_slot (s_fs s) (multi_path s c test) (multi_id s c test) = Some (snap_of a v0, n) ->
  v0 <> v1 -> (a <> AJson -> no_token_line v0 /\ no_token_line v1) ->
  should_update (s_env s) (c_update c) = false ->
  exists s' o, multi_call s a c test (POk v1) = (s', o) /\
    o_outcome o = Failed EDiff /\ o_errors o = 1 /\ o_logs o = [] /\ o_writes o = [] /\
    s_fs s' = s_fs s.
Proof. exact multi_no_false_pass. Qed.
Print Assumptions C02_no_false_pass.

(* standalone APIs: no hypothesis on the texts at all *)
Theorem C02_no_false_pass_standalone : forall s a c test text prev s' o,
  alookup (stand_path s c test) (s_fs s) = Some prev -> prev <> text ->
  stand_call s a c test (POk text) = (s', o) ->
  (should_update (s_env s) (c_update c) = false /\
     o_outcome o = Failed EDiff /\ o_errors o = 1 /\ o_writes o = [] /\ s_fs s' = s_fs s)
  \/ (should_update (s_env s) (c_update c) = true /\
     o_outcome o = Updated /\ o_errors o = 0 /\ o_logs o = [LUpdated] /\
     alookup (o_path o) (s_fs s') = Some text).
Proof. exact stand_mismatch. Qed.
Print Assumptions C02_no_false_pass_standalone.

(* the decision itself: the report is empty iff the two texts are byte-identical *)
Theorem C02_decision : forall a b, diff_empty a b = beq a b.
Proof. exact diff_empty_beq. Qed.
Print Assumptions C02_decision.

(* storage + unescape is injective away from the escape token *)
Theorem C02_unescape_injective : forall a b,
  no_token_line a -> no_token_line b -> unescape a = unescape b -> a = b.
Proof. exact unescape_inj_on. Qed.
Print Assumptions C02_unescape_injective.

(* Finding K1: the full statement (without no_token_line) is false of the faithful model -
   a stored `/-/-/-/` line and a received `---` line are conflated (both sides are
   unescaped before comparing and escaping is not injective). *)
Theorem C02_refuted_escape :
  exists a v0 v1, v0 <> v1 /\ is_standalone a = false /\ same a (snap_of a v0) v1 = true.
Proof. exists ASnap, token, endseq. split; [discriminate|]. split; vm_compute; reflexivity. Qed.
Print Assumptions C02_refuted_escape.

(* non-vacuity: texts differing only in a trailing newline / in invalid UTF-8 bytes *)
Example C02_example :
  same ASnap (snap_of ASnap (B "a")) (B "a" ++ [nl])%list = false /\
  same AYaml (snap_of AYaml [97; 255; 98]%N) [97; 254; 98]%N = false /\
  same AJson (snap_of AJson (B "{}")) (B "{ }") = false.
Proof. vm_compute. repeat split. Qed.

(* ---------- over histories ---------- *)

(* A recording history h (any interleaving of the five entry points, only passes and creations) is replayed in a new process with
   ONE call's value changed so that what would be stored differs, updating not being enabled for that call: that call fails with a
   diff (exactly one error, no log, no write, at the recorded slot), every other call passes silently, the files are unchanged. *)
Theorem C02_changed_call_fails : forall s0 h1 h2 e2 a hd test text text' c,
  let o := OMatch a hd test (POk text) in
  let o' := OMatch a hd test (POk text') in
  let h := (h1 ++ o :: h2)%list in
  let h' := (h1 ++ o' :: h2)%list in
  fresh s0 -> Forall mixed_op_ok h -> Forall has_value h ->
  wf_on (fun p => In p (map fpath (mfacts s0 h))) (s_fs s0) ->
  disjoint_paths (mfacts s0 h) (sfacts s0 h) ->
  Forall rec_ok (snd (run s0 h)) ->
  nth_error (s_cfgs (fst (run s0 h1))) hd = Some c ->
  stored_of a text' <> stored_of a text ->
  should_update e2 (c_update c) = false ->
  let s1 := fst (run s0 h) in
  let t0 := replay_start s1 e2 in
  exists obs1 ob obs2,
    snd (run t0 h') = (obs1 ++ ob :: obs2)%list /\
    List.length obs1 = List.length h1 /\ List.length obs2 = List.length h2 /\
    Forall silent_pass obs1 /\ diff_fail ob /\ Forall silent_pass obs2 /\
    o_path ob = o_path (nth (List.length h1) (snd (run s0 h)) obs_none) /\
    o_id ob = o_id (nth (List.length h1) (snd (run s0 h)) obs_none) /\
    s_fs (fst (run t0 h')) = s_fs s1.
Proof. exact changed_call_fails_all. Qed.
Print Assumptions C02_changed_call_fails.

(* non-vacuity: every theorem of this file that has hypotheses has a concrete, non-trivial instance meeting ALL of them
   (lemmas <Theorem>_witness / <Theorem>_applied in Proofs/WitnessesP.v); a representative one is restated here *)
From Snaps Require Import Proofs.WitnessesP.
Example C02_witnesses :
  (is_standalone AYaml = false /\
   lookup_slot (s_fs w02_s) (multi_path w02_s w02_c0 w02_testA) (multi_id w02_s w02_c0 w02_testA)
     = Some (snap_of AYaml w01_v_yaml, w02_line) /\
   w01_v_yaml <> w02_v1 /\ (AYaml <> AJson -> no_token_line w01_v_yaml /\ no_token_line w02_v1) /\
   should_update (s_env w02_s) (c_update w02_c0) = false) /\
  (w01_mo = OMatch AYaml w02_hd w02_testA (POk w01_mv) /\ w02_mo' = OMatch AYaml w02_hd w02_testA (POk w02_v1) /\
   fresh w01_ms0 /\ Forall mixed_op_ok w01_mh /\ Forall has_value w01_mh /\
   wf_on (fun p => In p (map fpath (mfacts w01_ms0 w01_mh))) (s_fs w01_ms0) /\
   disjoint_paths (mfacts w01_ms0 w01_mh) (sfacts w01_ms0 w01_mh) /\
   Forall rec_ok (snd (run w01_ms0 w01_mh)) /\
   nth_error (s_cfgs (fst (run w01_ms0 w01_mh1))) w02_hd = Some w02_c1 /\
   stored_of AYaml w02_v1 <> stored_of AYaml w01_mv /\
   should_update w01_env_ci (c_update w02_c1) = false /\
   map o_outcome (snd (run (replay_start (fst (run w01_ms0 w01_mh)) w01_env_ci) w02_mh')) = w02_replay_outcomes).
Proof. exact C02_witnesses_all. Qed.
