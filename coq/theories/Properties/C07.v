(* C07 - Clean never discards a snapshot that was matched in this run (first slice). *)
From Coq Require Import List NArith Bool Lia.
Import ListNotations.
From Snaps Require Import Base.Bytes Base.Assoc.
From Snaps Require Import Model.Frame Model.PathModel Model.Mode Model.Api Model.Natural Model.Clean.
From Snaps Require Import Proofs.CleanP.

(* whenever deleting and sorting are both off (report mode without sort; always on CI) nothing
   at all is touched, addressed or not *)
Theorem C07_report_mode_untouched : forall s sort_opt count,
  clean_deletes (s_env s) = false -> clean_sorts (s_env s) sort_opt = false ->
  s_fs (fst (clean_run s sort_opt count)) = s_fs s /\ cr_writes (snd (clean_run s sort_opt count)) = [].
Proof. exact clean_readonly. Qed.
Print Assumptions C07_report_mode_untouched.
