(* C07 - Clean never discards a snapshot that was matched in this run. *)
From Coq Require Import String.
From Coq Require Import List NArith Bool Lia Permutation.
Local Open Scope string_scope.
Import ListNotations.
From Snaps Require Import Base.Bytes Base.Assoc.
From Snaps Require Import Model.Frame Model.PathModel Model.Mode Model.Api Model.Natural Model.Clean Model.RunFilter.
From Snaps Require Import Proofs.FrameP Proofs.CleanP Proofs.CleanEntriesP Proofs.TestIdP Proofs.RunFilterP.

(* an entry whose id is registered (addressed in this process) survives EVERY rewrite - prune, sort,
   both - with exactly the body it had, exactly once ... *)
Theorem C07_addressed_survives : forall reg skp update sort es nf e,
  Forall centry_ok es -> NoDup (map fst es) -> In e es -> mem_bytes (fst e) reg = true ->
  snd (examine_file reg skp update sort (render (map to_entry es))) = Some nf ->
  exists out, nf = render (map to_entry out) /\ In e out /\ NoDup (map fst out).
Proof. exact addressed_survives. Qed.
Print Assumptions C07_addressed_survives.

(* ... and is never listed as obsolete *)
Theorem C07_addressed_not_reported : forall reg skp update sort es (e : centry),
  Forall centry_ok es -> NoDup (map fst es) -> mem_bytes (fst e) reg = true ->
  ~ In (fst e) (fst (examine_file reg skp update sort (render (map to_entry es)))).
Proof. exact addressed_not_reported. Qed.
Print Assumptions C07_addressed_not_reported.

(* the hypotheses are met by every id the library writes for a test named Test...; ids of other
   names (fuzz seeds, benchmarks) are NOT recognised: known finding K5 *)
Theorem C07_ids_recognised : forall name k,
  is_prefix (B "Test") name = true -> no_space name -> recognised (snapshot_occ_fmt name k).
Proof. exact recognised_go_name. Qed.
Print Assumptions C07_ids_recognised.

Theorem C07_non_test_ids_unrecognised :
  get_test_id (hdr (B "FuzzThing/seed#0 - 1")) = None /\ get_test_id (hdr (B "BenchmarkX - 1")) = None.
Proof. split; vm_compute; reflexivity. Qed.
Print Assumptions C07_non_test_ids_unrecognised.

(* -count: with `count` uniform executions (each making k calls of test t on the file) every ordinal
   1..k is registered - whatever count >= 1 is *)
Theorem C07_count_registered : forall cleanup path t k count i,
  0 < count -> 1 <= i <= k -> alookup2 (path, t) cleanup = Some (count * k) ->
  mem_bytes (snapshot_occ_fmt t i) (registered_tests cleanup path count) = true.
Proof. exact registered_tests_uniform. Qed.
Print Assumptions C07_count_registered.

(* in report mode without sorting and always on CI nothing at all is touched *)
Theorem C07_report_mode_untouched : forall s sort_opt count,
  clean_deletes (s_env s) = false -> clean_sorts (s_env s) sort_opt = false ->
  s_fs (fst (clean_run s sort_opt count)) = s_fs s /\ cr_writes (snd (clean_run s sort_opt count)) = [].
Proof. exact clean_readonly. Qed.
Print Assumptions C07_report_mode_untouched.
