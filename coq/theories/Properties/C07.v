(* C07 - Clean never discards a snapshot that was matched in this run. *)
From Coq Require Import String.
From Coq Require Import List NArith Bool Lia Permutation.
Local Open Scope string_scope.
Import ListNotations.
From Snaps Require Import Base.Bytes Base.Assoc.
From Snaps Require Import Model.Frame Model.PathModel Model.Mode Model.Api Model.Natural Model.Clean Model.RunFilter.
From Snaps Require Import Proofs.FrameP Proofs.CleanP Proofs.CleanEntriesP Proofs.TestIdP Proofs.RunFilterP.
From Snaps Require Import Proofs.CleanFilesP Proofs.CleanRunP.

(* an entry whose id is registered (addressed in this process) survives EVERY rewrite - prune, sort,
   both - with exactly the body it had, exactly once ... *)
Theorem C07_addressed_survives : forall reg skp update sort es nf e,
  Forall centry_ok es -> NoDup (map fst es) -> In e es -> mem_bytes (fst e) reg = true ->
  snd (examine_file reg skp update sort (render (map to_entry es))) = Some nf ->
  exists out, nf = render (map to_entry out) /\ In e out /\ NoDup (map fst out).
Proof. exact addressed_survives. Qed.
Print Assumptions C07_addressed_survives.

(* ... and is never listed as obsolete *)
Theorem C07_addressed_not_reported : forall reg skp update sort es (e : centry),
  Forall centry_ok es -> NoDup (map fst es) -> mem_bytes (fst e) reg = true ->
  ~ In (fst e) (fst (examine_file reg skp update sort (render (map to_entry es)))).
Proof. exact addressed_not_reported. Qed.
Print Assumptions C07_addressed_not_reported.

(* the hypotheses are met by every id the library writes for a test named Test...; ids of other
   names (fuzz seeds, benchmarks) are NOT recognised: known finding K5 *)
Theorem C07_ids_recognised : forall name k,
  is_prefix (B "Test") name = true -> no_space name -> recognised (snapshot_occ_fmt name k).
Proof. exact recognised_go_name. Qed.
Print Assumptions C07_ids_recognised.

Theorem C07_non_test_ids_unrecognised :
  get_test_id (hdr (B "FuzzThing/seed#0 - 1")) = None /\ get_test_id (hdr (B "BenchmarkX - 1")) = None.
Proof. split; vm_compute; reflexivity. Qed.
Print Assumptions C07_non_test_ids_unrecognised.

(* -count: with `count` uniform executions (each making k calls of test t on the file) every ordinal
   1..k is registered - whatever count >= 1 is *)
Theorem C07_count_registered : forall cleanup path t k count i,
  0 < count -> 1 <= i <= k -> alookup2 (path, t) cleanup = Some (count * k) ->
  mem_bytes (snapshot_occ_fmt t i) (registered_tests cleanup path count) = true.
Proof. exact registered_tests_uniform. Qed.
Print Assumptions C07_count_registered.

(* in report mode without sorting and always on CI nothing at all is touched *)
Theorem C07_report_mode_untouched : forall s sort_opt count,
  clean_deletes (s_env s) = false -> clean_sorts (s_env s) sort_opt = false ->
  s_fs (fst (clean_run s sort_opt count)) = s_fs s /\ cr_writes (snd (clean_run s sort_opt count)) = [].
Proof. exact clean_readonly. Qed.
Print Assumptions C07_report_mode_untouched.

(* ---------- for a WHOLE Clean run on a state (every mode, every sort setting) ---------- *)

(* an entry of an addressed well-formed file whose id was registered in this process is still in that file after the run,
   exactly once, with exactly its body; its own file does not report it, and no file does unless ANOTHER addressed file holds a
   stale entry with the same id (the report is a flat list of ids without file names: computed example
   [RunExample.same_id_reported_by_other_file]) *)
Theorem C07_run_addressed_entry_survives : forall s sort_opt count p es,
  NoDup (map fst (s_fs s)) ->
  In p (fr_used (run_files s count)) ->
  alookup p (s_fs s) = Some (render (map to_entry es)) ->
  Forall centry_ok es -> NoDup (map fst es) ->
  forall e, In e es -> In (fst e) (registered_tests (s_cleanup s) p count) ->
  alookup p (s_fs (fst (clean_run s sort_opt count))) = Some (render (map to_entry (run_entries s sort_opt count p es))) /\
  In e (run_entries s sort_opt count p es) /\
  NoDup (map fst (run_entries s sort_opt count p es)) /\
  ~ In (fst e) (file_report s sort_opt count p) /\
  ((forall q, In q (fr_used (run_files s count)) -> q <> p -> ~ In (fst e) (file_report s sort_opt count q)) ->
   ~ In (fst e) (cr_obsolete_tests (snd (clean_run s sort_opt count)))).
Proof. exact run_addressed_entry_survives. Qed.
Print Assumptions C07_run_addressed_entry_survives.

(* ... with `count` uniform executions making k calls each, every ordinal 1..k is protected *)
Theorem C07_run_count_uniform : forall s sort_opt count p es,
  NoDup (map fst (s_fs s)) ->
  In p (fr_used (run_files s count)) ->
  alookup p (s_fs s) = Some (render (map to_entry es)) ->
  Forall centry_ok es -> NoDup (map fst es) ->
  forall t k i e, 0 < count -> 1 <= i <= k -> alookup2 (p, t) (s_cleanup s) = Some (count * k) ->
  In e es -> fst e = snapshot_occ_fmt t i ->
  alookup p (s_fs (fst (clean_run s sort_opt count))) = Some (render (map to_entry (run_entries s sort_opt count p es))) /\
  In e (run_entries s sort_opt count p es) /\
  NoDup (map fst (run_entries s sort_opt count p es)) /\
  ~ In (fst e) (file_report s sort_opt count p) /\
  ((forall q, In q (fr_used (run_files s count)) -> q <> p -> ~ In (fst e) (file_report s sort_opt count q)) ->
   ~ In (fst e) (cr_obsolete_tests (snd (clean_run s sort_opt count)))).
Proof. exact run_count_uniform. Qed.
Print Assumptions C07_run_count_uniform.

(* non-vacuity: a concrete state (built by running API calls) with a live, a stale and a skip-protected entry meets every
   hypothesis, in every UPDATE_SNAPS mode and sort setting *)
Example C07_run_example : forall u sort_opt,
  let s := RunExample.st u in
  In RunExample.live (run_entries s sort_opt 1 RunExample.snap RunExample.es) /\
  ~ In (fst RunExample.live) (cr_obsolete_tests (snd (clean_run s sort_opt 1))).
Proof. intros u so. destruct (RunExample.theorems_apply u so) as [_ [H1 [H2 _]]]. split; assumption. Qed.

(* non-vacuity: every theorem of this file that has hypotheses has a concrete, non-trivial instance meeting ALL of them
   (lemmas <Theorem>_witness / <Theorem>_applied in Proofs/WitnessesP.v); a representative one is restated here *)
From Snaps Require Import Proofs.WitnessesP.
Example C07_witnesses :
  forall c u,
  NoDup (map fst (s_fs (w07_st c u))) /\
  In w07_snap (fr_used (run_files (w07_st c u) 2)) /\
  alookup w07_snap (s_fs (w07_st c u)) = Some (render (map to_entry w07_es)) /\
  Forall centry_ok w07_es /\ NoDup (map fst w07_es) /\
  0 < 2 /\ 1 <= 2 <= 2 /\ alookup2 (w07_snap, w07_tA) (s_cleanup (w07_st c u)) = Some (2 * 2) /\
  In w07_a2 w07_es /\ fst w07_a2 = snapshot_occ_fmt w07_tA 2.
Proof. exact C07_witnesses_all. Qed.
