(* C08 - Clean keeps snapshots of tests that were skipped or filtered out (skip-list clause). *)
From Coq Require Import String.
From Coq Require Import List NArith Bool Lia.
Import ListNotations.
From Snaps Require Import Base.Bytes Base.Assoc.
From Snaps Require Import Model.PathModel Model.Api Model.Natural Model.Clean Model.RunFilter.
From Snaps Require Import Model.GoRun Proofs.BytesP Proofs.RunFilterP Proofs.GoRunP.
From Snaps Require Import Proofs.FrameP Proofs.CleanEntriesP Proofs.CleanFilesP Proofs.CleanRunP.

(* a snaps.Skip of test n protects n itself and every descendant n/... *)
Theorem C08_skip_protects : forall skipped n m k,
  In n skipped -> (m = n \/ exists r, m = n ++ [slash] ++ r) -> no_space m ->
  test_skipped skipped (snapshot_occ_fmt m k) = true.
Proof. exact skip_protects. Qed.
Print Assumptions C08_skip_protects.

(* ... so its entries in an addressed file are kept and never reported *)
Theorem C08_skipped_entry_kept : forall registered skipped n m k,
  In n skipped -> (m = n \/ exists r, m = n ++ [slash] ++ r) -> no_space m ->
  keep_id registered skipped (snapshot_occ_fmt m k) = true.
Proof. exact skipped_entry_kept. Qed.
Print Assumptions C08_skipped_entry_kept.

(* exactly that test and its descendants: a sibling that merely shares a name prefix is not protected *)
Theorem C08_skip_exact : forall n m k,
  m <> n -> (forall r, m <> n ++ [slash] ++ r) -> no_space m ->
  test_skipped [n] (snapshot_occ_fmt m k) = false.
Proof. exact skip_exact. Qed.
Print Assumptions C08_skip_exact.

(* with no -run pattern the decision is the skip list alone *)
Theorem C08_no_pattern : forall skipped id, test_skipped_run skipped [] id = test_skipped skipped id.
Proof. exact test_skipped_run_empty. Qed.
Print Assumptions C08_no_pattern.

(* Findings K3/K4: go-snaps matches the WHOLE pattern against the whole id "name - k". For the pattern
   `TestZeta|1` the id `TestAlpha - 1` of an unselected test matches (the ordinal), for `TestZeta|Sub2`
   the id `TestAlpha/Sub2 - 1` matches although Go's per-level selection runs only TestZeta. *)
Theorem C08_run_pattern_refuted :
  re_match (B "TestZeta|1") (B "TestAlpha - 1") = true /\
  re_match (B "TestZeta|Sub2") (B "TestAlpha/Sub2 - 1") = true /\
  test_skipped_run [] (B "TestZeta|1") (B "TestAlpha - 1") = false.
Proof. vm_compute. repeat split. Qed.
Print Assumptions C08_run_pattern_refuted.

(* THE -run CLAUSE FOR ENTRIES. [go_selects] (Model/GoRun.v) is what `go test -run p` executes: the pattern is split at '|',
   every alternative at '/', element i is matched against element i of the test name (tied to the real runner on every run of
   this check). go-snaps protects an entry unless the WHOLE pattern, as one regexp, matches the whole id "name - k". For the
   patterns of [safe_pattern] - single-level alternatives of the shapes ^Lit (no '/', no space), ^Lit$ (no space) and Lit$
   (no space, some non-digit) - an entry of a test that Go did NOT select is always protected, whatever the ordinal and the skip
   list. (^Name and ^Name$ are what people type and what editors generate.) Outside that class the clause is false:
   C08_run_pattern_refuted above and the necessity examples below. *)
Theorem C08_run_safe_pattern_sound : forall p name k,
  safe_pattern p = true -> re_match p (snapshot_occ_fmt name k) = true -> go_selects p name = true.
Proof. exact safe_pattern_sound. Qed.
Print Assumptions C08_run_safe_pattern_sound.
Theorem C08_run_unselected_entry_protected : forall skipped p name k,
  safe_pattern p = true -> go_selects p name = false -> test_skipped_run skipped p (snapshot_occ_fmt name k) = true.
Proof. exact unselected_entry_protected. Qed.
Print Assumptions C08_run_unselected_entry_protected.
(* for pure prefix patterns (^Lit alternatives) go-snaps' check IS Go's selection, so obsolete entries of selected tests are
   also still reported *)
Theorem C08_run_prefix_pattern_equiv : forall p name k,
  prefix_pattern p = true -> re_match p (snapshot_occ_fmt name k) = go_selects p name.
Proof. exact prefix_pattern_equiv. Qed.
Print Assumptions C08_run_prefix_pattern_equiv.
(* necessity of every side condition of the class: an unanchored literal, a digit suffix, a digit alternative, a literal with a space *)
Example C08_run_unsafe_shapes :
  (re_match (B "Sub2") (snapshot_occ_fmt (B "TestAlpha/Sub2") 1) = true /\ go_selects (B "Sub2") (B "TestAlpha/Sub2") = false) /\
  (re_match (B "1$") (snapshot_occ_fmt (B "TestBeta") 1) = true /\ go_selects (B "1$") (B "TestBeta") = false) /\
  (re_match (B "TestZeta|1") (snapshot_occ_fmt (B "TestAlpha") 1) = true /\ go_selects (B "TestZeta|1") (B "TestAlpha") = false) /\
  (re_match (B "^TestA -") (snapshot_occ_fmt (B "TestA") 1) = true /\ go_selects (B "^TestA -") (B "TestA") = false).
Proof. vm_compute. repeat split. Qed.
(* non-vacuity: a three-alternative safe pattern; TestAlpha/Sub1 is selected and matched, TestGamma is unselected and protected
   for every ordinal and skip list *)
Example C08_run_safe_example : forall skipped k,
  safe_pattern (B "^TestAl|^TestZeta$|Beta$") = true /\
  (re_match (B "^TestAl|^TestZeta$|Beta$") (snapshot_occ_fmt (B "TestAlpha/Sub1") k) = true /\
   go_selects (B "^TestAl|^TestZeta$|Beta$") (B "TestAlpha/Sub1") = true) /\
  (go_selects (B "^TestAl|^TestZeta$|Beta$") (B "TestGamma") = false /\
   test_skipped_run skipped (B "^TestAl|^TestZeta$|Beta$") (snapshot_occ_fmt (B "TestGamma") k) = true).
Proof. intros skipped k. split; [exact ex_pattern_safe|]. split; [exact (ex_sound_applies k)|exact (ex_unselected_protected skipped k)]. Qed.

(* THE -run CLAUSE FOR FILES. With a pattern, go-snaps protects an unregistered file iff its sibling test file parses and none
   of its function names matches the whole pattern. For EVERY pattern of the class (multi-level alternatives included): a
   default-named file none of whose test functions Go selects is protected. For single-level patterns the file-level check is
   exactly "Go selects none of the file's functions". A file WITHOUT a parsable sibling - a standalone or custom-named file -
   is never protected by -run: known finding K6, stated here as a theorem about the model. *)
Theorem C08_run_unselected_file_protected : forall p names,
  p <> nil -> Forall (fun n => ~ In slash n) names ->
  (forall n, In n names -> go_selects p n = false) ->
  file_skipped_run p (Some names) = true.
Proof. exact unselected_file_protected. Qed.
Print Assumptions C08_run_unselected_file_protected.
Theorem C08_run_single_level_file_equiv : forall p names,
  single_level p = true -> p <> nil -> Forall (fun n => ~ In slash n) names ->
  file_skipped_run p (Some names) = negb (existsb (go_selects p) names).
Proof. exact single_level_file_equiv. Qed.
Print Assumptions C08_run_single_level_file_equiv.
Theorem C08_run_file_without_sibling_unprotected : forall p, file_skipped_run p None = false.
Proof. exact file_without_sibling_unprotected. Qed.
Print Assumptions C08_run_file_without_sibling_unprotected.
Example C08_run_file_example :
  file_skipped_run (B "^TestAl|Beta$") (Some [B "TestGamma"; B "TestDelta"]) = true /\
  file_skipped_run (B "^TestAl|Beta$") (Some [B "TestGamma"; B "TestBeta"]) = false.
Proof. split; [exact ex_file_protected|exact ex_file_selected]. Qed.

(* for a WHOLE Clean run: the entries of a test that called a snaps.Skip* wrapper, and of its descendants, survive in every mode
   and are not reported - whatever the registry says *)
Theorem C08_run_skip_protected_entry_kept : forall s sort_opt count p es,
  NoDup (map fst (s_fs s)) ->
  In p (fr_used (run_files s count)) ->
  alookup p (s_fs s) = Some (render (map to_entry es)) ->
  Forall centry_ok es -> NoDup (map fst es) ->
  forall n m k e, In n (s_skipped s) -> (m = n \/ exists r, m = (n ++ [slash] ++ r)%list) -> no_space m ->
  In e es -> fst e = snapshot_occ_fmt m k ->
  alookup p (s_fs (fst (clean_run s sort_opt count))) = Some (render (map to_entry (run_entries s sort_opt count p es))) /\
  In e (run_entries s sort_opt count p es) /\
  NoDup (map fst (run_entries s sort_opt count p es)) /\
  ~ In (fst e) (file_report s sort_opt count p) /\
  ((forall q, In q (fr_used (run_files s count)) -> q <> p -> ~ In (fst e) (file_report s sort_opt count q)) ->
   ~ In (fst e) (cr_obsolete_tests (snd (clean_run s sort_opt count)))).
Proof. exact run_skip_protected_entry_kept. Qed.
Print Assumptions C08_run_skip_protected_entry_kept.

(* non-vacuity: the entry of a sub-test of a test that called snaps.Skip survives a whole Clean run in every mode *)
Example C08_run_example : forall u sort_opt,
  let s := RunExample.st u in
  In RunExample.prot (run_entries s sort_opt 1 RunExample.snap RunExample.es) /\
  ~ In (fst RunExample.prot) (cr_obsolete_tests (snd (clean_run s sort_opt 1))).
Proof. intros u so. destruct (RunExample.theorems_apply u so) as [_ [_ [_ [H1 [H2 _]]]]]. split; assumption. Qed.

(* non-vacuity: every theorem of this file that has hypotheses has a concrete, non-trivial instance meeting ALL of them
   (lemmas <Theorem>_witness / <Theorem>_applied in Proofs/WitnessesP.v); a representative one is restated here *)
From Snaps Require Import Proofs.WitnessesP.
Example C08_witnesses :
  forall c u so,
  NoDup (map fst (s_fs (w07_st c u))) /\
  In w07_snap (fr_used (run_files (w07_st c u) 2)) /\
  alookup w07_snap (s_fs (w07_st c u)) = Some (render (map to_entry w07_es)) /\
  Forall centry_ok w07_es /\ NoDup (map fst w07_es) /\
  In w07_tSkip (s_skipped (w07_st c u)) /\ w08_descends w07_tSkip w07_tSkipSub /\ no_space w07_tSkipSub /\
  In w07_prot w07_es /\ fst w07_prot = snapshot_occ_fmt w07_tSkipSub 1 /\
  In w07_prot (run_entries (w07_st c u) so 2 w07_snap w07_es) /\
  ~ In (fst w07_prot) (cr_obsolete_tests (snd (clean_run (w07_st c u) so 2))).
Proof. exact C08_witnesses_all. Qed.
