(* C03 - entries are stably addressed and isolated from one another. *)
From Coq Require Import String.
From Coq Require Import List NArith Bool Lia.
Import ListNotations.
From Snaps Require Import Base.Bytes Base.Lines Base.Dec Base.Assoc.
From Snaps Require Import Model.Frame Model.PathModel Model.Mode Model.Api.
From Snaps Require Import Proofs.BytesP Proofs.LinesP Proofs.FrameP Proofs.ApiP Proofs.StepP
  Proofs.HistoryP Proofs.RegistryP Proofs.IsolationP.
Local Open Scope string_scope.

(* After ANY history `pre` of Match* calls (all five entry points, passing or failing),
   snaps.Skip* calls and ends of test executions - other tests interleaved, the same test
   executed any number of times before - a multi-entry call of test t through Config c
   addresses file <path c> and the header [t - (k+1)], where k = number of calls of t on
   that file since t's execution last ended (spec_counts: a plain count over the history).
   Failing calls (invalid input, matcher errors) consume their ordinal like any other. *)
Theorem C03_slot : forall s0 pre a hd t p c,
  s_running s0 = [] -> s_pending s0 = [] -> Forall call_op pre ->
  nth_error (s_cfgs s0) hd = Some c -> is_standalone a = false -> ~ (a = ASnap /\ p = PNoValues) ->
  let path := snapshot_path c (s_caller s0) t false in
  let k := spec_counts (s_cfgs s0) (s_caller s0) pre fresh_counts (path, t) in
  o_id (snd (step (fst (run s0 pre)) (OMatch a hd t p))) = header t (S k) /\
  o_path (snd (step (fst (run s0 pre)) (OMatch a hd t p))) = path.
Proof. exact slot_after_history. Qed.
Print Assumptions C03_slot.

(* distinct (name, ordinal) pairs have distinct headers - for ALL names: prefixes of each
   other, names containing " - " or ending in digits, ordinals of any width *)
Theorem C03_header_injective : forall n1 k1 n2 k2, header n1 k1 = header n2 k2 -> n1 = n2 /\ k1 = k2.
Proof. exact header_inj. Qed.
Print Assumptions C03_header_injective.

(* creating a slot (append) never changes what any existing header replays as - no
   hypothesis on bodies at all *)
Theorem C03_create_isolated : forall f tid body tid' r,
  wf_file f -> safe_line tid -> safe_text body ->
  get_prev tid' f = Some r -> get_prev tid' (add_entry tid body f) = Some r.
Proof. exact get_prev_add_other. Qed.
Print Assumptions C03_create_isolated.

(* rewriting a slot: every other slot replays what it replayed before ... *)
Theorem C03_rewrite_isolated : forall tid snap tid' es,
  Forall wf_entry es -> wf_entry (tid, snap) ->
  no_collision tid es -> no_collision tid' es -> ~ In tid' (split_nl snap) ->
  tid <> [] -> tid <> endseq -> tid' <> [] -> tid' <> endseq -> tid' <> tid ->
  option_map fst (get_prev tid' (update_entry tid snap (render es))) =
  option_map fst (get_prev tid' (render es)).
Proof. exact update_isolation. Qed.
Print Assumptions C03_rewrite_isolated.

(* ... and no pre-existing entry is dropped, duplicated or reordered *)
Theorem C03_rewrite_keeps_entries : forall tid snap es,
  Forall wf_entry es -> wf_entry (tid, snap) -> no_collision tid es -> tid <> [] -> tid <> endseq ->
  exists es', update_entry tid snap (render es) = render es' /\ Forall wf_entry es' /\
              map fst es' = map fst es /\ (forall e, In e es -> fst e <> tid -> In e es').
Proof. exact update_no_residue. Qed.
Print Assumptions C03_rewrite_keeps_entries.

(* Finding K2: without collision freedom isolation under rewrites is false of the faithful
   model - updateSnapshot rewrites a body line of ANOTHER entry that equals the header *)
Theorem C03_isolation_refuted :
  exists tid snap tid' f, tid' <> tid /\
    option_map fst (get_prev tid' (update_entry tid snap f)) <> option_map fst (get_prev tid' f).
Proof.
  exists (B "[TestB - 1]"), (B "new"), (B "[TestA - 1]"),
    (frame (B "[TestB - 1]") (B "old") ++ frame (B "[TestA - 1]") (B "x" ++ [nl] ++ B "[TestB - 1]" ++ [nl] ++ B "y"))%list.
  split; [discriminate|]. vm_compute. discriminate.
Qed.
Print Assumptions C03_isolation_refuted.

Example C03_example :
  let e := {| ci := false; upd := UUnset; colour := false |} in
  let s0 := init_state e (B "/r/x_test.go") (B "/S") in
  let pre := [OMatch ASnap 0 (B "TestA") (POk (B "v")); OMatch AJson 0 (B "TestA/b") PInvalid;
              OMatch ASnap 0 (B "TestA") (POk (B "w")); OEndTest (B "TestA");
              OMatch AYaml 0 (B "TestA") (POk (B "y"))] in
  o_id (snd (step (fst (run s0 pre)) (OMatch ASnap 0 (B "TestA") (POk (B "z"))))) = B "[TestA - 2]" /\
  o_id (snd (step (fst (run s0 pre)) (OMatch ASnap 0 (B "TestA/b") (POk (B "z"))))) = B "[TestA/b - 2]".
Proof. vm_compute. split; reflexivity. Qed.

(* two rewrites of DIFFERENT slots give the same file, byte for byte, whichever comes first: rewrites of different
   entries are order-independent (so every serial order of two updating tests leaves the same file) ... *)
Theorem C03_rewrites_commute : forall t1 s1 t2 s2 es,
  Forall wf_entry es -> wf_entry (t1, s1) -> wf_entry (t2, s2) ->
  no_collision t1 es -> no_collision t2 es ->
  ~ In t1 (split_nl s2) -> ~ In t2 (split_nl s1) -> t1 <> t2 ->
  update_entry t1 s1 (update_entry t2 s2 (render es)) =
  update_entry t2 s2 (update_entry t1 s1 (render es)).
Proof. exact updates_commute. Qed.
Print Assumptions C03_rewrites_commute.

(* ... and after both, each of the two slots replays its own new value *)
Theorem C03_rewrites_both_set : forall t1 s1 t2 s2 es,
  Forall wf_entry es -> wf_entry (t1, s1) -> wf_entry (t2, s2) ->
  no_collision t1 es -> no_collision t2 es ->
  ~ In t1 (split_nl s1) -> ~ In t2 (split_nl s2) ->
  ~ In t1 (split_nl s2) -> ~ In t2 (split_nl s1) -> t1 <> t2 ->
  lookup_entry t1 es <> None -> lookup_entry t2 es <> None ->
  let f := update_entry t1 s1 (update_entry t2 s2 (render es)) in
  option_map fst (get_prev t1 f) = Some s1 /\ option_map fst (get_prev t2 f) = Some s2.
Proof. exact updates_both_set. Qed.
Print Assumptions C03_rewrites_both_set.

(* non-vacuity: every theorem of this file that has hypotheses has a concrete, non-trivial instance meeting ALL of them
   (lemmas <Theorem>_witness / <Theorem>_applied in Proofs/WitnessesP.v); a representative one is restated here *)
From Snaps Require Import Proofs.WitnessesP.
Example C03_witnesses :
  (s_running w03_s0 = [] /\ s_pending w03_s0 = [] /\ Forall call_op w03_pre /\
   nth_error (s_cfgs w03_s0) w03_hd = Some w03_c1 /\ is_standalone AYaml = false /\
   ~ (AYaml = ASnap /\ w03_p = PNoValues) /\
   spec_counts (s_cfgs w03_s0) (s_caller w03_s0) w03_pre fresh_counts
     (snapshot_path w03_c1 (s_caller w03_s0) w03_tA false, w03_tA) = w03_k /\ w03_k0 < w03_k) /\
  (Forall wf_entry w03_es /\ wf_entry (w03_tidB, w03_snap) /\
   no_collision w03_tidB w03_es /\ no_collision w03_tidC w03_es /\ ~ In w03_tidC (split_nl w03_snap) /\
   w03_tidB <> [] /\ w03_tidB <> endseq /\ w03_tidC <> [] /\ w03_tidC <> endseq /\ w03_tidC <> w03_tidB) /\
  (wf_file w03_file /\ safe_line w03_tidD /\ safe_text w03_bodyD /\ In w03_tidB (split_nl w03_bodyD)).
Proof. exact C03_witnesses_all. Qed.

(* non-vacuity of C03_rewrites_commute / C03_rewrites_both_set (Proofs/IsolationWitnessP.v): a three-entry file, its
   middle and last slots rewritten, both rewrites changing the file *)
From Snaps Require Import Proofs.IsolationWitnessP.
Example C03_rewrites_witnesses :
  (Forall wf_entry w03_es /\ wf_entry (w03_tidB, w03_snap) /\ wf_entry (w03_tidC, wiso_snapC) /\
   no_collision w03_tidB w03_es /\ no_collision w03_tidC w03_es /\
   ~ In w03_tidB (split_nl w03_snap) /\ ~ In w03_tidC (split_nl wiso_snapC) /\
   ~ In w03_tidB (split_nl wiso_snapC) /\ ~ In w03_tidC (split_nl w03_snap) /\ w03_tidB <> w03_tidC /\
   lookup_entry w03_tidB w03_es <> None /\ lookup_entry w03_tidC w03_es <> None /\
   lookup_entry w03_tidB w03_es <> Some w03_snap /\ lookup_entry w03_tidC w03_es <> Some wiso_snapC) /\
  update_entry w03_tidB w03_snap (update_entry w03_tidC wiso_snapC (render w03_es)) =
  render [(w03_tidA, w03_bodyA); (w03_tidB, w03_snap); (w03_tidC, wiso_snapC)].
Proof. exact (conj updates_commute_witness (proj2 updates_commute_applied)). Qed.
