(* C11 - snapshot location is a pure function of test file, test name and options. *)
From Coq Require Import String.
From Coq Require Import List NArith Bool Lia.
Import ListNotations.
From Snaps Require Import Base.Bytes Base.Dec Model.PathModel Model.Api Model.Caller Proofs.BytesP Proofs.CallerP Proofs.PercentP.

(* multi-entry snapshots live at <dir>/<name>.snap<Ext>: <dir> = Dir when absolute, else the calling
   test file's directory joined with Dir; <name> = Filename or the test file's base name without
   its extension. No working directory occurs anywhere in the (non -trimpath) function. *)
Theorem C11_multi : forall c caller test,
  snapshot_path c caller test false =
  join2 (if is_abs (c_dir c) then c_dir c else join2 (dirname caller) (c_dir c))
        ((match c_filename c with
          | [] => trim_suffix (ext (basename caller)) (basename caller)
          | f => f
          end) ++ B ".snap" ++ c_ext c).
Proof. exact path_multi. Qed.
Print Assumptions C11_multi.

(* standalone: the FORMAT <dir>/<Filename, or the test name with / replaced by _>_%d.snap<Ext>, in which every '%' of the
   directory, the calling file, the name and the extension is doubled (fix F8) so that fmt.Sprintf puts the ordinal at the
   "_%d" and nowhere else: C11_standalone_kth_name / C11_ordinal_substitution below, Properties/C11 PercentP section for the
   whole path *)
Theorem C11_standalone : forall c caller test,
  snapshot_path c caller test true =
  join2 (if is_abs (esc_pct (c_dir c)) then esc_pct (c_dir c) else join2 (dirname (esc_pct caller)) (esc_pct (c_dir c)))
        (esc_pct (match c_filename c with
                  | [] => replace_byte slash 95%N test
                  | f => f
                  end) ++ B "_%d" ++ B ".snap" ++ esc_pct (c_ext c))%list.
Proof. exact path_standalone. Qed.
Print Assumptions C11_standalone.

Theorem C11_notrim_is_the_function : forall c caller test standalone,
  snapshot_path_gen false c caller test standalone = snapshot_path c caller test standalone.
Proof. exact snapshot_path_gen_notrim. Qed.
Print Assumptions C11_notrim_is_the_function.

(* with an absolute Dir and a Filename the location does not even depend on the calling file *)
Theorem C11_abs_dir_independent : forall c caller1 caller2 test standalone,
  is_abs (c_dir c) = true -> c_filename c <> [] ->
  snapshot_path c caller1 test standalone = snapshot_path c caller2 test standalone.
Proof. exact path_abs_dir. Qed.
Print Assumptions C11_abs_dir_independent.

(* any number of helper frames in non-test source files between the call and the test function:
   the stack walk returns the first *_test.go frame *)
Theorem C11_helper_frames_ignored : forall prev hs f rest,
  Forall (fun h => is_test_file (fr_file h) = false /\ beq (fr_func h) (B "testing.tRunner") = false) hs ->
  is_test_file (fr_file f) = true -> beq (fr_func f) (B "testing.tRunner") = false ->
  base_caller_from prev (hs ++ f :: rest) = fr_file f.
Proof. exact base_caller_skips_helpers. Qed.
Print Assumptions C11_helper_frames_ignored.

Theorem C11_runner_fallback : forall prev hs f rest,
  Forall (fun h => is_test_file (fr_file h) = false /\ beq (fr_func h) (B "testing.tRunner") = false) hs ->
  beq (fr_func f) (B "testing.tRunner") = true ->
  base_caller_from prev (hs ++ f :: rest) = last (map fr_file hs) prev.
Proof. exact base_caller_trunner. Qed.
Print Assumptions C11_runner_fallback.

Example C11_example :
  let c := {| c_filename := []; c_dir := B "../shared//x/./"; c_ext := B ".txt"; c_update := None |} in
  snapshot_path c (B "/m/pkg/sub/a_test.go") (B "TestA/b c") false = B "/m/pkg/shared/x/a_test.snap.txt" /\
  snapshot_path c (B "/m/pkg/sub/a_test.go") (B "TestA/b") true = B "/m/pkg/shared/x/TestA_b_%d.snap.txt" /\
  base_caller [{| fr_func := B "bbmod/helper.Snap"; fr_file := B "/m/helper/helper.go" |};
               {| fr_func := B "bbmod/pkg.TestX.func1"; fr_file := B "/m/pkg/a_test.go" |};
               {| fr_func := B "testing.tRunner"; fr_file := B "/go/src/testing/testing.go" |}] = B "/m/pkg/a_test.go".
Proof. vm_compute. repeat split. Qed.

(* the k-th standalone file: constructFilename appends "_%d" to the ESCAPED name and fmt.Sprintf puts the ordinal there -
   for EVERY name, Filename and extension, '%' and "%d" inside them included (before fix F8 the parts were not escaped:
   a '%' in a sub-test name corrupted the file name, finding K8) *)
Theorem C11_standalone_file_name : forall c caller test,
  construct_filename c caller test true =
  (esc_pct (match c_filename c with [] => replace_byte slash 95%N test | f => f end) ++ B "_%d" ++ snaps_ext ++ esc_pct (c_ext c))%list.
Proof. exact standalone_file_name. Qed.
Theorem C11_standalone_kth_name : forall c caller test k,
  subst_d (construct_filename c caller test true) k =
  ((match c_filename c with [] => replace_byte slash 95%N test | f => f end) ++ B "_" ++ k ++ snaps_ext ++ c_ext c)%list.
Proof. exact standalone_file_name_kth. Qed.
Theorem C11_ordinal_substitution : forall pre post k : bytes,
  subst_d (esc_pct pre ++ 37%N :: 100%N :: esc_pct post)%list k = (pre ++ k ++ post)%list.
Proof. exact subst_d_format. Qed.
Print Assumptions C11_standalone_file_name.
Print Assumptions C11_standalone_kth_name.
Print Assumptions C11_ordinal_substitution.

(* THE k-th STANDALONE FILE, whole path, for EVERY Config, calling file and test name - '%', "%d", '/', "." and ".." anywhere in
   them included: substituting the ordinal into the format snapshotPath builds gives exactly
       <dir>/<Filename, or the test name with / replaced by _>_<k>.snap<Ext>
   computed by the plain path functions (Proofs/PercentP.v: every path function commutes with a byte-wise expansion that keeps
   '/' and '.' and maps every other byte to a non-empty string without them; the format is one such expansion of the plain path
   with a fresh marker byte at the ordinal, the result another) *)
Theorem C11_standalone_kth : forall (c : config) (caller test : bytes) (n : nat),
  subst_d (snapshot_path c caller test true) (dec n) =
  join2 (if is_abs (c_dir c) then c_dir c else join2 (dirname caller) (c_dir c))
        ((match c_filename c with [] => replace_byte slash 95%N test | f => f end)
           ++ B "_" ++ dec n ++ B ".snap" ++ c_ext c)%list.
Proof. exact standalone_kth_path. Qed.
Print Assumptions C11_standalone_kth.
Example C11_standalone_kth_example :
  subst_d (snapshot_path {| c_filename := B "f%"; c_dir := B "a/../b%"; c_ext := B ".x%"; c_update := None |}
                         (B "/p%d/q/x_test.go") (B "T") true) (dec 12) = B "/p%d/q/b%/f%_12.snap.x%".
Proof. vm_compute. reflexivity. Qed.
(* the ordinal may not hold a '/': Clean runs before the substitution on one side and after it on the other *)
Example C11_standalone_kth_needs_plain_ordinal :
  let c := {| c_filename := B "f"; c_dir := B "d"; c_ext := []; c_update := None |} in
  subst_d (snapshot_path c (B "/p/x_test.go") (B "T") true) (B "/../y") = B "/p/d/f_/../y.snap" /\
  join2 (join2 (dirname (B "/p/x_test.go")) (c_dir c)) (c_filename c ++ B "_" ++ B "/../y" ++ B ".snap" ++ c_ext c)%list = B "/p/d/y.snap".
Proof. exact standalone_subst_path_slash_refuted. Qed.

(* MatchStandaloneJSON: ".json" exactly when no Ext option was given *)
Theorem C11_json_ext_default : forall c, c_ext c = [] -> c_ext (json_ext c) = B ".json".
Proof. exact json_ext_default. Qed.
Theorem C11_json_ext_given : forall c, c_ext c <> [] -> json_ext c = c.
Proof. exact json_ext_given. Qed.
Print Assumptions C11_json_ext_default.
Print Assumptions C11_json_ext_given.

(* -trimpath: a relative Dir is kept as it is; the location then depends on the calling test file only through its base name *)
Theorem C11_trim_dir_kept : forall c caller test standalone,
  snapshot_path_gen true c caller test standalone =
  join2 (if standalone then esc_pct (c_dir c) else c_dir c)
        (construct_filename c (if standalone then esc_pct caller else caller) test standalone).
Proof. exact trim_dir_kept. Qed.
Theorem C11_trim_caller_dir_irrelevant : forall c caller1 caller2 test standalone,
  basename caller1 = basename caller2 ->
  snapshot_path_gen true c caller1 test standalone = snapshot_path_gen true c caller2 test standalone.
Proof. exact trim_caller_dir_irrelevant. Qed.
Print Assumptions C11_trim_dir_kept.
Print Assumptions C11_trim_caller_dir_irrelevant.

(* non-vacuity: every theorem of this file that has hypotheses has a concrete, non-trivial instance meeting ALL of them
   (lemmas <Theorem>_witness / <Theorem>_applied in Proofs/WitnessesP.v); a representative one is restated here *)
From Snaps Require Import Proofs.WitnessesP.
Example C11_witnesses :
  (is_abs (c_dir w11_cfg_abs) = true /\ c_filename w11_cfg_abs <> nil /\ w11_caller1 <> w11_caller2) /\
  (Forall (fun h => is_test_file (fr_file h) = false /\ beq (fr_func h) w11_trunner = false) w11_hs /\
   is_test_file (fr_file w11_ftest) = true /\ beq (fr_func w11_ftest) w11_trunner = false) /\
  (Forall (fun h => is_test_file (fr_file h) = false /\ beq (fr_func h) w11_trunner = false) w11_hs_fb /\
   beq (fr_func w11_frun) w11_trunner = true) /\
  (c_ext w11_cfg_rel = nil /\ c_ext w11_cfg_abs <> nil) /\
  (basename w11_caller1 = basename w11_caller3 /\ dirname w11_caller1 <> dirname w11_caller3).
Proof. exact C11_witnesses_all. Qed.
