(* C18 - YAML snapshots keep the document verbatim (YAML validity and marshalling of Go values
   are oracles: goccy/go-yaml is outside the model). *)
From Coq Require Import String.
From Coq Require Import List NArith Bool Lia.
Import ListNotations.
From Snaps Require Import Base.Bytes Base.Lines Base.Assoc Model.Frame Model.Mode Model.Api.
From Snaps Require Import Proofs.BytesP Proofs.LinesP Proofs.FrameP Proofs.ApiP Proofs.StepP Proofs.YamlP
  Proofs.HistoryP.

(* the stored body is the document with exactly its `---` lines replaced by the escape token:
   comments, key order, separators, blank lines and every other byte are kept *)
Theorem C18_stored_verbatim : forall y,
  split_nl (escape y) = map (fun l => if beq l endseq then token else l) (split_nl y).
Proof. exact escape_only_end_lines. Qed.
Print Assumptions C18_stored_verbatim.

Theorem C18_roundtrip_bytes : forall y, no_token_line y -> unescape (escape y) = y.
Proof. exact yaml_verbatim. Qed.
Print Assumptions C18_roundtrip_bytes.

(* the stored form of a document always replays against that document *)
Theorem C18_replays : forall y, same AYaml (snap_of AYaml y) y = true.
Proof. exact yaml_replays. Qed.
Print Assumptions C18_replays.

(* replay over histories is C01's theorem (MatchYAML entries are covered by hist_op_ok) *)
Theorem C18_replay_histories : forall s0 h e2,
  fresh s0 -> wf_fs (s_fs s0) -> Forall hist_op_ok h -> Forall has_value h ->
  Forall rec_ok (snd (run s0 h)) ->
  let s1 := fst (run s0 h) in
  let t0 := replay_start s1 e2 in
  Forall silent_pass (snd (run t0 h)) /\ s_fs (fst (run t0 h)) = s_fs s1.
Proof. exact replay_after_create. Qed.
Print Assumptions C18_replay_histories.

(* invalid YAML: one failure, nothing written (every mode) *)
Theorem C18_invalid_writes_nothing : forall s c test,
  exists s' o, multi_call s AYaml c test PInvalid = (s', o) /\
    o_outcome o = Failed EInvalid /\ o_errors o = 1 /\ o_logs o = [] /\ o_writes o = [] /\
    s_fs s' = s_fs s /\ o_id o = multi_id s c test /\ o_path o = multi_path s c test /\
    get2 (s_running s') (multi_path s c test, test) = S (get2 (s_running s) (multi_path s c test, test)) /\
    s_events s' = bump (Failed EInvalid) (s_events s).
Proof. exact yaml_invalid. Qed.
Print Assumptions C18_invalid_writes_nothing.

(* non-vacuity: every theorem of this file that has hypotheses has a concrete, non-trivial instance meeting ALL of them
   (lemmas <Theorem>_witness / <Theorem>_applied in Proofs/WitnessesP.v); a representative one is restated here *)
From Snaps Require Import Proofs.WitnessesP.
Example C18_witnesses :
  (no_token_line w18_doc /\ In endseq (split_nl w18_doc)) /\
  (fresh w18_s0 /\ wf_fs (s_fs w18_s0) /\ Forall hist_op_ok w18_h /\ Forall has_value w18_h /\
   Forall rec_ok (snd (run w18_s0 w18_h))).
Proof. exact C18_witnesses_all. Qed.
