(* C18 - YAML snapshots keep the document verbatim (YAML validity and marshalling of Go values
   are oracles: goccy/go-yaml is outside the model). *)
From Coq Require Import String.
From Coq Require Import List NArith Bool Lia.
Import ListNotations.
From Snaps Require Import Base.Bytes Base.Lines Base.Assoc Model.Frame Model.Mode Model.Api.
From Snaps Require Import Proofs.BytesP Proofs.LinesP Proofs.FrameP Proofs.ApiP Proofs.StepP Proofs.YamlP
  Proofs.HistoryP Proofs.YamlStoreP.

(* the stored body is the document with exactly its `---` lines replaced by the escape token:
   comments, key order, separators, blank lines and every other byte are kept *)
Theorem C18_stored_verbatim : forall y,
  split_nl (escape y) = map (fun l => if beq l endseq then token else l) (split_nl y).
Proof. exact escape_only_end_lines. Qed.
Print Assumptions C18_stored_verbatim.

Theorem C18_roundtrip_bytes : forall y, no_token_line y -> unescape (escape y) = y.
Proof. exact yaml_verbatim. Qed.
Print Assumptions C18_roundtrip_bytes.

(* the stored form of a document always replays against that document *)
Theorem C18_replays : forall y, same AYaml (snap_of AYaml y) y = true.
Proof. exact yaml_replays. Qed.
Print Assumptions C18_replays.

(* replay over histories is C01's theorem (MatchYAML entries are covered by hist_op_ok) *)
Theorem C18_replay_histories : forall s0 h e2,
  fresh s0 -> wf_fs (s_fs s0) -> Forall hist_op_ok h -> Forall has_value h ->
  Forall rec_ok (snd (run s0 h)) ->
  let s1 := fst (run s0 h) in
  let t0 := replay_start s1 e2 in
  Forall silent_pass (snd (run t0 h)) /\ s_fs (fst (run t0 h)) = s_fs s1.
Proof. exact replay_after_create. Qed.
Print Assumptions C18_replay_histories.

(* invalid YAML: one failure, nothing written (every mode) *)
Theorem C18_invalid_writes_nothing : forall s c test,
  exists s' o, multi_call s AYaml c test PInvalid = (s', o) /\
    o_outcome o = Failed EInvalid /\ o_errors o = 1 /\ o_logs o = [] /\ o_writes o = [] /\
    s_fs s' = s_fs s /\ o_id o = multi_id s c test /\ o_path o = multi_path s c test /\
    get2 (s_running s') (multi_path s c test, test) = S (get2 (s_running s) (multi_path s c test, test)) /\
    s_events s' = bump (Failed EInvalid) (s_events s).
Proof. exact yaml_invalid. Qed.
Print Assumptions C18_invalid_writes_nothing.

(* storing loses nothing: two documents with the same stored text are the same document, byte for byte *)
Theorem C18_store_injective : forall y y',
  no_token_line y -> no_token_line y' -> escape y = escape y' -> y = y'.
Proof. exact yaml_store_injective. Qed.
Print Assumptions C18_store_injective.

(* a multi-document stream (`---` separators, block scalars containing `---`) is stored as ONE body: no stored
   line is the entry terminator, so the reader cannot cut the entry short *)
Theorem C18_store_no_terminator : forall y, ~ In endseq (split_nl (escape y)).
Proof. exact yaml_store_no_terminator. Qed.
Print Assumptions C18_store_no_terminator.

(* presence of a final newline: storing commutes with appending one ... *)
Theorem C18_final_newline_present : forall y, escape (y ++ [nl]) = (escape y ++ [nl])%list.
Proof. exact yaml_store_final_newline. Qed.
Print Assumptions C18_final_newline_present.

(* ... absence: the last (unterminated) line of the stored text is the last line of the document *)
Theorem C18_final_newline_absent : forall y l,
  last (split_nl y) [] = l -> last (split_nl (escape y)) [] = (if beq l endseq then token else l).
Proof. exact yaml_store_no_final_newline. Qed.
Print Assumptions C18_final_newline_absent.

Theorem C18_line_count_kept : forall y, length (split_nl (escape y)) = length (split_nl y).
Proof. exact yaml_store_line_count. Qed.
Print Assumptions C18_line_count_kept.

Example C18_store_witnesses :
  (no_token_line wys_doc /\ no_token_line wys_doc' /\ wys_doc <> wys_doc' /\ In endseq (split_nl wys_doc)) /\
  escape wys_doc <> escape wys_doc' /\
  (last (split_nl wys_doc) [] = B "b: 2" /\ last (split_nl (escape wys_doc)) [] = B "b: 2").
Proof. exact (conj yaml_store_injective_witness (conj yaml_store_injective_applied yaml_store_no_final_newline_witness)). Qed.

(* non-vacuity: every theorem of this file that has hypotheses has a concrete, non-trivial instance meeting ALL of them
   (lemmas <Theorem>_witness / <Theorem>_applied in Proofs/WitnessesP.v); a representative one is restated here *)
From Snaps Require Import Proofs.WitnessesP.
Example C18_witnesses :
  (no_token_line w18_doc /\ In endseq (split_nl w18_doc)) /\
  (fresh w18_s0 /\ wf_fs (s_fs w18_s0) /\ Forall hist_op_ok w18_h /\ Forall has_value w18_h /\
   Forall rec_ok (snd (run w18_s0 w18_h))).
Proof. exact C18_witnesses_all. Qed.
