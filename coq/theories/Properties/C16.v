(* C16 - masked fields never influence the snapshot; unmasked fields always do (JSON). *)
From Coq Require Import List NArith Bool Lia.
Import ListNotations.
From Snaps Require Import Base.Bytes Base.Lines Model.Json Model.JsonSpec Proofs.JsonP Proofs.MaskP.
From Snaps Require Import Model.Matchers Proofs.MatchersP Proofs.JsonInjP.

(* two inputs that differ only at a masked path (v2 is v with another value y there) become
   the same document once the matcher has put its placeholder x there *)
Theorem C16_masked : forall p v y v2 x, set v p y = Some v2 -> set v2 p x = set v p x.
Proof. exact mask_erases. Qed.
Print Assumptions C16_masked.

(* two inputs that differ at a path not covered by the matcher still differ after masking *)
Theorem C16_unmasked : forall p q v1 v2 x m1 m2,
  disjoint_paths p q = true -> set v1 p x = Some m1 -> set v2 p x = Some m2 ->
  get v1 q <> get v2 q -> m1 <> m2.
Proof. exact mask_keeps_difference. Qed.
Print Assumptions C16_unmasked.

(* the stored text parses back to the document (members sorted when sorting is on) ... *)
Theorem C16_store_injective : forall (width : nat) (indent : bytes) (sk : bool) s (v : jv) (fuel : nat),
  parse (S (length s)) s = Some v -> ws_bytes indent ->
  length (snapshot_json width indent sk s) <= fuel ->
  parse fuel (snapshot_json width indent sk s) = Some (sort_if sk v).
Proof. exact snapshot_lossless. Qed.
Print Assumptions C16_store_injective.

(* ... hence storing is injective on JSON VALUES: two valid documents with the same stored text denote the same value, and two
   that denote different values (up to member order when keys are sorted) store different texts *)
Theorem C16_same_text_same_value : forall (width : nat) (indent : bytes) (sk : bool) (s1 s2 : bytes) (v1 v2 : jv),
  parse (S (List.length s1)) s1 = Some v1 -> parse (S (List.length s2)) s2 = Some v2 -> ws_bytes indent ->
  snapshot_json width indent sk s1 = snapshot_json width indent sk s2 ->
  sort_if sk v1 = sort_if sk v2.
Proof. exact JsonInjP.store_injective. Qed.
Theorem C16_different_values_different_text : forall (width : nat) (indent : bytes) (sk : bool) (s1 s2 : bytes) (v1 v2 : jv),
  parse (S (List.length s1)) s1 = Some v1 -> parse (S (List.length s2)) s2 = Some v2 -> ws_bytes indent ->
  sort_if sk v1 <> sort_if sk v2 ->
  snapshot_json width indent sk s1 <> snapshot_json width indent sk s2.
Proof. exact JsonInjP.different_values_different_text. Qed.
Print Assumptions C16_same_text_same_value.
Print Assumptions C16_different_values_different_text.

(* ---------- whole matcher lists (Model/Matchers.v) ---------- *)

(* MASKING: two documents that agree except at paths covered by the matchers (the second is obtained from the first by setting,
   at existing covered paths, values of the same class - any value for Any/Custom, a value of the same JSON type for Type) give
   the same result under matchers with pairwise disjoint simple paths that do not fail: same masked document, ... *)
Theorem C16_masked_list : forall ms v1 v2,
  pairwise_disj (all_paths ms) = true -> masked_variant (covered_by ms) v1 v2 ->
  snd (apply_matchers ms v1) = [] -> apply_matchers ms v2 = apply_matchers ms v1.
Proof. exact MatchersP.C16_masked_list. Qed.
(* ... hence the same stored text: each input passes against the snapshot of the other *)
Theorem C16_masked_text : forall ms d1 d2 v1 v2,
  parse (S (length d1)) d1 = Some v1 -> parse (S (length d2)) d2 = Some v2 ->
  pairwise_disj (all_paths ms) = true -> masked_variant (covered_by ms) v1 v2 ->
  snd (apply_matchers ms v1) = [] -> apply_matchers_text ms d2 = apply_matchers_text ms d1.
Proof. exact C16_masked_text_default. Qed.
(* UNMASKED fields always influence the result: a difference at a path disjoint from every matcher path survives *)
Theorem C16_unmasked_list : forall ms v1 v2 q,
  (forall p, In p (all_paths ms) -> pdisj p q = true) -> get v1 q <> get v2 q ->
  get (fst (apply_matchers ms v1)) q <> get (fst (apply_matchers ms v2)) q /\
  fst (apply_matchers ms v1) <> fst (apply_matchers ms v2).
Proof. exact MatchersP.C16_unmasked_list. Qed.
(* masking twice is masking once (Any / Custom / Type[string]) *)
Theorem C16_masking_idempotent : forall ms v,
  pairwise_disj (all_paths ms) = true -> Forall stable_matcher ms -> snd (apply_matchers ms v) = [] ->
  apply_matchers ms (fst (apply_matchers ms v)) = apply_matchers ms v.
Proof. exact matchers_idempotent. Qed.
Print Assumptions C16_masked_list.
Print Assumptions C16_masked_text.
Print Assumptions C16_unmasked_list.
Print Assumptions C16_masking_idempotent.

(* non-vacuity: a concrete document and matcher list (Any, Type, Custom) with a masked variant meeting the hypotheses *)
Example C16_masked_example : exists v2,
  parse (S (length exdoc2)) exdoc2 = Some v2 /\ masked_variant (covered_by ex_ms) exv v2.
Proof. exact ex_masked_variant. Qed.

(* non-vacuity: every theorem of this file that has hypotheses has a concrete, non-trivial instance meeting ALL of them
   (lemmas <Theorem>_witness / <Theorem>_applied in Proofs/WitnessesP.v); a representative one is restated here *)
From Snaps Require Import Proofs.WitnessesP.
Example C16_witnesses :
  parse w16_n1 w16_doc1 = Some w16_v1 /\ parse w16_n2 w16_doc2 = Some w16_v2 /\
  pairwise_disj (all_paths w16_ms) = true /\ masked_variant (covered_by w16_ms) w16_v1 w16_v2 /\
  Forall stable_matcher w16_ms /\ snd (apply_matchers w16_ms w16_v1) = nil /\ w16_v1 <> w16_v2 /\
  (forall p, In p (all_paths w16_ms) -> pdisj p w16_q = true) /\ Json.get w16_v1 w16_q <> Json.get w16_v3 w16_q /\
  Json.set w16_v1 w16_p w16_y = Some w16_vy /\ JsonSpec.disjoint_paths w16_p w16_q = true /\
  Json.set w16_v1 w16_p w16_x = Some w16_m1 /\ Json.set w16_v3 w16_p w16_x = Some w16_m2.
Proof. exact C16_witnesses_all. Qed.

(* non-vacuity of C16_same_text_same_value / C16_different_values_different_text: two spellings of one object (members in
   another order, other whitespace) meet every hypothesis with sorting on and store the same text although the parsed values differ;
   two objects that differ in a member's value store different texts *)
From Coq Require Import String.
Example C16_injectivity_example :
  let s1 := B "{""a"":1,""b"":[true,null]}"%string in
  let s2 := B "{ ""b"" : [ true , null ] , ""a"" : 1 }"%string in
  let s3 := B "{""a"":2,""b"":[true,null]}"%string in
  let p1 := parse (S (List.length s1)) s1 in
  let p2 := parse (S (List.length s2)) s2 in
  let p3 := parse (S (List.length s3)) s3 in
  p1 <> None /\ p2 <> None /\ p3 <> None /\
  snapshot_json 0 [32%N] true s1 = snapshot_json 0 [32%N] true s2 /\ p1 <> p2 /\
  option_map (sort_if true) p1 = option_map (sort_if true) p2 /\
  option_map (sort_if true) p1 <> option_map (sort_if true) p3 /\
  snapshot_json 0 [32%N] true s1 <> snapshot_json 0 [32%N] true s3.
Proof. vm_compute. repeat split; try reflexivity; discriminate. Qed.
