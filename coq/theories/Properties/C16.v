(* C16 - masked fields never influence the snapshot; unmasked fields always do (JSON). *)
From Coq Require Import List NArith Bool Lia.
Import ListNotations.
From Snaps Require Import Base.Bytes Base.Lines Model.Json Model.JsonSpec Proofs.JsonP Proofs.MaskP.
From Snaps Require Import Model.Matchers Proofs.MatchersP.

(* two inputs that differ only at a masked path (v2 is v with another value y there) become
   the same document once the matcher has put its placeholder x there *)
Theorem C16_masked : forall p v y v2 x, set v p y = Some v2 -> set v2 p x = set v p x.
Proof. exact mask_erases. Qed.
Print Assumptions C16_masked.

(* two inputs that differ at a path not covered by the matcher still differ after masking *)
Theorem C16_unmasked : forall p q v1 v2 x m1 m2,
  disjoint_paths p q = true -> set v1 p x = Some m1 -> set v2 p x = Some m2 ->
  get v1 q <> get v2 q -> m1 <> m2.
Proof. exact mask_keeps_difference. Qed.
Print Assumptions C16_unmasked.

(* and different documents store different text (the stored text parses back to the document) *)
Theorem C16_store_injective : forall (width : nat) (indent : bytes) (sk : bool) s (v : jv) (fuel : nat),
  parse (S (length s)) s = Some v -> ws_bytes indent ->
  length (snapshot_json width indent sk s) <= fuel ->
  parse fuel (snapshot_json width indent sk s) = Some (sort_if sk v).
Proof. exact snapshot_lossless. Qed.
Print Assumptions C16_store_injective.

(* ---------- whole matcher lists (Model/Matchers.v) ---------- *)

(* MASKING: two documents that agree except at paths covered by the matchers (the second is obtained from the first by setting,
   at existing covered paths, values of the same class - any value for Any/Custom, a value of the same JSON type for Type) give
   the same result under matchers with pairwise disjoint simple paths that do not fail: same masked document, ... *)
Theorem C16_masked_list : forall ms v1 v2,
  pairwise_disj (all_paths ms) = true -> masked_variant (covered_by ms) v1 v2 ->
  snd (apply_matchers ms v1) = [] -> apply_matchers ms v2 = apply_matchers ms v1.
Proof. exact MatchersP.C16_masked_list. Qed.
(* ... hence the same stored text: each input passes against the snapshot of the other *)
Theorem C16_masked_text : forall ms d1 d2 v1 v2,
  parse (S (length d1)) d1 = Some v1 -> parse (S (length d2)) d2 = Some v2 ->
  pairwise_disj (all_paths ms) = true -> masked_variant (covered_by ms) v1 v2 ->
  snd (apply_matchers ms v1) = [] -> apply_matchers_text ms d2 = apply_matchers_text ms d1.
Proof. exact C16_masked_text_default. Qed.
(* UNMASKED fields always influence the result: a difference at a path disjoint from every matcher path survives *)
Theorem C16_unmasked_list : forall ms v1 v2 q,
  (forall p, In p (all_paths ms) -> pdisj p q = true) -> get v1 q <> get v2 q ->
  get (fst (apply_matchers ms v1)) q <> get (fst (apply_matchers ms v2)) q /\
  fst (apply_matchers ms v1) <> fst (apply_matchers ms v2).
Proof. exact MatchersP.C16_unmasked_list. Qed.
(* masking twice is masking once (Any / Custom / Type[string]) *)
Theorem C16_masking_idempotent : forall ms v,
  pairwise_disj (all_paths ms) = true -> Forall stable_matcher ms -> snd (apply_matchers ms v) = [] ->
  apply_matchers ms (fst (apply_matchers ms v)) = apply_matchers ms v.
Proof. exact matchers_idempotent. Qed.
Print Assumptions C16_masked_list.
Print Assumptions C16_masked_text.
Print Assumptions C16_unmasked_list.
Print Assumptions C16_masking_idempotent.

(* non-vacuity: a concrete document and matcher list (Any, Type, Custom) with a masked variant meeting the hypotheses *)
Example C16_masked_example : exists v2,
  parse (S (length exdoc2)) exdoc2 = Some v2 /\ masked_variant (covered_by ex_ms) exv v2.
Proof. exact ex_masked_variant. Qed.
