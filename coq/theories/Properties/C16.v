(* C16 - masked fields never influence the snapshot; unmasked fields always do (JSON). *)
From Coq Require Import List NArith Bool Lia.
Import ListNotations.
From Snaps Require Import Base.Bytes Base.Lines Model.Json Model.JsonSpec Proofs.JsonP Proofs.MaskP.

(* two inputs that differ only at a masked path (v2 is v with another value y there) become
   the same document once the matcher has put its placeholder x there *)
Theorem C16_masked : forall p v y v2 x, set v p y = Some v2 -> set v2 p x = set v p x.
Proof. exact mask_erases. Qed.
Print Assumptions C16_masked.

(* two inputs that differ at a path not covered by the matcher still differ after masking *)
Theorem C16_unmasked : forall p q v1 v2 x m1 m2,
  disjoint_paths p q = true -> set v1 p x = Some m1 -> set v2 p x = Some m2 ->
  get v1 q <> get v2 q -> m1 <> m2.
Proof. exact mask_keeps_difference. Qed.
Print Assumptions C16_unmasked.

(* and different documents store different text (the stored text parses back to the document) *)
Theorem C16_store_injective : forall (width : nat) (indent : bytes) (sk : bool) s (v : jv) (fuel : nat),
  parse (S (length s)) s = Some v -> ws_bytes indent ->
  length (snapshot_json width indent sk s) <= fuel ->
  parse fuel (snapshot_json width indent sk s) = Some (sort_if sk v).
Proof. exact snapshot_lossless. Qed.
Print Assumptions C16_store_injective.
