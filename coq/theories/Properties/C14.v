(* C14 - JSON snapshots are canonical and lossless. *)
From Coq Require Import List NArith Bool Lia.
Import ListNotations.
From Snaps Require Import Base.Bytes Base.Lines Model.Json Model.JsonSpec Proofs.JsonP.

(* every presentation of a document (arbitrary insignificant whitespace at every gap of the
   grammar) parses back to the document: the validator accepts exactly the renderings *)
Theorem C14_parse_render : forall (l : layout) (v : jv) (fuel : nat),
  wf_json v -> ws_layout l -> length (render l v) <= fuel -> parse fuel (render l v) = Some v.
Proof. exact parse_render. Qed.
Print Assumptions C14_parse_render.

Theorem C14_valid_is_rendering : forall s : bytes,
  valid s = true -> exists (v : jv) (l : layout), wf_json v /\ ws_layout l /\ s = render l v.
Proof. exact valid_is_render. Qed.
Print Assumptions C14_valid_is_rendering.

(* lossless: the stored text parses to the same JSON value as the input (members sorted
   when SortKeys) - for every Width, Indent and SortKeys *)
Theorem C14_lossless : forall (width : nat) (indent : bytes) (sk : bool) s (v : jv) (fuel : nat),
  parse (S (length s)) s = Some v -> ws_bytes indent ->
  length (snapshot_json width indent sk s) <= fuel ->
  parse fuel (snapshot_json width indent sk s) = Some (sort_if sk v).
Proof. exact snapshot_lossless. Qed.
Print Assumptions C14_lossless.

Theorem C14_stored_is_valid : forall (width : nat) (indent : bytes) (sk : bool) (s : bytes),
  valid s = true -> ws_bytes indent -> valid (snapshot_json width indent sk s) = true.
Proof. exact snapshot_valid. Qed.
Print Assumptions C14_stored_is_valid.

(* texts that differ only in insignificant whitespace store identically *)
Theorem C14_whitespace_insensitive : forall (width : nat) (indent : bytes) (sk : bool) (v : jv) (l1 l2 : layout),
  wf_json v -> ws_layout l1 -> ws_layout l2 ->
  snapshot_json width indent sk (render l1 v) = snapshot_json width indent sk (render l2 v).
Proof. exact snapshot_ws_insensitive. Qed.
Print Assumptions C14_whitespace_insensitive.

(* under sorted keys (the default) texts that differ in the order of object members - at any
   depth - store identically, provided keys are distinct (duplicate keys make tidwall/pretty's
   order input-dependent: stated, not claimed) *)
Theorem C14_member_order_insensitive : forall (width : nat) (indent : bytes) (v1 v2 : jv) (l1 l2 : layout),
  jperm v1 v2 -> distinct_keys v1 = true -> wf_json v1 -> wf_json v2 -> ws_layout l1 -> ws_layout l2 ->
  snapshot_json width indent true (render l1 v1) = snapshot_json width indent true (render l2 v2).
Proof. exact snapshot_perm_insensitive. Qed.
Print Assumptions C14_member_order_insensitive.

Theorem C14_idempotent : forall (width : nat) (indent : bytes) (sk : bool) (s : bytes),
  valid s = true -> ws_bytes indent ->
  snapshot_json width indent sk (snapshot_json width indent sk s) = snapshot_json width indent sk s.
Proof. exact snapshot_idempotent. Qed.
Print Assumptions C14_idempotent.

(* why MatchJSON needs no escaping: no line of a stored document is `---` or `/-/-/-/` *)
Theorem C14_no_frame_lines : forall (width : nat) (indent : bytes) (sk : bool) (s line : bytes),
  valid s = true -> no_nl_b indent = true ->
  In line (split_nl (snapshot_json width indent sk s)) -> frame_line line = false.
Proof. exact canon_no_frame_lines. Qed.
Print Assumptions C14_no_frame_lines.

(* "out of fuel" never masquerades as "invalid" *)
Theorem C14_fuel : forall (f1 f2 : nat) s, length s <= f1 -> length s <= f2 -> parse f1 s = parse f2 s.
Proof. exact parse_fuel_enough. Qed.
Print Assumptions C14_fuel.

Example C14_example :
  let a := [123; 34; 98; 34; 58; 91; 49; 44; 32; 50; 93; 44; 10; 32; 34; 97; 34; 58; 110; 117; 108; 108; 125]%N in
  let b := [123; 34; 97; 34; 58; 110; 117; 108; 108; 44; 34; 98; 34; 58; 91; 49; 44; 50; 93; 125]%N in
  valid a = true /\ snapshot_json 0 [32]%N true a = snapshot_json 0 [32]%N true b /\
  valid [123; 34; 97; 34; 58; 125]%N = false.
Proof. vm_compute. repeat split. Qed.

(* non-vacuity: every theorem of this file that has hypotheses has a concrete, non-trivial instance meeting ALL of them
   (lemmas <Theorem>_witness / <Theorem>_applied in Proofs/WitnessesP.v); a representative one is restated here *)
From Snaps Require Import Proofs.WitnessesP.
Example C14_witnesses :
  wf_json w14_v /\ wf_json w14_vp /\ ws_layout w14_l1 /\ ws_layout w14_l2 /\
  jperm w14_v w14_vp /\ distinct_keys w14_v = true /\ w14_v <> w14_vp /\
  JsonSpec.render w14_l1 w14_v <> JsonSpec.render w14_l2 w14_v /\
  valid w14_text = true /\ ws_bytes w14_tab /\ ws_bytes w14_two /\
  snapshot_json w14_width w14_tab true w14_text <> w14_text.
Proof. exact C14_witnesses_all. Qed.
