(* C17 - matcher failures (and invalid input) fail the test and write nothing. *)
From Coq Require Import List NArith Bool Lia.
Import ListNotations.
From Snaps Require Import Base.Bytes Base.Assoc.
From Snaps Require Import Model.Frame Model.PathModel Model.Mode Model.Api.
From Snaps Require Import Proofs.ApiP Proofs.StandaloneP Proofs.StepP.
From Snaps Require Import Model.Json Model.Matchers Proofs.MatchersP.

(* MatchJSON / MatchYAML: in EVERY mode (create allowed, update enabled, CI) a call whose
   matchers (or validation) failed reports exactly one error, writes nothing, and still
   consumes its ordinal - so later calls of the test keep their slots *)
Theorem C17_fail_multi : forall s a c test p k,
  is_standalone a = false -> bad_pre p = Some k -> ~ (a = ASnap /\ p = PNoValues) ->
  exists s' o, multi_call s a c test p = (s', o) /\
    o_outcome o = Failed k /\ o_errors o = 1 /\ o_logs o = [] /\ o_writes o = [] /\
    s_fs s' = s_fs s /\ o_id o = multi_id s c test /\ o_path o = multi_path s c test /\
    get2 (s_running s') (multi_path s c test, test) = S (get2 (s_running s) (multi_path s c test, test)) /\
    s_events s' = bump (Failed k) (s_events s).
Proof. exact multi_call_bad_spec. Qed.
Print Assumptions C17_fail_multi.

(* MatchStandaloneJSON *)
Theorem C17_fail_standalone : forall s a c test p k,
  bad_pre p = Some k ->
  exists s' o, stand_call s a c test p = (s', o) /\
    o_outcome o = Failed k /\ o_errors o = 1 /\ o_logs o = [] /\ o_writes o = [] /\
    s_fs s' = s_fs s /\ o_path o = stand_path s c test /\
    get1 (s_srunning s') (stand_generic s c test) = S (get1 (s_srunning s) (stand_generic s c test)) /\
    s_events s' = bump (Failed k) (s_events s).
Proof. exact stand_call_bad_spec. Qed.
Print Assumptions C17_fail_standalone.

Example C17_example :
  let e := {| ci := false; upd := UTrue; colour := false |} in
  let s := init_state e [47; 120]%N [47; 83]%N in
  let '(s1, o1) := step s (OMatch AJson 0 [84]%N PMatchErr) in
  let '(s2, o2) := step s1 (OMatch AJson 0 [84]%N (POk [123; 125]%N)) in
  o_outcome o1 = Failed EMatchers /\ s_fs s1 = [] /\ o_outcome o2 = Added /\
  o_id o2 = [91; 84; 32; 45; 32; 50; 93]%N.
Proof. vm_compute. repeat split. Qed.

(* ---------- which matcher lists fail, and what the failure names (Model/Matchers.v) ---------- *)

(* COMPLETE: every path of every matcher that fails on the document it actually meets (failing matchers' outputs being discarded)
   is named in the error list, with its matcher and reason ... *)
Theorem C17_errors_named : forall ms1 m ms2 ps1 p ps2 v r,
  matcher_paths m = (ps1 ++ p :: ps2)%list ->
  path_outcome m (doc_at ms1 m ps1 v) p = PRErr r ->
  In (mk_err m p r) (snd (apply_matchers (ms1 ++ m :: ms2) v)).
Proof. exact MatchersP.C17_errors_named. Qed.
(* ... and EXACT: every reported error is such a failure *)
Theorem C17_errors_sound : forall ms v err,
  In err (snd (apply_matchers ms v)) ->
  exists ms1 m ms2 ps1 p ps2 r,
    ms = (ms1 ++ m :: ms2)%list /\ matcher_paths m = (ps1 ++ p :: ps2)%list /\
    err = mk_err m p r /\ path_outcome m (doc_at ms1 m ps1 v) p = PRErr r.
Proof. exact MatchersP.C17_errors_sound. Qed.
(* the three ways to fail *)
Theorem C17_missing_path_fails : forall m w p comps,
  path_comps p = Some comps -> get w (steps_of w comps) = None -> matcher_eom m = true ->
  path_outcome m w p = PRErr RMissing.
Proof. exact MatchersP.C17_missing_path_fails. Qed.
Theorem C17_wrong_type_fails : forall ps t e w p comps old,
  path_comps p = Some comps -> get w (steps_of w comps) = Some old -> type_of old <> Some t ->
  path_outcome (MType ps t e) w p = PRErr RType.
Proof. exact MatchersP.C17_wrong_type_fails. Qed.
Theorem C17_null_has_no_type : forall ps t e w p comps,
  path_comps p = Some comps -> get w (steps_of w comps) = Some JNull ->
  path_outcome (MType ps t e) w p = PRErr RType.
Proof. exact MatchersP.C17_null_has_no_type. Qed.
Theorem C17_callback_error_fails : forall p0 e w p comps old,
  path_comps p = Some comps -> get w (steps_of w comps) = Some old ->
  path_outcome (MCustom p0 CRError e) w p = PRErr RCallback.
Proof. exact MatchersP.C17_callback_error_fails. Qed.
(* ErrOnMissingPath(false): a missing path is ignored and the remaining paths are applied as if it were not listed *)
Theorem C17_tolerated_missing : forall ps1 p ps2 x v comps,
  path_comps p = Some comps ->
  get (fst (apply_matcher (MAny ps1 x false) v)) (steps_of (fst (apply_matcher (MAny ps1 x false) v)) comps) = None ->
  apply_matcher (MAny (ps1 ++ p :: ps2)%list x false) v = apply_matcher (MAny (ps1 ++ ps2)%list x false) v.
Proof. exact C17_tolerated_missing_any. Qed.
(* ... the same for a Type matcher, for a Custom matcher, and for ANY matcher at the level of one path *)
Theorem C17_tolerated_missing_type : forall ps1 p ps2 t v comps,
  path_comps p = Some comps ->
  get (fst (apply_matcher (MType ps1 t false) v)) (steps_of (fst (apply_matcher (MType ps1 t false) v)) comps) = None ->
  apply_matcher (MType (ps1 ++ p :: ps2)%list t false) v = apply_matcher (MType (ps1 ++ ps2)%list t false) v.
Proof. exact MatchersP.C17_tolerated_missing_type. Qed.
Theorem C17_tolerated_missing_custom : forall p r v comps,
  path_comps p = Some comps -> get v (steps_of v comps) = None ->
  apply_matcher (MCustom p r false) v = (v, []).
Proof. exact MatchersP.C17_tolerated_missing_custom. Qed.
Theorem C17_tolerated_missing_path : forall m w p comps,
  path_comps p = Some comps -> get w (steps_of w comps) = None -> matcher_eom m = false ->
  path_outcome m w p = PRSkip.
Proof. exact MatchersP.C17_tolerated_missing. Qed.
Print Assumptions C17_tolerated_missing_type.
Print Assumptions C17_tolerated_missing_custom.
Print Assumptions C17_tolerated_missing_path.
(* DISCARD: a failing matcher's output is thrown away - the next matcher gets the document the failing one received *)
Theorem C17_discard_rule : forall m ms v,
  snd (apply_matcher m v) <> [] ->
  apply_matchers (m :: ms) v = (fst (apply_matchers ms v), (snd (apply_matcher m v) ++ snd (apply_matchers ms v))%list).
Proof. exact matchers_discard_rule. Qed.
Print Assumptions C17_errors_named.
Print Assumptions C17_errors_sound.
Print Assumptions C17_missing_path_fails.
Print Assumptions C17_wrong_type_fails.
Print Assumptions C17_null_has_no_type.
Print Assumptions C17_callback_error_fails.
Print Assumptions C17_tolerated_missing.
Print Assumptions C17_discard_rule.

(* non-vacuity: every theorem of this file that has hypotheses has a concrete, non-trivial instance meeting ALL of them
   (lemmas <Theorem>_witness / <Theorem>_applied in Proofs/WitnessesP.v); a representative one is restated here *)
From Snaps Require Import Proofs.WitnessesP.
Example C17_witnesses :
  (matcher_paths w17_m = w17_paths /\
   path_outcome w17_m (doc_at w17_ms1 w17_m w17_ps1 exv) w17_p_ok = PRErr RType) /\
  In w17_err (snd (apply_matchers w17_ms exv)) /\
  snd (apply_matcher w17_m_fail exv) <> [] /\
  (is_standalone AJson = false /\ bad_pre PMatchErr = Some EMatchers /\ ~ (AJson = ASnap /\ PMatchErr = PNoValues)).
Proof. exact C17_witnesses_all. Qed.
