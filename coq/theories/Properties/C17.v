(* C17 - matcher failures (and invalid input) fail the test and write nothing. *)
From Coq Require Import List NArith Bool Lia.
Import ListNotations.
From Snaps Require Import Base.Bytes Base.Assoc.
From Snaps Require Import Model.Frame Model.PathModel Model.Mode Model.Api.
From Snaps Require Import Proofs.ApiP Proofs.StandaloneP Proofs.StepP.

(* MatchJSON / MatchYAML: in EVERY mode (create allowed, update enabled, CI) a call whose
   matchers (or validation) failed reports exactly one error, writes nothing, and still
   consumes its ordinal - so later calls of the test keep their slots *)
Theorem C17_fail_multi : forall s a c test p k,
  is_standalone a = false -> bad_pre p = Some k -> ~ (a = ASnap /\ p = PNoValues) ->
  exists s' o, multi_call s a c test p = (s', o) /\
    o_outcome o = Failed k /\ o_errors o = 1 /\ o_logs o = [] /\ o_writes o = [] /\
    s_fs s' = s_fs s /\ o_id o = multi_id s c test /\ o_path o = multi_path s c test /\
    get2 (s_running s') (multi_path s c test, test) = S (get2 (s_running s) (multi_path s c test, test)) /\
    s_events s' = bump (Failed k) (s_events s).
Proof. exact multi_call_bad_spec. Qed.
Print Assumptions C17_fail_multi.

(* MatchStandaloneJSON *)
Theorem C17_fail_standalone : forall s a c test p k,
  bad_pre p = Some k ->
  exists s' o, stand_call s a c test p = (s', o) /\
    o_outcome o = Failed k /\ o_errors o = 1 /\ o_logs o = [] /\ o_writes o = [] /\
    s_fs s' = s_fs s /\ o_path o = stand_path s c test /\
    get1 (s_srunning s') (stand_generic s c test) = S (get1 (s_srunning s) (stand_generic s c test)) /\
    s_events s' = bump (Failed k) (s_events s).
Proof. exact stand_call_bad_spec. Qed.
Print Assumptions C17_fail_standalone.

Example C17_example :
  let e := {| ci := false; upd := UTrue; colour := false |} in
  let s := init_state e [47; 120]%N [47; 83]%N in
  let '(s1, o1) := step s (OMatch AJson 0 [84]%N PMatchErr) in
  let '(s2, o2) := step s1 (OMatch AJson 0 [84]%N (POk [123; 125]%N)) in
  o_outcome o1 = Failed EMatchers /\ s_fs s1 = [] /\ o_outcome o2 = Added /\
  o_id o2 = [91; 84; 32; 45; 32; 50; 93]%N.
Proof. vm_compute. repeat split. Qed.
