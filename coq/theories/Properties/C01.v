(* C01 - recorded snapshots replay cleanly (no false failures). *)
From Coq Require Import String.
From Coq Require Import List NArith Bool Lia.
Import ListNotations.
From Snaps Require Import Base.Bytes Base.Lines Base.Dec Base.Assoc.
From Snaps Require Import Model.Frame Model.PathModel Model.Mode Model.Api.
From Snaps Require Import Proofs.BytesP Proofs.LinesP Proofs.FrameP Proofs.ApiP Proofs.HistoryP Proofs.UpdateHistoryP Proofs.StandaloneHistoryP.
Local Open Scope string_scope.

(* Two processes. The first runs history h (any interleaving of tests, any mix of
   MatchSnapshot / MatchJSON / MatchYAML entries sharing files, any Go-legal names, any
   CR-safe values, any pre-existing well-formed files) and only records: every call ends in
   passed or added. Then a fresh process, in ANY mode e2 (CI, update on, update off), makes
   the same calls: every call passes, nothing is reported to the test, nothing is written and
   the snapshot files are byte-for-byte unchanged. No header-collision hypothesis is needed
   here: without rewrites the files only grow by appends, and the first whole-line match of
   a header is stable under appending. *)
Theorem C01_replay_after_create : forall s0 h e2,
  fresh s0 -> wf_fs (s_fs s0) -> Forall hist_op_ok h -> Forall has_value h ->
  Forall rec_ok (snd (run s0 h)) ->
  let s1 := fst (run s0 h) in
  let t0 := replay_start s1 e2 in
  Forall silent_pass (snd (run t0 h)) /\ s_fs (fst (run t0 h)) = s_fs s1.
Proof. exact replay_after_create. Qed.
Print Assumptions C01_replay_after_create.

(* The same conclusion when the recording run also REWRITES entries (update mode: outcomes passed,
   added or updated), for files that are sequences of well-formed entries, under header-collision
   freedom (no body line of any file or value equals a header in play: finding K2 shows it is needed)
   and one value per slot within the history (the same test executed twice records the same values). *)
Theorem C01_replay_after_update : forall H s0 h e2,
  fresh s0 -> headers_ok H -> efs_ok H (s_fs s0) ->
  Forall hist_op_ok h -> Forall has_value h ->
  Forall rec_ok_upd (snd (run s0 h)) ->
  Forall (fact_ok H) (facts s0 h) -> consistent (facts s0 h) ->
  let s1 := fst (run s0 h) in
  let t0 := replay_start s1 e2 in
  Forall silent_pass (snd (run t0 h)) /\ s_fs (fst (run t0 h)) = s_fs s1.
Proof. exact replay_after_update. Qed.
Print Assumptions C01_replay_after_update.

(* the storage/compare pipeline: what is written for a value reads back as that value *)
Theorem C01_write_then_read : forall f tid body,
  wf_file f -> safe_line tid -> tid <> [] -> tid <> endseq ->
  safe_text body -> ~ In endseq (split_nl body) ->
  get_prev tid f = None ->
  exists n, get_prev tid (add_entry tid body f) = Some (body, n).
Proof. exact get_prev_add_new. Qed.
Print Assumptions C01_write_then_read.

(* creating an entry never changes what an existing header replays as *)
Theorem C01_append_stable : forall f tid body tid' r,
  wf_file f -> safe_line tid -> safe_text body ->
  get_prev tid' f = Some r -> get_prev tid' (add_entry tid body f) = Some r.
Proof. exact get_prev_add_other. Qed.
Print Assumptions C01_append_stable.

(* escaping makes every value storable: no terminator line survives, CR-safety is kept *)
Theorem C01_escape_storable : forall s,
  ~ In endseq (split_nl (escape s)) /\ (safe_text s -> safe_text (escape s)) /\
  unescape (escape s) = unescape s.
Proof.
  intros s. split; [apply escape_no_endseq|]. split; [apply escape_safe|apply unescape_escape].
Qed.
Print Assumptions C01_escape_storable.

(* Full statement with a recording run that also REWRITES (update mode) is false of the
   faithful model without header-collision freedom (finding K2): a body line equal to another
   slot's header is rewritten by updateSnapshot. Witness: file holding [TestB - 1] "old" and
   [TestA - 1] whose body contains the line "[TestB - 1]"; update-mode run: A passes, B is
   updated; read-only replay: A fails. *)
Definition k2_env_upd := {| ci := false; upd := UTrue; colour := false |}.
Definition k2_env_ro := {| ci := true; upd := UUnset; colour := false |}.
Definition k2_body : bytes := (B "x" ++ [nl] ++ B "[TestB - 1]" ++ [nl] ++ B "y")%list.
Definition k2_file : bytes := (frame (B "[TestB - 1]") (B "old") ++ frame (B "[TestA - 1]") k2_body)%list.
Definition k2_s0 : state :=
  fst (step (init_state k2_env_upd (B "/r/x_test.go") (B "/S")) (OPutFile (B "/S/x_test.snap") k2_file)).
Definition k2_h : list op :=
  [OMatch ASnap 0 (B "TestA") (POk k2_body); OMatch ASnap 0 (B "TestB") (POk (B "new"))].

Theorem C01_after_update_refuted :
  exists s0 h e2,
    fresh s0 /\ Forall has_value h /\
    map o_outcome (snd (run s0 h)) = [Passed; Updated] /\
    map o_outcome (snd (run (replay_start (fst (run s0 h)) e2) h)) = [Failed EDiff; Passed].
Proof.
  exists k2_s0, k2_h, k2_env_ro. split; [repeat split|].
  split; [repeat constructor; eexists; reflexivity|].
  split; vm_compute; reflexivity.
Qed.
Print Assumptions C01_after_update_refuted.

(* non-vacuity: a history with a terminator line, its escape, blank lines, a header-looking
   line and non-UTF-8 bytes, three APIs sharing one file, two tests interleaved *)
Definition ex_env := {| ci := false; upd := UUnset; colour := false |}.
Definition ex_s0 := init_state ex_env (B "/r/x_test.go") (B "/S").
Definition ex_h : list op :=
  [OMatch ASnap 0 (B "TestA") (POk (B "---" ++ [nl] ++ B "/-/-/-/" ++ [nl; nl] ++ B "[TestC - 1]")%list);
   OMatch AJson 0 (B "TestB") (POk (B "{" ++ [nl] ++ B " ""a"": 1" ++ [nl] ++ B "}")%list);
   OMatch AYaml 0 (B "TestA") (POk (B "a: 1" ++ [nl] ++ B "---" ++ [nl] ++ [255; 254]%N ++ [nl])%list);
   OEndTest (B "TestA");
   OMatch ASnap 0 (B "TestB") (POk [32; 9]%N)].

Example C01_example :
  map o_outcome (snd (run ex_s0 ex_h)) = [Added; Added; Added; NoCall; Added] /\
  map o_outcome (snd (run (replay_start (fst (run ex_s0 ex_h)) k2_env_ro) ex_h))
    = [Passed; Passed; Passed; NoCall; Passed].
Proof. split; vm_compute; reflexivity. Qed.

(* ALL FIVE ENTRY POINTS. Histories mixing MatchSnapshot / MatchJSON / MatchYAML with MatchStandaloneSnapshot /
   MatchStandaloneJSON in any interleaving: the replay theorem holds for the union, provided no standalone file of the
   history is also a multi-entry file of the history (necessary: K12, computed in C19_path_collision_refuted); only the
   files addressed by multi-entry calls need to be well-formed - standalone files hold arbitrary bytes *)
Theorem C01_replay_all_entry_points : forall s0 h e2,
  fresh s0 -> Forall mixed_op_ok h -> Forall has_value h ->
  wf_on (fun p => In p (map fpath (mfacts s0 h))) (s_fs s0) ->
  disjoint_paths (mfacts s0 h) (sfacts s0 h) ->
  Forall rec_ok (snd (run s0 h)) ->
  let s1 := fst (run s0 h) in
  let t0 := replay_start s1 e2 in
  Forall silent_pass (snd (run t0 h)) /\ s_fs (fst (run t0 h)) = s_fs s1.
Proof. exact replay_after_create_all_gen. Qed.
Print Assumptions C01_replay_all_entry_points.

(* non-vacuity of C01_replay_after_update: a concrete recording run that REWRITES an entry (and appends another) meets every
   hypothesis; the theorem then gives the silent replay in every mode *)
Definition ue := {| ci := false; upd := UTrue; colour := false |}.
Definition uf0 : bytes := render [(B "[TestA - 1]", B "old")].
Definition us0 : state := fst (step (init_state ue (B "/r/x_test.go") (B "/S")) (OPutFile (B "/S/x_test.snap") uf0)).
Definition uh : list op := [OMatch ASnap 0 (B "TestA") (POk (B "new")); OMatch ASnap 0 (B "TestA") (POk (B "second"))].
Definition uH := [B "[TestA - 1]"; B "[TestA - 2]"].
Ltac dec_fact := first [ reflexivity | discriminate | (vm_compute; reflexivity) | (vm_compute; intuition discriminate) | (vm_compute; intuition congruence) ].
Example upd_hyps :
  fresh us0 /\ headers_ok uH /\ efs_ok uH (s_fs us0) /\ Forall hist_op_ok uh /\ Forall has_value uh /\
  Forall rec_ok_upd (snd (run us0 uh)) /\ Forall (fact_ok uH) (facts us0 uh) /\ consistent (facts us0 uh) /\
  map o_outcome (snd (run us0 uh)) = [Updated; Added].
Proof.
  assert (Hfs : s_fs us0 = [(B "/S/x_test.snap", uf0)]) by (vm_compute; reflexivity).
  split; [repeat split|].
  split; [repeat constructor; discriminate|].
  split.
  { intros p f Hl. rewrite Hfs in Hl. unfold alookup in Hl.
    match type of Hl with context [if ?c then _ else _] => destruct c end; [|discriminate Hl].
    injection Hl as <-. exists [(B "[TestA - 1]", B "old")]. split; [reflexivity|]. split.
    - repeat constructor; dec_fact.
    - repeat constructor; dec_fact. }
  split; [repeat constructor; dec_fact|].
  split; [repeat constructor; eexists; reflexivity|].
  split; [vm_compute; repeat constructor; tauto|].
  split.
  { vm_compute. repeat constructor; dec_fact. }
  split; [|vm_compute; reflexivity].
  vm_compute. intros p id a t a' t' H1 H2.
  repeat (destruct H1 as [H1|H1]); repeat (destruct H2 as [H2|H2]); try contradiction;
    inversion H1; inversion H2; subst; try discriminate; auto.
Qed.

Example C01_update_example_replays : forall e2,
  Forall silent_pass (snd (run (replay_start (fst (run us0 uh)) e2) uh)) /\
  s_fs (fst (run (replay_start (fst (run us0 uh)) e2) uh)) = s_fs (fst (run us0 uh)).
Proof.
  intros e2. destruct upd_hyps as [H1 [H2 [H3 [H4 [H5 [H6 [H7 [H8 _]]]]]]]].
  exact (C01_replay_after_update uH us0 uh e2 H1 H2 H3 H4 H5 H6 H7 H8).
Qed.

(* non-vacuity: every theorem of this file that has hypotheses has a concrete, non-trivial instance meeting ALL of them
   (lemmas <Theorem>_witness / <Theorem>_applied in Proofs/WitnessesP.v); a representative one is restated here *)
From Snaps Require Import Proofs.WitnessesP.
Example C01_witnesses :
  (fresh w01_s0 /\ wf_fs (s_fs w01_s0) /\ Forall hist_op_ok w01_h /\ Forall has_value w01_h /\
   Forall rec_ok (snd (run w01_s0 w01_h)) /\ map o_outcome (snd (run w01_s0 w01_h)) = w01_outcomes) /\
  (fresh w01_us0 /\ headers_ok w01_uH /\ efs_ok w01_uH (s_fs w01_us0) /\
   Forall hist_op_ok w01_uh /\ Forall has_value w01_uh /\ Forall rec_ok_upd (snd (run w01_us0 w01_uh)) /\
   Forall (fact_ok w01_uH) (facts w01_us0 w01_uh) /\ consistent (facts w01_us0 w01_uh) /\
   map o_outcome (snd (run w01_us0 w01_uh)) = w01_uoutcomes) /\
  (fresh w01_ms0 /\ Forall mixed_op_ok w01_mh /\ Forall has_value w01_mh /\
   wf_on (fun p => In p (map fpath (mfacts w01_ms0 w01_mh))) (s_fs w01_ms0) /\
   disjoint_paths (mfacts w01_ms0 w01_mh) (sfacts w01_ms0 w01_mh) /\
   Forall rec_ok (snd (run w01_ms0 w01_mh)) /\ map o_outcome (snd (run w01_ms0 w01_mh)) = w01_moutcomes).
Proof. exact C01_witnesses_all. Qed.
