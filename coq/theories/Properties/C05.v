(* C05 - write permissions follow the mode table; CI runs are read-only. *)
From Coq Require Import String.
From Coq Require Import List NArith Bool Lia.
Import ListNotations.
From Snaps Require Import Base.Bytes Base.Assoc.
From Snaps Require Import Model.Frame Model.PathModel Model.Mode Model.Api.
From Snaps Require Import Proofs.ApiP Proofs.StandaloneP Proofs.StepP Proofs.OutcomeP Proofs.DirsP.

(* the mode table (2 x 3 x 4 cells each), proved by exhaustive case analysis *)
Theorem C05_update_table : forall e u,
  should_update e u =
  negb (ci e) && match u with Some b => b | None => match upd e with UTrue => true | _ => false end end.
Proof. exact should_update_table. Qed.
Theorem C05_create_table : forall e u,
  should_create e u = negb (ci e) && match u with Some b => b | None => true end.
Proof. exact should_create_table. Qed.
Theorem C05_clean_table : forall e sort_opt,
  clean_deletes e = negb (ci e) && match upd e with UTrue | UClean => true | _ => false end /\
  clean_sorts e sort_opt = negb (ci e) && sort_opt.
Proof. exact clean_flags_table. Qed.
Print Assumptions C05_update_table.
Print Assumptions C05_create_table.
Print Assumptions C05_clean_table.

(* every Match* call (all five entry points, every payload): either it writes nothing, or it
   created (one file, create allowed by the table), or it rewrote (one file, update allowed) *)
Theorem C05_write_permission : forall s a hd test p s' o c,
  nth_error (s_cfgs s) hd = Some c ->
  step s (OMatch a hd test p) = (s', o) ->
  let c' := match a with AStandJson => json_ext c | _ => c end in
  (o_writes o = [] /\ s_fs s' = s_fs s /\ o_outcome o <> Added /\ o_outcome o <> Updated) \/
  (o_outcome o = Added /\ should_create (s_env s) (c_update c') = true /\
     exists k, o_writes o = [(k, o_path o)] /\ k <> WRewrite /\ k <> WRemove) \/
  (o_outcome o = Updated /\ should_update (s_env s) (c_update c') = true /\
     o_writes o = [(WRewrite, o_path o)]).
Proof. exact step_write_permission. Qed.
Print Assumptions C05_write_permission.

Theorem C05_update_option_kept : forall c, c_update (json_ext c) = c_update c.
Proof. exact json_ext_update. Qed.
Print Assumptions C05_update_option_kept.

(* on CI no history of API operations writes anything *)
Theorem C05_ci_readonly : forall ops s,
  Forall api_op ops -> ci (s_env s) = true ->
  Forall (fun o => o_writes o = []) (snd (run s ops)) /\ s_fs (fst (run s ops)) = s_fs s.
Proof. exact run_ci_readonly. Qed.
Print Assumptions C05_ci_readonly.

(* ... nor creates a directory; and off CI a call creates a directory only where it may create a snapshot (Clean never
   touches directories at all: C09_directories_untouched) *)
Theorem C05_ci_no_directory : forall ops s,
  Forall api_op ops -> ci (s_env s) = true -> s_dirs (fst (run s ops)) = s_dirs s.
Proof. exact run_ci_dirs. Qed.
Print Assumptions C05_ci_no_directory.
Theorem C05_directory_needs_create : forall s a hd test p c,
  nth_error (s_cfgs s) hd = Some c ->
  should_create (s_env s) (c_update (match a with AStandJson => json_ext c | _ => c end)) = false ->
  s_dirs (fst (step s (OMatch a hd test p))) = s_dirs s.
Proof. exact step_dirs_need_create. Qed.
Print Assumptions C05_directory_needs_create.

(* non-vacuity: a missing snapshot under Update(false) fails and creates no directory; the same call with creation allowed
   creates the snapshot directory *)
Example C05_directory_example :
  let e := {| ci := false; upd := UUnset; colour := false |} in
  let s0 := init_state e (B "/r/x_test.go") (B "/S/def") in
  let s1 := fst (step s0 (ONewConfig None (Some (B "/S/d")) None (Some false))) in
  let s2 := fst (step s0 (ONewConfig None (Some (B "/S/d")) None None)) in
  o_outcome (snd (step s1 (OMatch ASnap 1 (B "TestA") (POk (B "v"))))) = Failed ENotFound /\
  s_dirs (fst (step s1 (OMatch ASnap 1 (B "TestA") (POk (B "v"))))) = s_dirs s1 /\
  o_outcome (snd (step s2 (OMatch ASnap 1 (B "TestA") (POk (B "v"))))) = Added /\
  s_dirs (fst (step s2 (OMatch ASnap 1 (B "TestA") (POk (B "v"))))) = (s_dirs s2 ++ [B "/S/d"])%list.
Proof. vm_compute. repeat split. Qed.

(* non-vacuity of C05_ci_no_directory: a CI process in which two tests make five calls through two Configs (all of them fail:
   nothing is recorded) - the premises hold and the directory list is what it was *)
Example C05_ci_no_directory_example :
  let e := {| ci := true; upd := UTrue; colour := false |} in
  let s0 := init_state e (B "/r/x_test.go") (B "/S/def") in
  let ops := [ONewConfig None (Some (B "/S/d")) None (Some true);
              OMatch ASnap 1 (B "TestA") (POk (B "v")); OMatch AStand 1 (B "TestA") (POk (B "w")); OEndTest (B "TestA");
              OMatch AJson 0 (B "TestB") (POk (B "{}")); OMatch AStandJson 0 (B "TestB") (POk (B "{}")); OMatch AYaml 1 (B "TestB") (POk (B "a: 1"))] in
  Forall api_op ops /\ ci (s_env s0) = true /\
  s_dirs (fst (run s0 ops)) = s_dirs s0 /\
  map o_outcome (snd (run s0 ops)) = [NoCall; Failed ENotFound; Failed ENotFound; NoCall; Failed ENotFound; Failed ENotFound; Failed ENotFound].
Proof. split; [repeat constructor|]. vm_compute. repeat split. Qed.

Example C05_example :
  let e := {| ci := true; upd := UTrue; colour := false |} in
  let s := init_state e [47; 120]%N [47; 83]%N in
  o_outcome (snd (step s (OMatch ASnap 0 [84]%N (POk [97]%N)))) = Failed ENotFound /\
  should_update {| ci := false; upd := UClean; colour := false |} None = false /\
  should_update {| ci := false; upd := UOther; colour := false |} (Some true) = true.
Proof. vm_compute. repeat split. Qed.

(* non-vacuity: every theorem of this file that has hypotheses has a concrete, non-trivial instance meeting ALL of them
   (lemmas <Theorem>_witness / <Theorem>_applied in Proofs/WitnessesP.v); a representative one is restated here *)
From Snaps Require Import Proofs.WitnessesP.
Example C05_witnesses :
  (Forall api_op w05_ops /\ ci (s_env w05_s_ci) = true /\
   map o_outcome (snd (run w05_s_ci w05_ops)) = w05_ci_outcomes) /\
  (nth_error (s_cfgs w05_s) 1 = Some w05_c1 /\
   step w05_s w05_op2 = (fst (step w05_s w05_op2), snd (step w05_s w05_op2)) /\
   o_outcome (snd (step w05_s w05_op2)) = Updated) /\
  (nth_error (s_cfgs w05_s) 0 = Some w05_c0 /\
   step w05_s w05_op3 = (fst (step w05_s w05_op3), snd (step w05_s w05_op3)) /\
   o_outcome (snd (step w05_s w05_op3)) = Added).
Proof. exact C05_witnesses_all. Qed.
