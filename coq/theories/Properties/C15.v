(* C15 - matchers change only what they target (JSON side; simple key/index paths). *)
From Coq Require Import String.
From Coq Require Import List NArith Bool Lia.
Import ListNotations.
From Snaps Require Import Base.Bytes Base.Lines Model.Json Model.JsonSpec Proofs.JsonP Proofs.MaskP.
From Snaps Require Import Model.Matchers Proofs.MatchersP.

(* the value at the path becomes the placeholder ... *)
Theorem C15_target_replaced : forall (p : list pstep) (v x v' : jv),
  set v p x = Some v' -> get v' p = Some x.
Proof. exact get_set_same. Qed.
Print Assumptions C15_target_replaced.

(* ... every other member and element keeps its value ... *)
Theorem C15_others_untouched : forall (p q : list pstep) (v x v' : jv),
  set v p x = Some v' -> disjoint_paths p q = true -> get v' q = get v q.
Proof. exact get_set_disjoint. Qed.
Print Assumptions C15_others_untouched.

(* ... and its position: exactly one member / element is replaced, keys and order kept *)
Theorem C15_object_shape : forall (k : bytes) (p : list pstep) (m : list (bytes * jv)) (x v' : jv),
  set (JObj m) (PKey k :: p) x = Some v' ->
  exists m1 kr x0 y m2, m = m1 ++ (kr, x0) :: m2 /\ v' = JObj (m1 ++ (kr, y) :: m2) /\
    key_is k kr = true /\ Forall (fun kv => key_is k (fst kv) = false) m1 /\ set x0 p x = Some y.
Proof. exact set_obj_shape. Qed.
Theorem C15_array_shape : forall (i : nat) (p : list pstep) (l : list jv) (x v' : jv),
  set (JArr l) (PIdx i :: p) x = Some v' ->
  exists l1 x0 y l2, l = l1 ++ x0 :: l2 /\ v' = JArr (l1 ++ y :: l2) /\ length l1 = i /\ set x0 p x = Some y.
Proof. exact set_arr_shape. Qed.
Print Assumptions C15_object_shape.
Print Assumptions C15_array_shape.

(* the result is a well-formed document; a path is settable iff it exists (else: error or,
   with ErrOnMissingPath(false), skipped) *)
Theorem C15_result_wellformed : forall (p : list pstep) (v x v' : jv),
  wf_json v -> wf_json x -> set v p x = Some v' -> wf_json v'.
Proof. exact set_wf. Qed.
Theorem C15_settable_iff_exists : forall (p : list pstep) (v x : jv), set v p x <> None <-> get v p <> None.
Proof. exact set_some_iff_get. Qed.
Print Assumptions C15_result_wellformed.
Print Assumptions C15_settable_iff_exists.

(* ---------- whole matcher lists: match.Any / match.Type / match.Custom applied by applyJSONMatchers (Model/Matchers.v) ---------- *)

(* every path disjoint from all matcher paths keeps its value - whatever the matchers do, also when some of them fail *)
Theorem C15_list_others_untouched : forall ms v q,
  (forall p, In p (all_paths ms) -> pdisj p q = true) ->
  get (fst (apply_matchers ms v)) q = get v q.
Proof. exact matchers_others_untouched. Qed.
(* an existing path under Any becomes exactly the placeholder, with no error, and resolves as before *)
Theorem C15_list_any_target_replaced : forall p comps x e v,
  path_comps p = Some comps -> get v (steps_of v comps) <> None ->
  exists v', apply_matchers [MAny [p] x e] v = (v', []) /\ set v (steps_of v comps) x = Some v' /\
             get v' (steps_of v comps) = Some x /\ steps_of v' comps = steps_of v comps.
Proof. exact C15_any_target_replaced. Qed.
(* the document keeps its top-level shape (same keys in the same order / same length) *)
Theorem C15_list_top_shape : forall ms v, same_top_shape v (fst (apply_matchers ms v)).
Proof. exact C15_top_shape. Qed.
(* LEFT TO RIGHT within a matcher: the paths are applied one after the other on the running document ... *)
Theorem C15_paths_left_to_right : forall p1 ps x e v,
  apply_matcher (MAny (p1 :: ps) x e) v =
  (let (v1, e1) := apply_matcher (MAny [p1] x e) v in
   let (v2, e2) := apply_matcher (MAny ps x e) v1 in (v2, (e1 ++ e2)%list)).
Proof. exact matcher_paths_left_to_right_any. Qed.
(* ... so an ancestor listed before its descendant makes the descendant missing (scalar placeholder) *)
Theorem C15_ancestor_then_descendant : forall x e v p1 p2 c1 c2,
  path_comps p1 = Some c1 -> path_comps p2 = Some (c1 ++ c2)%list -> c2 <> [] -> is_scalar x = true ->
  get v (steps_of v c1) <> None ->
  exists v1, set v (steps_of v c1) x = Some v1 /\ get v1 (steps_of v1 (c1 ++ c2)%list) = None /\
    apply_matcher (MAny [p1; p2] x e) v =
    (v1, if e then [{| me_matcher := 0; me_path := p2; me_reason := RMissing |}] else []).
Proof. exact ancestor_then_descendant. Qed.
Print Assumptions C15_list_others_untouched.
Print Assumptions C15_list_any_target_replaced.
Print Assumptions C15_list_top_shape.
Print Assumptions C15_paths_left_to_right.
Print Assumptions C15_ancestor_then_descendant.

Example C15_matcher_example :
  let '(v', es) := apply_matchers [MAny [B "user.name"%string; B "missing"%string] ANY true; MAny [B "time"%string] ANY true] exv in
  es = [err 0 "missing"%string RMissing] /\ get v' [k_user; k_name] = Some (JStr (B "n"%string)) /\ get v' [k_time] = Some ANY.
Proof. exact ex_discard_rule. Qed.

(* non-vacuity: every theorem of this file that has hypotheses has a concrete, non-trivial instance meeting ALL of them
   (lemmas <Theorem>_witness / <Theorem>_applied in Proofs/WitnessesP.v); a representative one is restated here *)
From Snaps Require Import Proofs.WitnessesP.
Example C15_witnesses :
  Json.set w15_v w15_p w15_x = Some w15_v' /\ JsonSpec.disjoint_paths w15_p w15_q = true /\
  wf_json w15_v /\ wf_json w15_x /\
  (forall p, In p (all_paths w15_ms) -> pdisj p w15_q = true) /\
  path_comps w15_ptext = Some w15_comps /\ Json.get w15_v (steps_of w15_v w15_comps) <> None /\
  path_comps w15_anc = Some w15_c1 /\ w15_comps = app w15_c1 w15_c2 /\ w15_c2 <> nil /\ is_scalar w15_x = true /\
  Json.get w15_v (steps_of w15_v w15_c1) <> None.
Proof. exact C15_witnesses_all. Qed.
