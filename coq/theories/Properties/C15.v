(* C15 - matchers change only what they target (JSON side; simple key/index paths). *)
From Coq Require Import List NArith Bool Lia.
Import ListNotations.
From Snaps Require Import Base.Bytes Base.Lines Model.Json Model.JsonSpec Proofs.JsonP Proofs.MaskP.

(* the value at the path becomes the placeholder ... *)
Theorem C15_target_replaced : forall (p : list pstep) (v x v' : jv),
  set v p x = Some v' -> get v' p = Some x.
Proof. exact get_set_same. Qed.
Print Assumptions C15_target_replaced.

(* ... every other member and element keeps its value ... *)
Theorem C15_others_untouched : forall (p q : list pstep) (v x v' : jv),
  set v p x = Some v' -> disjoint_paths p q = true -> get v' q = get v q.
Proof. exact get_set_disjoint. Qed.
Print Assumptions C15_others_untouched.

(* ... and its position: exactly one member / element is replaced, keys and order kept *)
Theorem C15_object_shape : forall (k : bytes) (p : list pstep) (m : list (bytes * jv)) (x v' : jv),
  set (JObj m) (PKey k :: p) x = Some v' ->
  exists m1 kr x0 y m2, m = m1 ++ (kr, x0) :: m2 /\ v' = JObj (m1 ++ (kr, y) :: m2) /\
    key_is k kr = true /\ Forall (fun kv => key_is k (fst kv) = false) m1 /\ set x0 p x = Some y.
Proof. exact set_obj_shape. Qed.
Theorem C15_array_shape : forall (i : nat) (p : list pstep) (l : list jv) (x v' : jv),
  set (JArr l) (PIdx i :: p) x = Some v' ->
  exists l1 x0 y l2, l = l1 ++ x0 :: l2 /\ v' = JArr (l1 ++ y :: l2) /\ length l1 = i /\ set x0 p x = Some y.
Proof. exact set_arr_shape. Qed.
Print Assumptions C15_object_shape.
Print Assumptions C15_array_shape.

(* the result is a well-formed document; a path is settable iff it exists (else: error or,
   with ErrOnMissingPath(false), skipped) *)
Theorem C15_result_wellformed : forall (p : list pstep) (v x v' : jv),
  wf_json v -> wf_json x -> set v p x = Some v' -> wf_json v'.
Proof. exact set_wf. Qed.
Theorem C15_settable_iff_exists : forall (p : list pstep) (v x : jv), set v p x <> None <-> get v p <> None.
Proof. exact set_some_iff_get. Qed.
Print Assumptions C15_result_wellformed.
Print Assumptions C15_settable_iff_exists.
