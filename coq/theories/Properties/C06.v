(* C06 - parallel tests that share a snapshot file are serialisable.
   Model/Sched.v is a micro-step model of the lock and file-system operations of concurrent
   MatchSnapshot-style calls (events ERLock ERUnlock ELock EUnlock ERead EMkdir EOpen EAppend ETrunc
   EWrite, an RW lock, one shared file); the Repaired protocol is what the code does after fix
   fd7d6be, the Pinned one what it did before (append without the lock). *)
From Coq Require Import List NArith Bool Lia Permutation.
Import ListNotations.
From Snaps Require Import Base.Bytes Base.Lines Model.Frame Model.Sched Model.SchedSpec.
From Snaps Require Import Proofs.BytesP Proofs.LinesP Proofs.FrameP Proofs.IsolationP Proofs.SchedP.

(* For ANY number of goroutines, ANY number of calls each, and EVERY schedule (interleaving at every
   lock and file-system operation) that runs the repaired protocol to completion from an
   entry-structured, collision-free file with pairwise distinct slots:
   (a) every call gets the outcome it gets when run alone (hence in any serial order);
   (b) the final file is a rendering of well-formed entries in which every added/updated slot holds its
       text, every other header replays what it replayed initially, and the ids are those of the initial
       file followed by the added ones, each exactly once - nothing lost, duplicated or torn;
   (c) the order of linearisation points is a serial order of whole calls that yields the same bytes
       and the same outcomes. *)
Theorem C06_serialisable : forall (es0 : list entry) (f0 : option bytes) (prog : list (list call))
        (sch : list nat) (c : cfg),
  content f0 = render es0 ->
  Forall wf_entry es0 ->
  no_collisions (map cl_tid (concat prog)) es0 ->
  NoDup (map cl_tid (concat prog)) ->
  Forall (ok_call (map cl_tid (concat prog))) (concat prog) ->
  run_sched Repaired (init_cfg f0 prog) sch = Some c ->
  finished c = true ->
  let L := lin_order Repaired (init_cfg f0 prog) sch in
  let es' := es_of es0 (map snd L) in
  outcomes c = map (map (fun k => snd (run_alone Repaired f0 k))) prog /\
  outcomes c = map (map (spec_outcome es0)) prog /\
  content (final_file c) = render es' /\
  Forall wf_entry es' /\
  (forall k, In k (concat prog) ->
             spec_outcome es0 k = OAdded \/ spec_outcome es0 k = OUpdated ->
             lookup_entry (cl_tid k) es' = Some (cl_snap k)) /\
  (forall h, (forall k, In k (concat prog) -> is_writer es0 k = true -> cl_tid k <> h) ->
             lookup_entry h es' = lookup_entry h es0) /\
  (exists added, map fst es' = map fst es0 ++ added /\
                 Permutation added (map cl_tid (filter (is_added es0) (concat prog)))) /\
  (forall g pg, nth_error prog g = Some pg -> proj g L = pg) /\
  content (fst (run_serial Repaired f0 L)) = content (final_file c) /\
  group_outcomes (length prog) (snd (run_serial Repaired f0 L)) = outcomes c.
Proof. exact serialisable. Qed.
Print Assumptions C06_serialisable.

(* the lock discipline: while a goroutine is between Lock and Unlock no other goroutine is inside a
   read section or a write section *)
Theorem C06_mutual_exclusion : forall c0 sch c g t g' t',
  quiescent c0 ->
  run_sched Repaired c0 sch = Some c ->
  nth_error (g_threads c) g = Some t -> holds_w t = true ->
  nth_error (g_threads c) g' = Some t' -> g' <> g ->
  holds_r t' = false /\ holds_w t' = false.
Proof. exact mutual_exclusion. Qed.
Print Assumptions C06_mutual_exclusion.

(* no deadlock: an unfinished reachable configuration always has an enabled goroutine *)
Theorem C06_progress : forall c0 sch c,
  quiescent c0 -> run_sched Repaired c0 sch = Some c -> finished c = false ->
  exists g c', sched_step Repaired c g = Some c'.
Proof. exact repaired_progress. Qed.
Print Assumptions C06_progress.

(* the pinned protocol (append without the lock) violates the property: finding F4 *)
Theorem C06_pinned_refuted :
  exists c,
    run_sched Pinned (init_cfg ex_file ex_prog) ex_sched_lost = Some c /\
    finished c = true /\
    outcomes c = [[OUpdated]; [OAdded]] /\
    final_file c = Some (frame ex_tidA ex_new) /\
    get_prev ex_tidB (content (final_file c)) = None.
Proof. exact pinned_refuted. Qed.
Theorem C06_pinned_refuted_torn :
  exists c,
    run_sched Pinned (init_cfg ex_file ex_prog) ex_sched_torn = Some c /\
    finished c = true /\
    outcomes c = [[OUpdated]; [OAdded]] /\
    final_file c = Some (frame ex_tidA ex_new ++ ex_residue) /\
    get_prev ex_tidB (content (final_file c)) = None.
Proof. exact pinned_refuted_torn. Qed.
Print Assumptions C06_pinned_refuted.
Print Assumptions C06_pinned_refuted_torn.

(* counters: any interleaving of the (mutex-protected) increments gives the same totals *)
Theorem C06_counters_commute : forall (l l' : list (nat * soutcome)),
  Permutation l l' -> tally_of l = tally_of l'.
Proof. exact counters_commute. Qed.
Print Assumptions C06_counters_commute.

(* the serial executions that C06_serialisable refers to do not depend on the order chosen for calls that REWRITE different
   slots of the shared file (update mode): either order leaves the same bytes (the witness is C03_rewrites_witnesses) *)
Theorem C06_serial_rewrites_order_independent : forall t1 s1 t2 s2 es,
  Forall wf_entry es -> wf_entry (t1, s1) -> wf_entry (t2, s2) ->
  no_collision t1 es -> no_collision t2 es ->
  ~ In t1 (split_nl s2) -> ~ In t2 (split_nl s1) -> t1 <> t2 ->
  update_entry t1 s1 (update_entry t2 s2 (render es)) =
  update_entry t2 s2 (update_entry t1 s1 (render es)).
Proof. exact updates_commute. Qed.
Print Assumptions C06_serial_rewrites_order_independent.

(* non-vacuity: every theorem of this file that has hypotheses has a concrete, non-trivial instance meeting ALL of them
   (lemmas <Theorem>_witness / <Theorem>_applied in Proofs/WitnessesP.v); a representative one is restated here *)
From Snaps Require Import Proofs.WitnessesP.
Example C06_witnesses :
  exists c : cfg,
    content ex_file = render w06_es0 /\
    Forall wf_entry w06_es0 /\
    no_collisions (map cl_tid (concat ex_prog)) w06_es0 /\
    NoDup (map cl_tid (concat ex_prog)) /\
    Forall (ok_call (map cl_tid (concat ex_prog))) (concat ex_prog) /\
    run_sched Repaired (init_cfg ex_file ex_prog) ex_sched_ok = Some c /\
    finished c = true.
Proof. exact C06_serialisable_witness. Qed.
