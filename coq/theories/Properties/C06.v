(* C06 - parallel tests that share a snapshot file are serialisable.
   (placeholder slice: the lock-discipline model and the serialisability theorem live in
   Model/Sched.v / Proofs/SchedP.v; see below) *)
From Coq Require Import List NArith Bool Lia.
Import ListNotations.
From Snaps Require Import Base.Bytes Base.Lines Model.Frame.
From Snaps Require Import Proofs.BytesP Proofs.LinesP Proofs.FrameP Proofs.IsolationP.

(* the sequential core every interleaving argument rests on: a write section of slot tid leaves
   every other slot's replay value unchanged (collision-free, entry-structured file) *)
Theorem C06_write_sections_commute_on_other_slots : forall tid snap tid' es,
  Forall wf_entry es -> wf_entry (tid, snap) ->
  no_collision tid es -> no_collision tid' es -> ~ In tid' (split_nl snap) ->
  tid <> [] -> tid <> endseq -> tid' <> [] -> tid' <> endseq -> tid' <> tid ->
  option_map fst (get_prev tid' (update_entry tid snap (render es))) =
  option_map fst (get_prev tid' (render es)).
Proof. exact update_isolation. Qed.
Print Assumptions C06_write_sections_commute_on_other_slots.
