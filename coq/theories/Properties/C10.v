(* C10 - Clean rewrites preserve content; sorting is an idempotent permutation. *)
From Coq Require Import String.
From Coq Require Import List NArith Bool Lia Permutation.
Local Open Scope string_scope.
Import ListNotations.
From Snaps Require Import Base.Bytes Base.Assoc.
From Snaps Require Import Model.Frame Model.PathModel Model.Mode Model.Api Model.Natural Model.Clean.
From Snaps Require Import Proofs.FrameP Proofs.CleanP Proofs.CleanEntriesP.

(* whenever Clean rewrites a file (pruning and/or sorting) the new content is the rendering of a
   PERMUTATION of the staying entries: every surviving entry is written exactly once with exactly the
   body it held; nothing is dropped, duplicated or invented *)
Theorem C10_rewrite_preserves_content : forall reg skp update sort es nf,
  Forall centry_ok es -> NoDup (map fst es) ->
  snd (examine_file reg skp update sort (render (map to_entry es))) = Some nf ->
  exists out, nf = render (map to_entry out) /\ Permutation out (stay reg skp update es).
Proof. exact rewrite_content. Qed.
Print Assumptions C10_rewrite_preserves_content.

(* pruning without sorting keeps the survivors byte-identical and in place *)
Theorem C10_prune_in_place : forall reg skp es,
  Forall centry_ok es -> NoDup (map fst es) ->
  filter (fun e => negb (kept reg skp e)) es <> [] ->
  examine_file reg skp true false (render (map to_entry es)) =
  (map fst (filter (fun e => negb (kept reg skp e)) es),
   Some (render (map to_entry (filter (kept reg skp) es)))).
Proof. exact examine_file_prune. Qed.
Print Assumptions C10_prune_in_place.

(* the emission order under sorting is a permutation of the ids (insertion by the natural comparator) *)
Theorem C10_sort_is_permutation : forall l, Permutation (sort_nat l) l.
Proof. exact sort_nat_perm. Qed.
Print Assumptions C10_sort_is_permutation.

(* files needing neither pruning nor sorting are not written *)
Theorem C10_noop_not_written : forall registered skipped f,
  snd (examine_file registered skipped false false f) = None.
Proof. exact examine_file_noop. Qed.
Theorem C10_rewrite_only_if : forall registered skipped update sort f o nf,
  examine_file registered skipped update sort f = (o, Some nf) ->
  (update = true /\ o <> []) \/ sort = true.
Proof. exact examine_file_rewrite_iff. Qed.
Print Assumptions C10_noop_not_written.
Print Assumptions C10_rewrite_only_if.

(* pruning is idempotent: after a clean-mode rewrite nothing is stale any more, so a second Clean
   does not rewrite for pruning *)
Theorem C10_prune_idempotent : forall reg skp es,
  filter (fun e => negb (kept reg skp e)) (filter (kept reg skp) es) = [].
Proof. exact prune_idempotent. Qed.
Print Assumptions C10_prune_idempotent.
