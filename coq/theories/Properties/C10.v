(* C10 - Clean rewrites preserve content; sorting is an idempotent permutation. *)
From Coq Require Import String.
From Coq Require Import List NArith Bool Lia Permutation Sorted.
Local Open Scope string_scope.
Import ListNotations.
From Snaps Require Import Base.Bytes Base.Assoc.
From Snaps Require Import Model.Frame Model.PathModel Model.Mode Model.Api Model.Natural Model.Clean.
From Snaps Require Import Base.Dec.
From Snaps Require Import Proofs.FrameP Proofs.CleanP Proofs.CleanEntriesP Proofs.SortP.

(* whenever Clean rewrites a file (pruning and/or sorting) the new content is the rendering of a
   PERMUTATION of the staying entries: every surviving entry is written exactly once with exactly the
   body it held; nothing is dropped, duplicated or invented *)
Theorem C10_rewrite_preserves_content : forall reg skp update sort es nf,
  Forall centry_ok es -> NoDup (map fst es) ->
  snd (examine_file reg skp update sort (render (map to_entry es))) = Some nf ->
  exists out, nf = render (map to_entry out) /\ Permutation out (stay reg skp update es).
Proof. exact rewrite_content. Qed.
Print Assumptions C10_rewrite_preserves_content.

(* pruning without sorting keeps the survivors byte-identical and in place *)
Theorem C10_prune_in_place : forall reg skp es,
  Forall centry_ok es -> NoDup (map fst es) ->
  filter (fun e => negb (kept reg skp e)) es <> [] ->
  examine_file reg skp true false (render (map to_entry es)) =
  (map fst (filter (fun e => negb (kept reg skp e)) es),
   Some (render (map to_entry (filter (kept reg skp) es)))).
Proof. exact examine_file_prune. Qed.
Print Assumptions C10_prune_in_place.

(* the emission order under sorting is a permutation of the ids (insertion by the natural comparator) *)
Theorem C10_sort_is_permutation : forall l, Permutation (sort_nat l) l.
Proof. exact sort_nat_perm. Qed.
Print Assumptions C10_sort_is_permutation.

(* files needing neither pruning nor sorting are not written *)
Theorem C10_noop_not_written : forall registered skipped f,
  snd (examine_file registered skipped false false f) = None.
Proof. exact examine_file_noop. Qed.
Theorem C10_rewrite_only_if : forall registered skipped update sort f o nf,
  examine_file registered skipped update sort f = (o, Some nf) ->
  (update = true /\ o <> []) \/ sort = true.
Proof. exact examine_file_rewrite_iff. Qed.
Print Assumptions C10_noop_not_written.
Print Assumptions C10_rewrite_only_if.

(* pruning is idempotent: after a clean-mode rewrite nothing is stale any more, so a second Clean
   does not rewrite for pruning *)
Theorem C10_prune_idempotent : forall reg skp es,
  filter (fun e => negb (kept reg skp e)) (filter (kept reg skp) es) = [].
Proof. exact prune_idempotent. Qed.
Print Assumptions C10_prune_idempotent.

(* ---------- sorting: natural order, independence of the initial order, idempotence ---------- *)

(* "whenever that order is total": [total_on nat_lt ids] - irreflexive, transitive, and exactly one of
   x < y, y < x for distinct ids; a decidable (boolean) condition, see [total_nat_b_spec] *)

(* with sorting requested, the rewritten file lists the staying entries (each exactly once, with its body) in an
   order that passes the library's own sortedness test, namely the staying ids of the sorted id list *)
Theorem C10_sorted_result : forall reg skp update es obs nf,
  Forall centry_ok es -> NoDup (map fst es) -> total_on nat_lt (map fst es) ->
  examine_file reg skp update true (render (map to_entry es)) = (obs, Some nf) ->
  exists out, nf = render (map to_entry out) /\
              map fst out = filter (stays reg skp update) (sort_nat (map fst es)) /\
              is_sorted_nat (map fst out) = true /\
              Permutation out (stay reg skp update es).
Proof. exact clean_sorted_result. Qed.
Print Assumptions C10_sorted_result.

(* ... independent of the initial order of the entries in the file *)
Theorem C10_sorted_order_independent : forall reg skp update es es' obs nf obs' nf',
  Forall centry_ok es -> NoDup (map fst es) -> total_on nat_lt (map fst es) ->
  Permutation es es' ->
  examine_file reg skp update true (render (map to_entry es)) = (obs, Some nf) ->
  examine_file reg skp update true (render (map to_entry es')) = (obs', Some nf') ->
  nf = nf'.
Proof. exact clean_sorted_order_independent. Qed.
Print Assumptions C10_sorted_order_independent.

(* running Clean again (same mode, pruning and/or sorting) changes nothing: the file is not written a second time *)
Theorem C10_clean_twice : forall reg skp update sort es obs nf,
  Forall centry_ok es -> NoDup (map fst es) -> total_on nat_lt (map fst es) ->
  examine_file reg skp update sort (render (map to_entry es)) = (obs, Some nf) ->
  examine_file reg skp update sort nf = ((if update then [] else sort_nat obs), None).
Proof. exact clean_sort_idempotent. Qed.
Print Assumptions C10_clean_twice.

(* there is exactly one sorted arrangement of a list of distinct ids on which the order is total: whatever correct
   algorithm slices.SortFunc uses (pdqsort), it returns the list the model's insertion sort returns *)
Theorem C10_sorted_arrangement_unique : forall l l',
  total_on nat_lt l -> NoDup l -> Permutation l l' ->
  is_sorted_nat l = true -> is_sorted_nat l' = true -> l = l'.
Proof. exact sorted_perm_unique_nat. Qed.
Theorem C10_sort_sorted : forall l, total_on nat_lt l -> is_sorted_nat (sort_nat l) = true.
Proof. exact sort_nat_sorted. Qed.
Print Assumptions C10_sorted_arrangement_unique.
Print Assumptions C10_sort_sorted.

(* what the natural order IS on the ids of one test: entries `name - k` are ordered by the ORDINAL numerically
   (1, 2, ..., 9, 10, 11 and not 1, 10, 11, 2), for every test name whose digit runs fit uint64 *)
Theorem C10_same_test_by_ordinal : forall p j k,
  good_prefix p -> in_range j -> in_range k ->
  nat_lt (p ++ dec j)%list (p ++ dec k)%list = Nat.ltb j k.
Proof. exact nat_lt_same_test. Qed.
Theorem C10_same_test_sorted_increasing : forall p ks,
  good_prefix p -> Forall in_range ks -> NoDup ks ->
  exists ks', Permutation ks ks' /\ StronglySorted lt ks' /\
              sort_nat (map (fun k => (p ++ dec k)%list) ks) = map (fun k => (p ++ dec k)%list) ks'.
Proof. exact sort_nat_same_test_increasing. Qed.
Theorem C10_same_test_total : forall p ks,
  good_prefix p -> Forall in_range ks -> total_on nat_lt (map (fun k => (p ++ dec k)%list) ks).
Proof. exact ids_total_on. Qed.
Print Assumptions C10_same_test_by_ordinal.
Print Assumptions C10_same_test_sorted_increasing.
Print Assumptions C10_same_test_total.

(* the totality hypothesis is necessary: the comparator is not transitive (leading zeros) and even has a cycle
   through a numeral that does not fit uint64 (byte-order fallback): on such ids "the sorted order" is not defined
   (known finding K11: the real Clean then needs two runs to settle on large files) *)
Theorem C10_order_not_total_refuted :
  exists a b c : bytes, nat_lt a b = true /\ nat_lt b c = true /\ nat_lt c a = true.
Proof. exact nat_lt_cycle. Qed.
Theorem C10_order_not_transitive_refuted :
  exists a b c : bytes,
    nat_lt a b = true /\ nat_lt b c = true /\ nat_lt a c = false /\ nat_lt c a = false /\ a <> c.
Proof. exact nat_lt_not_total. Qed.
Print Assumptions C10_order_not_total_refuted.
Print Assumptions C10_order_not_transitive_refuted.

(* non-vacuity: a concrete unsorted file of two tests with a stale entry meets every hypothesis; first and second run *)
Example C10_example_first_run :
  examine_file ex_reg [] true true (render (map to_entry ex_es)) = ([B "TestB - 2"], Some (render (map to_entry ex_sorted))).
Proof. exact ex_first_run. Qed.
Example C10_example_second_run :
  examine_file ex_reg [] true true (render (map to_entry ex_sorted)) = ([], None).
Proof. exact ex_second_run_by_theorem. Qed.
Example C10_example_hypotheses : Forall centry_ok ex_es /\ NoDup (map fst ex_es) /\ total_on nat_lt (map fst ex_es).
Proof. exact (conj ex_es_ok (conj ex_es_nodup ex_es_total)). Qed.

(* non-vacuity: every theorem of this file that has hypotheses has a concrete, non-trivial instance meeting ALL of them
   (lemmas <Theorem>_witness / <Theorem>_applied in Proofs/WitnessesP.v); a representative one is restated here *)
From Snaps Require Import Proofs.WitnessesP.
Example C10_witnesses :
  (Forall centry_ok w10_es /\ NoDup (map fst w10_es) /\ total_on nat_lt (map fst w10_es)) /\
  Permutation w10_es w10_es' /\
  filter (fun e => negb (kept w10_reg w10_skp e)) w10_es <> nil /\
  examine_file w10_reg w10_skp true true (render (map to_entry w10_es)) = (w10_obs, Some w10_nf) /\
  examine_file w10_reg w10_skp true false (render (map to_entry w10_es)) = (w10_obs, Some w10_nf_pruned) /\
  examine_file w10_reg w10_skp false true (render (map to_entry w10_es)) = (w10_obs, Some w10_nf_all) /\
  examine_file w10_reg w10_skp false true (render (map to_entry w10_es')) = (w10_obs', Some w10_nf_all) /\
  is_sorted_nat (map fst w10_es) = false /\
  (total_on nat_lt w10_ids_sorted /\ NoDup w10_ids_sorted /\ is_sorted_nat w10_ids_sorted = true) /\
  (good_prefix w10_p /\ Forall in_range w10_ks /\ NoDup w10_ks /\ in_range w10_j /\ in_range w10_k).
Proof. exact C10_witnesses_all. Qed.

(* Clean examines files independently of one another: what a used file holds after the run - and whether it is written at all -
   is determined by its own entries, its own part of the registry, the skip list and the mode; no other file, and no registry
   entry of another file, has any influence (seeded changes C07-P, C09-P, C10-P are all violations of this). The per-state
   hypotheses are met by the states of C07_run_addressed_entry_survives_witness (Proofs/WitnessesP.v); a machine-checked PAIR of
   different states (the other file ending in an unterminated entry) was drafted but its vm_compute did not finish in time:
   the instance s' = s is the only one checked, so read this theorem with that caveat (DESIGN, session 6). *)
From Snaps Require Import Proofs.CleanFilesP Proofs.CleanRunP Proofs.CleanIndepP.
Theorem C10_files_independent : forall s s' sort_opt count p es,
  NoDup (map fst (s_fs s)) -> NoDup (map fst (s_fs s')) ->
  In p (fr_used (run_files s count)) -> In p (fr_used (run_files s' count)) ->
  alookup p (s_fs s) = Some (render (map to_entry es)) ->
  alookup p (s_fs s') = Some (render (map to_entry es)) ->
  Forall centry_ok es -> NoDup (map fst es) ->
  s_env s = s_env s' -> s_skipped s = s_skipped s' ->
  registered_tests (s_cleanup s) p count = registered_tests (s_cleanup s') p count ->
  alookup p (s_fs (fst (clean_run s sort_opt count))) = alookup p (s_fs (fst (clean_run s' sort_opt count))).
Proof. exact clean_file_independent. Qed.
Print Assumptions C10_files_independent.

Theorem C10_files_written_independent : forall s s' sort_opt count p es,
  NoDup (map fst (s_fs s)) -> NoDup (map fst (s_fs s')) ->
  In p (fr_used (run_files s count)) -> In p (fr_used (run_files s' count)) ->
  alookup p (s_fs s) = Some (render (map to_entry es)) ->
  alookup p (s_fs s') = Some (render (map to_entry es)) ->
  Forall centry_ok es -> NoDup (map fst es) ->
  s_env s = s_env s' -> s_skipped s = s_skipped s' ->
  registered_tests (s_cleanup s) p count = registered_tests (s_cleanup s') p count ->
  (In (WRewrite, p) (cr_writes (snd (clean_run s sort_opt count))) <->
   In (WRewrite, p) (cr_writes (snd (clean_run s' sort_opt count)))).
Proof. exact clean_file_written_independent. Qed.
Print Assumptions C10_files_written_independent.
