(* C10 - Clean rewrites preserve content; sorting is an idempotent permutation (first slice). *)
From Coq Require Import List NArith Bool Lia.
Import ListNotations.
From Snaps Require Import Base.Bytes Base.Assoc.
From Snaps Require Import Model.Frame Model.PathModel Model.Mode Model.Api Model.Natural Model.Clean.
From Snaps Require Import Proofs.CleanP.

(* files needing neither pruning nor sorting are not written *)
Theorem C10_noop_not_written : forall registered skipped f,
  snd (examine_file registered skipped false false f) = None.
Proof. exact examine_file_noop. Qed.
Print Assumptions C10_noop_not_written.

Theorem C10_rewrite_only_if : forall registered skipped update sort f o nf,
  examine_file registered skipped update sort f = (o, Some nf) ->
  (update = true /\ o <> []) \/ sort = true.
Proof. exact examine_file_rewrite_iff. Qed.
Print Assumptions C10_rewrite_only_if.
