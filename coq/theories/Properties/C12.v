(* C12 - Config values are immutable; calls through them are order-independent. *)
From Coq Require Import List NArith Bool Lia.
Import ListNotations.
From Snaps Require Import Base.Bytes Base.Assoc.
From Snaps Require Import Model.Frame Model.PathModel Model.Mode Model.Api.
From Snaps Require Import Proofs.ApiP Proofs.StandaloneP Proofs.StepP.

(* no sequence of Match* / Skip* / end-of-test operations changes any Config *)
Theorem C12_immutable : forall ops s, Forall call_op ops -> s_cfgs (fst (run s ops)) = s_cfgs s.
Proof. exact run_cfgs. Qed.
Print Assumptions C12_immutable.

(* where a call stores its snapshot depends only on the Config's options, the calling test
   file and the test name - not on the history *)
Theorem C12_location_multi : forall s a c test p s' o,
  is_standalone a = false -> ~ (a = ASnap /\ p = PNoValues) ->
  multi_call s a c test p = (s', o) -> o_path o = snapshot_path c (s_caller s) test false.
Proof. exact multi_call_path. Qed.
Print Assumptions C12_location_multi.

Theorem C12_location_standalone : forall s a c test p s' o,
  stand_call s a c test p = (s', o) ->
  o_path o = subst_d (snapshot_path c (s_caller s) test true)
               (Dec.dec (S (get1 (s_srunning s) (snapshot_path c (s_caller s) test true)))).
Proof. exact stand_call_path_full. Qed.
Print Assumptions C12_location_standalone.

(* Configs built by WithConfig never alias existing ones: creating one leaves every
   existing handle (defaults included) as it was *)
Theorem C12_with_config_independent : forall s fn d ex u h,
  h < length (s_cfgs s) ->
  nth_error (s_cfgs (fst (step s (ONewConfig fn d ex u)))) h = nth_error (s_cfgs s) h.
Proof. exact new_config_keeps. Qed.
Print Assumptions C12_with_config_independent.

(* non-vacuity + the pinned-tree defect F1 as a regression example: MatchSnapshot after
   MatchStandaloneJSON through the same Config still goes to <file>.snap *)
Example C12_example :
  let e := {| ci := false; upd := UUnset; colour := false |} in
  let s0 := fst (step (init_state e [47;114;47;120;95;116;101;115;116;46;103;111]%N [47; 83]%N)
                      (ONewConfig None None None None)) in
  let '(s1, _) := step s0 (OMatch AStandJson 1 [84]%N (POk [123; 125]%N)) in
  let '(_, o2) := step s1 (OMatch ASnap 1 [84]%N (POk [97]%N)) in
  o_path o2 = [47;83;47;120;95;116;101;115;116;46;115;110;97;112]%N.
Proof. vm_compute. reflexivity. Qed.

(* non-vacuity: every theorem of this file that has hypotheses has a concrete, non-trivial instance meeting ALL of them
   (lemmas <Theorem>_witness / <Theorem>_applied in Proofs/WitnessesP.v); a representative one is restated here *)
From Snaps Require Import Proofs.WitnessesP.
Example C12_witnesses :
  (Forall call_op w12_ops /\ s_cfgs w12_s0 = w12_cfgs /\ map o_outcome (snd (run w12_s0 w12_ops)) = w12_outcomes) /\
  (is_standalone AYaml = false /\ ~ (AYaml = ASnap /\ w12_p = PNoValues) /\
   multi_call w12_s1 AYaml w12_c1 w12_tB w12_p =
     (fst (multi_call w12_s1 AYaml w12_c1 w12_tB w12_p), snd (multi_call w12_s1 AYaml w12_c1 w12_tB w12_p)) /\
   snapshot_path w12_c1 (s_caller w12_s1) w12_tB false = w12_path_multi) /\
  (stand_call w12_s1 AStand w12_c1 w12_tB w12_p =
     (fst (stand_call w12_s1 AStand w12_c1 w12_tB w12_p), snd (stand_call w12_s1 AStand w12_c1 w12_tB w12_p)) /\
   subst_d (snapshot_path w12_c1 (s_caller w12_s1) w12_tB true)
           (Dec.dec (S (get1 (s_srunning w12_s1) (snapshot_path w12_c1 (s_caller w12_s1) w12_tB true)))) = w12_path_stand) /\
  nth_error (s_cfgs w12_s1) w12_h = Some w12_c1.
Proof. exact C12_witnesses_all. Qed.
