(* C19 - a standalone snapshot file is the formatted value and nothing else. *)
From Coq Require Import String.
From Coq Require Import List NArith Bool Lia.
Local Open Scope string_scope.
Import ListNotations.
From Snaps Require Import Base.Bytes Base.Lines Base.Dec Base.Assoc.
From Snaps Require Import Model.Frame Model.PathModel Model.Mode Model.Api.
From Snaps Require Import Proofs.BytesP Proofs.StandaloneP Proofs.StandaloneNameP Proofs.ApiP Proofs.HistoryP Proofs.UpdateHistoryP Proofs.StandaloneHistoryP.

(* The bytes of the file are exactly the formatted value: no header, terminator,
   escaping or added newline - for every byte sequence, carriage returns included. *)
Theorem C19_bytes : forall s a c test text s' o,
  stand_call s a c test (POk text) = (s', o) ->
  (o_outcome o = Added \/ o_outcome o = Updated) ->
  alookup (o_path o) (s_fs s') = Some text.
Proof. exact stand_bytes. Qed.
Print Assumptions C19_bytes.

(* no other file is created, changed or removed by the call *)
Theorem C19_others_untouched : forall s a c test p s' o q,
  stand_call s a c test p = (s', o) -> q <> o_path o ->
  alookup q (s_fs s') = alookup q (s_fs s).
Proof. exact stand_others. Qed.
Print Assumptions C19_others_untouched.

(* round trip: the stored value replays in every mode, silently, without a write *)
Theorem C19_roundtrip : forall s a c test text,
  alookup (stand_path s c test) (s_fs s) = Some text ->
  exists s' o, stand_call s a c test (POk text) = (s', o) /\
    o_outcome o = Passed /\ o_errors o = 0 /\ o_logs o = [] /\ o_writes o = [] /\
    s_fs s' = s_fs s.
Proof. exact stand_replay. Qed.
Print Assumptions C19_roundtrip.

(* any differing value: exactly one failure and no write, or (update allowed) the file is
   replaced wholesale by the new value *)
Theorem C19_update_wholesale : forall s a c test text prev s' o,
  alookup (stand_path s c test) (s_fs s) = Some prev -> prev <> text ->
  stand_call s a c test (POk text) = (s', o) ->
  (should_update (s_env s) (c_update c) = false /\
     o_outcome o = Failed EDiff /\ o_errors o = 1 /\ o_writes o = [] /\ s_fs s' = s_fs s)
  \/ (should_update (s_env s) (c_update c) = true /\
     o_outcome o = Updated /\ o_errors o = 0 /\ o_logs o = [LUpdated] /\
     alookup (o_path o) (s_fs s') = Some text).
Proof. exact stand_mismatch. Qed.
Print Assumptions C19_update_wholesale.

(* the k-th standalone call of an execution maps to file k (ordinal substituted into the
   generic path), for any number of calls, whatever their outcomes *)
Theorem C19_kth_file : forall s a c test ps i, i < length ps ->
  nth i (stand_calls s a c test ps) [] =
  subst_d (stand_generic s c test) (dec (get1 (s_srunning s) (stand_generic s c test) + S i)).
Proof. exact stand_kth. Qed.
Print Assumptions C19_kth_file.

(* ... and file k is <dir>/<Filename, or the test name with / replaced by _>_<k>.snap<Ext>, for EVERY test name, Filename,
   directory and extension - a '%' or "%d" inside them included (fix F8; Proofs/PercentP.v) *)
Theorem C19_kth_file_named : forall s a c test ps i, i < length ps ->
  nth i (stand_calls s a c test ps) [] =
  join2 (if is_abs (c_dir c) then c_dir c else join2 (dirname (s_caller s)) (c_dir c))
        ((match c_filename c with [] => replace_byte slash 95%N test | f => f end)
           ++ B "_" ++ dec (get1 (s_srunning s) (stand_generic s c test) + S i) ++ B ".snap" ++ c_ext c)%list.
Proof. exact stand_kth_named. Qed.
Print Assumptions C19_kth_file_named.

(* non-vacuity: a concrete state in which a carriage-return value is stored and replayed *)
Example C19_example :
  let e := {| ci := false; upd := UUnset; colour := false |} in
  let s := init_state e (B "/r/x_test.go") (B "/S/def") in
  let v := [13; 10; 13]%N in
  let '(s1, o1) := stand_call s AStand (default_config (B "/S/def")) (B "TestA/b") (POk v) in
  let s1' := end_test s1 (B "TestA/b") in
  let '(s2, o2) := stand_call s1' AStand (default_config (B "/S/def")) (B "TestA/b") (POk v) in
  o_outcome o1 = Added /\ o_path o1 = B "/S/def/TestA_b_1.snap" /\
  alookup (o_path o1) (s_fs s1) = Some v /\ o_outcome o2 = Passed /\ o_writes o2 = [].
Proof. vm_compute. repeat split. Qed.

(* ---------- histories ---------- *)

(* REPLAY over whole histories: a fresh process runs ANY history of standalone calls (arbitrary bytes as values, any test
   names, tests interleaved, Configs shared - two tests may even share a generic path) over ANY file system and only
   passes/creates; then a new process in EVERY mode (CI, update, ...) replays the same calls: every call passes silently,
   nothing is written, the files are byte-identical *)
Theorem C19_replay_histories : forall s0 h e2,
  fresh s0 -> Forall stand_op_ok h -> Forall has_value h -> Forall rec_ok (snd (run s0 h)) ->
  let s1 := fst (run s0 h) in
  let t0 := replay_start s1 e2 in
  Forall silent_pass (snd (run t0 h)) /\ s_fs (fst (run t0 h)) = s_fs s1.
Proof. exact standalone_replay_after_create. Qed.
Print Assumptions C19_replay_histories.

(* ... also when the recording run updated files wholesale, provided it never wrote two different values to one file
   (necessary: computed counterexample [standalone_update_needs_consistency]) *)
Theorem C19_replay_after_update : forall s0 h e2,
  fresh s0 -> Forall stand_op_ok h -> Forall has_value h -> Forall rec_ok_upd (snd (run s0 h)) ->
  sconsistent (sfacts s0 h) ->
  let s1 := fst (run s0 h) in
  let t0 := replay_start s1 e2 in
  Forall silent_pass (snd (run t0 h)) /\ s_fs (fst (run t0 h)) = s_fs s1.
Proof. exact standalone_replay_after_update. Qed.
Print Assumptions C19_replay_after_update.

(* THE k-TH CALL MAPS TO FILE k, over histories: if test t is the only user of its generic path g, the i-th standalone call
   it makes since its last end addresses g with %d := i - whatever the other tests do in between (only_user is necessary:
   the registry is keyed by the generic path alone, [sx_shared_ordinals]) *)
Theorem C19_kth_call_histories : forall s0 h1 h2 g t,
  fresh s0 -> Forall kth_op_ok (h1 ++ h2) -> only_user g t s0 (h1 ++ h2) ->
  (h1 = [] \/ exists h1', h1 = (h1' ++ [OEndTest t])%list) -> ~ In (OEndTest t) h2 ->
  forall i, i < List.length (stand_paths g (fst (run s0 h1)) h2) ->
  nth i (stand_paths g (fst (run s0 h1)) h2) [] = subst_d g (dec (S i)).
Proof. exact standalone_kth_call. Qed.
Print Assumptions C19_kth_call_histories.

(* a standalone file and a multi-entry file may collide (Filename "a" / "a_1"): known finding K12, computed *)
Theorem C19_path_collision_refuted :
  fresh sx_s0 /\ wf_fs (s_fs sx_s0) /\ Forall mixed_op_ok cx_h /\ Forall has_value cx_h /\
  Forall rec_ok (snd (run sx_s0 cx_h)) /\
  map o_outcome (snd (run sx_s0 cx_h)) = [NoCall; NoCall; Added; Added] /\
  map o_path (snd (run sx_s0 cx_h)) =
    [[]; []; B "/r/__snapshots__/a_1.snap"; B "/r/__snapshots__/a_1.snap"] /\
  ~ disjoint_paths (mfacts sx_s0 cx_h) (sfacts sx_s0 cx_h) /\
  map o_outcome (snd (run (replay_start (fst (run sx_s0 cx_h)) sx_env_ci) cx_h)) =
    [NoCall; NoCall; Failed EDiff; Passed].
Proof. exact union_needs_disjointness. Qed.
Print Assumptions C19_path_collision_refuted.

(* non-vacuity: every theorem of this file that has hypotheses has a concrete, non-trivial instance meeting ALL of them
   (lemmas <Theorem>_witness / <Theorem>_applied in Proofs/WitnessesP.v); a representative one is restated here *)
From Snaps Require Import Proofs.WitnessesP.
Example C19_witnesses :
  (fresh w19_s0u /\ Forall stand_op_ok w19_h /\ Forall has_value w19_h /\
   Forall rec_ok_upd (snd (run w19_s0u w19_h)) /\ sconsistent (sfacts w19_s0u w19_h)) /\
  (fresh w19_s0c /\ Forall rec_ok (snd (run w19_s0c w19_h))) /\
  alookup (stand_path w19_s1 w19_c0 w19_tA) (s_fs w19_s1) = Some w19_second /\ w19_second <> w19_third.
Proof. exact C19_witnesses_all. Qed.
