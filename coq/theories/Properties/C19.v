(* C19 - a standalone snapshot file is the formatted value and nothing else. *)
From Coq Require Import String.
From Coq Require Import List NArith Bool Lia.
Local Open Scope string_scope.
Import ListNotations.
From Snaps Require Import Base.Bytes Base.Lines Base.Dec Base.Assoc.
From Snaps Require Import Model.Frame Model.PathModel Model.Mode Model.Api.
From Snaps Require Import Proofs.BytesP Proofs.StandaloneP.

(* The bytes of the file are exactly the formatted value: no header, terminator,
   escaping or added newline - for every byte sequence, carriage returns included. *)
Theorem C19_bytes : forall s a c test text s' o,
  stand_call s a c test (POk text) = (s', o) ->
  (o_outcome o = Added \/ o_outcome o = Updated) ->
  alookup (o_path o) (s_fs s') = Some text.
Proof. exact stand_bytes. Qed.
Print Assumptions C19_bytes.

(* no other file is created, changed or removed by the call *)
Theorem C19_others_untouched : forall s a c test p s' o q,
  stand_call s a c test p = (s', o) -> q <> o_path o ->
  alookup q (s_fs s') = alookup q (s_fs s).
Proof. exact stand_others. Qed.
Print Assumptions C19_others_untouched.

(* round trip: the stored value replays in every mode, silently, without a write *)
Theorem C19_roundtrip : forall s a c test text,
  alookup (stand_path s c test) (s_fs s) = Some text ->
  exists s' o, stand_call s a c test (POk text) = (s', o) /\
    o_outcome o = Passed /\ o_errors o = 0 /\ o_logs o = [] /\ o_writes o = [] /\
    s_fs s' = s_fs s.
Proof. exact stand_replay. Qed.
Print Assumptions C19_roundtrip.

(* any differing value: exactly one failure and no write, or (update allowed) the file is
   replaced wholesale by the new value *)
Theorem C19_update_wholesale : forall s a c test text prev s' o,
  alookup (stand_path s c test) (s_fs s) = Some prev -> prev <> text ->
  stand_call s a c test (POk text) = (s', o) ->
  (should_update (s_env s) (c_update c) = false /\
     o_outcome o = Failed EDiff /\ o_errors o = 1 /\ o_writes o = [] /\ s_fs s' = s_fs s)
  \/ (should_update (s_env s) (c_update c) = true /\
     o_outcome o = Updated /\ o_errors o = 0 /\ o_logs o = [LUpdated] /\
     alookup (o_path o) (s_fs s') = Some text).
Proof. exact stand_mismatch. Qed.
Print Assumptions C19_update_wholesale.

(* the k-th standalone call of an execution maps to file k (ordinal substituted into the
   generic path), for any number of calls, whatever their outcomes *)
Theorem C19_kth_file : forall s a c test ps i, i < length ps ->
  nth i (stand_calls s a c test ps) [] =
  subst_d (stand_generic s c test) (dec (get1 (s_srunning s) (stand_generic s c test) + S i)).
Proof. exact stand_kth. Qed.
Print Assumptions C19_kth_file.

(* non-vacuity: a concrete state in which a carriage-return value is stored and replayed *)
Example C19_example :
  let e := {| ci := false; upd := UUnset; colour := false |} in
  let s := init_state e (B "/r/x_test.go") (B "/S/def") in
  let v := [13; 10; 13]%N in
  let '(s1, o1) := stand_call s AStand (default_config (B "/S/def")) (B "TestA/b") (POk v) in
  let s1' := end_test s1 (B "TestA/b") in
  let '(s2, o2) := stand_call s1' AStand (default_config (B "/S/def")) (B "TestA/b") (POk v) in
  o_outcome o1 = Added /\ o_path o1 = B "/S/def/TestA_b_1.snap" /\
  alookup (o_path o1) (s_fs s1) = Some v /\ o_outcome o2 = Passed /\ o_writes o2 = [].
Proof. vm_compute. repeat split. Qed.
