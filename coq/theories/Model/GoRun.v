(* GoRun: which tests `go test -run <pattern>` executes (src/testing/match.go: splitRegexp, filterMatch, alternationMatch),
   for the pattern class of RunFilter extended with levels:
     pattern = alt ('|' alt)*      alt = elem ('/' elem)*      elem = ['^'] literal ['$']
   (literal: bytes without regexp metacharacters). Go splits the pattern at top-level '|' first, every alternative at '/',
   and matches element i - as an unanchored regexp - against element i of the '/'-separated test name. A name with fewer
   elements than the pattern is a PARTIAL match: the test runs so that its sub-tests can be reached. Elements beyond the
   pattern's depth are not constrained. *)
From Coq Require Import String.
From Coq Require Import List NArith Arith Bool.
Import ListNotations.
From Snaps Require Import Base.Bytes.
From Snaps Require Import Model.PathModel Model.RunFilter.

Fixpoint go_levels (pes : list alt) (nes : list bytes) : bool :=
  match pes, nes with
  | [], _ => true
  | _, [] => true
  | p :: pr, n :: nr => alt_match p n && go_levels pr nr
  end.

Definition go_alt_selects (alt_text name : bytes) : bool :=
  go_levels (map parse_alt (split_slash alt_text)) (split_slash name).

(* the empty pattern selects everything (one empty alternative with one empty element) *)
Definition go_selects (pattern name : bytes) : bool :=
  existsb (fun a => go_alt_selects a name) (split_bar pattern).
