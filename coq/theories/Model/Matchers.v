(* Matchers: executable model of go-snaps' JSON matchers
     match.Any / match.Type[T] / match.Custom      (match/any.go, type.go, custom.go: the JSON methods)
     applyJSONMatchers                             (snaps/matchJSON.go)
   on top of the simple-path lens of Model/Json.v ([path_comps], [steps_of], [get], [set]).
   Definitions only; the theorems are in Proofs/MatchersP.v.

   What is modelled, and how:
   - a matcher works on the RUNNING document: every path is resolved ([steps_of]) against the document
     as it is after the previous paths of the same matcher;
   - gjson.GetBytes(json, path).Exists()  =  [get v (steps_of v comps) <> None];
     sjson.SetBytesOptions(json, path, x) on an existing path  =  [set v (steps_of v comps) x];
   - only simple dotted paths ([path_comps p <> None]) are modelled; any other path yields the
     distinguished error reason [RUnsupportedPath] (and leaves the document alone);
   - a Custom matcher's callback is a constant function (that is what the harness uses), so it is
     represented by its result [custom_result];
   - Go's Custom matcher returns a nil document together with its error; [apply_matcher] returns the
     unchanged input instead (the value is irrelevant: applyJSONMatchers discards it). *)
From Coq Require Import String.
From Coq Require Import List NArith Arith Bool.
Import ListNotations.
From Snaps Require Import Base.Bytes Base.Lines Model.Json.

(* ------------------------------------------------------------------ *)
(* dynamic JSON types as seen through gjson's Result.Value()            *)

Inductive jtype := TString | TNumber | TBool | TObject | TArray.

(* nil (JSON null) has no type: the assertion value.(T) fails for every T *)
Definition type_of (v : jv) : option jtype :=
  match v with
  | JNull => None
  | JTrue | JFalse => Some TBool
  | JNum _ => Some TNumber
  | JStr _ => Some TString
  | JArr _ => Some TArray
  | JObj _ => Some TObject
  end.

Definition jtype_eqb (a b : jtype) : bool :=
  match a, b with
  | TString, TString | TNumber, TNumber | TBool, TBool | TObject, TObject | TArray, TArray => true
  | _, _ => false
  end.

(* fmt.Sprintf("%T", value) *)
Definition type_name (t : jtype) : bytes :=
  match t with
  | TString => B "string"
  | TNumber => B "float64"
  | TBool => B "bool"
  | TObject => B "map[string]interface {}"
  | TArray => B "[]interface {}"
  end.

(* typePlaceholder: the JSON string <Type:T> (no byte of it needs escaping) *)
Definition type_placeholder (t : jtype) : jv := JStr (B "<Type:" ++ type_name t ++ B ">").

(* the default placeholder of match.Any *)
Definition any_placeholder : jv := JStr (B "<Any value>").

Definition has_type (t : jtype) (v : jv) : bool :=
  match type_of v with Some t' => jtype_eqb t t' | None => false end.

(* ------------------------------------------------------------------ *)
(* matchers and their errors                                            *)

Inductive custom_result := CRValue (v : jv) | CRError.

Inductive matcher :=
| MAny (paths : list bytes) (placeholder : jv) (err_on_missing : bool)
| MType (paths : list bytes) (t : jtype) (err_on_missing : bool)
| MCustom (path : bytes) (r : custom_result) (err_on_missing : bool).

Inductive merr_reason := RMissing | RType | RCallback | RUnsupportedPath.

Record merr := { me_matcher : nat (* 0 any, 1 type, 2 custom *); me_path : bytes; me_reason : merr_reason }.

Definition matcher_kind (m : matcher) : nat :=
  match m with MAny _ _ _ => 0 | MType _ _ _ => 1 | MCustom _ _ _ => 2 end.

Definition matcher_paths (m : matcher) : list bytes :=
  match m with MAny ps _ _ => ps | MType ps _ _ => ps | MCustom p _ _ => [p] end.

Definition matcher_eom (m : matcher) : bool :=
  match m with MAny _ _ e => e | MType _ _ e => e | MCustom _ _ e => e end.

(* what a matcher does with the value it finds at a path *)
Inductive action := AReplace (x : jv) | AFail (r : merr_reason).

Definition matcher_fun (m : matcher) (found : jv) : action :=
  match m with
  | MAny _ x _ => AReplace x
  | MType _ t _ => if has_type t found then AReplace (type_placeholder t) else AFail RType
  | MCustom _ (CRValue x) _ => AReplace x
  | MCustom _ CRError _ => AFail RCallback
  end.

Definition mk_err (m : matcher) (p : bytes) (r : merr_reason) : merr :=
  {| me_matcher := matcher_kind m; me_path := p; me_reason := r |}.

(* ------------------------------------------------------------------ *)
(* one path of one matcher on the running document                      *)

Inductive path_result :=
| PROk (v' : jv)             (* the value was replaced *)
| PRSkip                     (* missing path, tolerated (ErrOnMissingPath(false)) *)
| PRErr (r : merr_reason).   (* error; the running document stays as it is *)

Definition apply_path (eom : bool) (f : jv -> action) (v : jv) (p : bytes) : path_result :=
  match path_comps p with
  | None => PRErr RUnsupportedPath
  | Some comps =>
      let sts := steps_of v comps in
      match get v sts with
      | None => if eom then PRErr RMissing else PRSkip
      | Some found =>
          match f found with
          | AFail r => PRErr r
          | AReplace x =>
              match set v sts x with
              | Some v' => PROk v'
              | None => PRErr RMissing     (* unreachable: MatchersP.apply_path_set_total *)
              end
          end
      end
  end.

(* the loop over the paths: left to right on the running document, every failing path is reported *)
Fixpoint run_paths (kind : nat) (eom : bool) (f : jv -> action) (ps : list bytes) (v : jv)
  : jv * list merr :=
  match ps with
  | [] => (v, [])
  | p :: rest =>
      match apply_path eom f v p with
      | PROk v' => run_paths kind eom f rest v'
      | PRSkip => run_paths kind eom f rest v
      | PRErr r =>
          let (v2, es) := run_paths kind eom f rest v in
          (v2, {| me_matcher := kind; me_path := p; me_reason := r |} :: es)
      end
  end.

(* m.JSON(b): the document the matcher returns and its errors *)
Definition apply_matcher (m : matcher) (v : jv) : jv * list merr :=
  run_paths (matcher_kind m) (matcher_eom m) (matcher_fun m) (matcher_paths m) v.

(* applyJSONMatchers: the output of a matcher that reported errors is discarded *)
Fixpoint apply_matchers (ms : list matcher) (v : jv) : jv * list merr :=
  match ms with
  | [] => (v, [])
  | m :: rest =>
      let (v1, e1) := apply_matcher m v in
      match e1 with
      | [] => apply_matchers rest v1
      | _ :: _ => let (v2, e2) := apply_matchers rest v in (v2, e1 ++ e2)
      end
  end.

(* ------------------------------------------------------------------ *)
(* text level                                                           *)

(* takeJSONSnapshot(applyJSONMatchers(doc, ms...)) with the given pretty options, and the errors;
   None if the document is not valid JSON (validateJSON fails before any matcher runs) *)
Definition apply_matchers_snapshot (width : nat) (indent : bytes) (sort_keys : bool)
  (ms : list matcher) (doc : bytes) : option (bytes * list merr) :=
  match parse (S (length doc)) doc with
  | Some v =>
      let (v', errs) := apply_matchers ms v in
      Some (pretty_v width indent 0 0 (sort_if sort_keys v'), errs)
  | None => None
  end.

(* the default options: Width 0, Indent one space, SortKeys *)
Definition apply_matchers_text (ms : list matcher) (doc : bytes) : option (bytes * list merr) :=
  apply_matchers_snapshot 0 default_indent true ms doc.
