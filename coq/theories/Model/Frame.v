(* Frame: the line-framed snapshot file format (snaps/snapshot.go). *)
From Coq Require Import String.
From Coq Require Import List NArith Bool.
Import ListNotations.
From Snaps Require Import Base.Bytes Base.Lines.

Definition endseq : bytes := B "---".
Definition token : bytes := B "/-/-/-/".

(* escapeEndChars / unescapeEndChars: whole-line replacement *)
Definition escape (s : bytes) : bytes :=
  join_nl (map (fun l => if beq l endseq then token else l) (split_nl s)).
Definition unescape (s : bytes) : bytes :=
  join_nl (map (fun l => if beq l token then endseq else l) (split_nl s)).

(* body lines up to the first terminator; None if EOF first *)
Fixpoint take_body (ls : list bytes) : option (list bytes) :=
  match ls with
  | [] => None
  | l :: r => if beq l endseq then Some [] else option_map (cons l) (take_body r)
  end.

Fixpoint find_entry (tid : bytes) (ls : list bytes) (n : nat) : option (list bytes * nat) :=
  match ls with
  | [] => None
  | l :: r => if beq l tid then
                match take_body r with Some b => Some (b, n) | None => None end
              else find_entry tid r (S n)
  end.

(* getPrevSnapshot on file contents *)
Definition get_prev (tid : bytes) (f : bytes) : option (bytes * nat) :=
  match find_entry tid (scan f) 1 with
  | Some (b, n) => Some (trim_one_nl (unlines b), n)
  | None => None
  end.

Definition frame (tid body : bytes) : bytes :=
  [nl] ++ tid ++ [nl] ++ body ++ [nl] ++ endseq ++ [nl].

(* addNewSnapshot: O_APPEND write of one frame *)
Definition add_entry (tid body f : bytes) : bytes := f ++ frame tid body.

(* updateSnapshot: copy-through rewrite; [skip] = inside removeSnapshot *)
Fixpoint update_lines (tid snap : bytes) (skip : bool) (ls : list bytes) : bytes :=
  match ls with
  | [] => []
  | l :: r =>
      if skip then (if beq l endseq then update_lines tid snap false r
                    else update_lines tid snap true r)
      else l ++ [nl] ++
           (if beq l tid
            then snap ++ [nl] ++ endseq ++ [nl] ++ update_lines tid snap true r
            else update_lines tid snap false r)
  end.

Definition update_entry (tid snap f : bytes) : bytes := update_lines tid snap false (scan f).
