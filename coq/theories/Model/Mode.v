(* Mode: the permission table (snaps/utils.go shouldUpdate/shouldCreate, clean.go flags). *)
From Coq Require Import Bool.

Inductive updvar := UUnset | UTrue | UClean | UOther.

Record env := { ci : bool; upd : updvar; colour : bool }.

Definition should_update (e : env) (u : option bool) : bool :=
  if ci e then false else
  match u with
  | Some b => b
  | None => match upd e with UTrue => true | _ => false end
  end.

Definition should_create (e : env) (u : option bool) : bool :=
  if ci e then false else
  match u with
  | Some b => b
  | None => true
  end.

Definition should_clean_var (e : env) : bool :=
  match upd e with UTrue | UClean => true | _ => false end.

(* Clean: delete flag and sort flag *)
Definition clean_deletes (e : env) : bool := should_clean_var e && negb (ci e).
Definition clean_sorts (e : env) (sort_opt : bool) : bool := sort_opt && negb (ci e).
