(* PathModel: unix path/filepath functions used by snapshotPath and Clean. *)
From Coq Require Import String.
From Coq Require Import List NArith Bool.
Import ListNotations.
From Snaps Require Import Base.Bytes.

Definition slash : N := 47%N.
Definition dot : N := 46%N.

(* split on '/' (like strings.Split(s, "/")) *)
Fixpoint split_slash (s : bytes) : list bytes :=
  match s with
  | [] => [[]]
  | c :: r =>
      if N.eqb c slash then [] :: split_slash r
      else match split_slash r with
           | l :: ls => (c :: l) :: ls
           | [] => [[c]]
           end
  end.

Fixpoint join_slash (ls : list bytes) : bytes :=
  match ls with
  | [] => []
  | [l] => l
  | l :: r => l ++ slash :: join_slash r
  end.

Definition is_abs (p : bytes) : bool :=
  match p with c :: _ => N.eqb c slash | [] => false end.

Definition dotdot : bytes := [dot; dot].

(* process components left to right with a stack (top = head) *)
Fixpoint clean_comps (rooted : bool) (comps : list bytes) (stack : list bytes) : list bytes :=
  match comps with
  | [] => rev stack
  | c :: r =>
      if beq c [] || beq c [dot] then clean_comps rooted r stack
      else if beq c dotdot then
        match stack with
        | top :: rest =>
            if beq top dotdot then clean_comps rooted r (c :: stack)
            else clean_comps rooted r rest
        | [] => if rooted then clean_comps rooted r [] else clean_comps rooted r [c]
        end
      else clean_comps rooted r (c :: stack)
  end.

(* filepath.Clean *)
Definition clean (p : bytes) : bytes :=
  match p with
  | [] => [dot]
  | _ =>
    let rooted := is_abs p in
    let cs := clean_comps rooted (split_slash p) [] in
    if rooted then slash :: join_slash cs
    else match cs with [] => [dot] | _ => join_slash cs end
  end.

(* filepath.Join: empty elements ignored; result cleaned; all empty => "" *)
Definition join (elems : list bytes) : bytes :=
  match filter (fun e => negb (beq e [])) elems with
  | [] => []
  | es => clean (join_slash es)
  end.
Definition join2 (a b : bytes) : bytes := join [a; b].

Fixpoint drop_to_slash (r : bytes) : bytes :=
  match r with c :: r' => if N.eqb c slash then r else drop_to_slash r' | [] => [] end.
Fixpoint take_to_slash (r : bytes) : bytes :=
  match r with c :: r' => if N.eqb c slash then [] else c :: take_to_slash r' | [] => [] end.

(* path[:i+1] / path[i+1:] where i is the index of the last slash *)
Definition dir_part (p : bytes) : bytes := rev (drop_to_slash (rev p)).
Definition base_part (p : bytes) : bytes := rev (take_to_slash (rev p)).

(* filepath.Dir *)
Definition dirname (p : bytes) : bytes := clean (dir_part p).

Fixpoint strip_trailing_slashes_rev (r : bytes) : bytes :=
  match r with c :: r' => if N.eqb c slash then strip_trailing_slashes_rev r' else r | [] => [] end.

(* filepath.Base *)
Definition basename (p : bytes) : bytes :=
  match p with
  | [] => [dot]
  | _ =>
    let p' := rev (strip_trailing_slashes_rev (rev p)) in
    match p' with
    | [] => [slash]
    | _ => base_part p'
    end
  end.

(* filepath.Ext: suffix beginning at the final dot of the final element *)
Fixpoint ext_rev (r : bytes) (acc : bytes) : bytes :=
  match r with
  | [] => []
  | c :: r' => if N.eqb c slash then []
               else if N.eqb c dot then c :: acc
               else ext_rev r' (c :: acc)
  end.
Definition ext (p : bytes) : bytes := ext_rev (rev p) [].

Definition trim_suffix (suf s : bytes) : bytes :=
  if is_suffix suf s then firstn (length s - length suf) s else s.
