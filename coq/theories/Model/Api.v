(* Api: state machine of the five Match* entry points, Skip*, configs and registries
   (snaps/matchSnapshot.go, matchJSON.go, matchYAML.go, matchStandalone*.go,
    snapshot.go registries and snapshotPath, skip.go trackSkip). *)
From Coq Require Import String.
From Coq Require Import List NArith Bool.
Import ListNotations.
From Snaps Require Import Base.Bytes Base.Lines Base.Dec Base.Assoc.
From Snaps Require Import Model.Frame Model.PathModel Model.Mode Model.Report.

Inductive api := ASnap | AJson | AYaml | AStand | AStandJson.

(* What validation + matchers + formatting produced for this call (computed by the
   real code on the implementation side; formatting libraries are input to the model). *)
Inductive pre := PNoValues | PInvalid | PMatchErr | POk (text : bytes).

Record config := {
  c_filename : bytes;
  c_dir : bytes;
  c_ext : bytes;
  c_update : option bool
}.

Definition is_standalone (a : api) : bool :=
  match a with AStand | AStandJson => true | _ => false end.

(* ---------- snapshotPath / constructFilename (non -trimpath) ---------- *)

Definition snaps_ext : bytes := B ".snap".

(* '%' -> "%%": the standalone path is a fmt format for the ordinal, every other '%' must stay literal
   (snapshot.go: escapePercent; fix F8) *)
Definition pct : N := 37%N.
Fixpoint esc_pct (s : bytes) : bytes :=
  match s with
  | [] => []
  | c :: r => if N.eqb c pct then pct :: pct :: esc_pct r else c :: esc_pct r
  end.

Definition construct_filename (c : config) (caller test : bytes) (standalone : bool) : bytes :=
  let filename :=
    match c_filename c with
    | [] => if standalone then replace_byte slash 95%N test
            else let base := basename caller in trim_suffix (ext base) base
    | f => f
    end in
  if standalone then esc_pct filename ++ B "_%d" ++ snaps_ext ++ esc_pct (c_ext c)
  else filename ++ snaps_ext ++ c_ext c.

Definition snapshot_path (c : config) (caller test : bytes) (standalone : bool) : bytes :=
  let caller' := if standalone then esc_pct caller else caller in
  let d := if standalone then esc_pct (c_dir c) else c_dir c in
  let dir := if is_abs d then d else join2 (dirname caller') d in
  join2 dir (construct_filename c caller' test standalone).

(* fmt.Sprintf(path, k) on the formats snapshotPath builds: "%%" prints '%', the first "%d" prints the ordinal
   (after it only "%%" is interpreted; any other verb is copied - none can occur in a path built by snapshot_path) *)
Fixpoint unesc_pct (s : bytes) : bytes :=
  match s with
  | c :: r =>
      if N.eqb c pct then
        match r with
        | c2 :: r2 => if N.eqb c2 pct then pct :: unesc_pct r2 else c :: c2 :: unesc_pct r2
        | [] => [c]
        end
      else c :: unesc_pct r
  | [] => []
  end.
Fixpoint subst_d (p : bytes) (k : bytes) : bytes :=
  match p with
  | c :: r =>
      if N.eqb c pct then
        match r with
        | c2 :: r2 =>
            if N.eqb c2 pct then pct :: subst_d r2 k
            else if N.eqb c2 100%N then k ++ unesc_pct r2
            else c :: c2 :: subst_d r2 k
        | [] => [c]
        end
      else c :: subst_d r k
  | [] => []
  end.

(* "[name - k]" *)
Definition header (test : bytes) (k : nat) : bytes :=
  B "[" ++ test ++ B " - " ++ dec k ++ B "]".

(* ---------- state ---------- *)

Inductive creset := RMulti (path test : bytes) | RStand (generic : bytes).

Record counters := { n_erred : nat; n_added : nat; n_updated : nat; n_passed : nat }.

Inductive wkind := WCreate | WAppend | WRewrite | WRemove.

Record state := {
  s_env : env;
  s_caller : bytes;
  s_fs : list (bytes * bytes);
  s_dirs : list bytes;
  s_running : list (key2 * nat);
  s_cleanup : list (key2 * nat);
  s_srunning : list (bytes * nat);
  s_scleanup : list (bytes * nat);
  s_cfgs : list config;                 (* handle 0 = package defaults *)
  s_pending : list (bytes * creset);    (* cleanups registered on running tests *)
  s_events : counters;
  s_skipped : list bytes
}.

Definition default_config (dir : bytes) : config :=
  {| c_filename := []; c_dir := dir; c_ext := []; c_update := None |}.

Definition init_state (e : env) (caller default_dir : bytes) : state :=
  {| s_env := e; s_caller := caller; s_fs := []; s_dirs := [];
     s_running := []; s_cleanup := []; s_srunning := []; s_scleanup := [];
     s_cfgs := [default_config default_dir]; s_pending := [];
     s_events := {| n_erred := 0; n_added := 0; n_updated := 0; n_passed := 0 |};
     s_skipped := [] |}.

Definition get2 (m : list (key2 * nat)) (k : key2) : nat :=
  match alookup2 k m with Some n => n | None => 0 end.
Definition get1 (m : list (bytes * nat)) (k : bytes) : nat :=
  match alookup k m with Some n => n | None => 0 end.

(* ---------- observations ---------- *)

Inductive errkind := ENotFound | EDiff | EInvalid | EMatchers.
Inductive outcome := Passed | Added | Updated | Failed (k : errkind) | Warned | SkipLogged | NoCall.
Inductive logkind := LAdded | LUpdated | LSkipped | LWarning.

Record obs := {
  o_outcome : outcome;
  o_errors : nat;
  o_logs : list logkind;
  o_path : bytes;            (* file addressed *)
  o_id : bytes;              (* entry header addressed ([] for standalone) *)
  o_line : nat;              (* line reported in a diff footer *)
  o_writes : list (wkind * bytes)
}.

Definition obs_none : obs :=
  {| o_outcome := NoCall; o_errors := 0; o_logs := []; o_path := []; o_id := [];
     o_line := 0; o_writes := [] |}.

Definition mk_obs (oc : outcome) (path id : bytes) (line : nat) (w : list (wkind * bytes)) : obs :=
  {| o_outcome := oc;
     o_errors := match oc with Failed _ => 1 | _ => 0 end;
     o_logs := match oc with Added => [LAdded] | Updated => [LUpdated]
                           | Warned => [LWarning] | SkipLogged => [LSkipped] | _ => [] end;
     o_path := path; o_id := id; o_line := line; o_writes := w |}.

Definition bump (oc : outcome) (c : counters) : counters :=
  match oc with
  | Passed => {| n_erred := n_erred c; n_added := n_added c; n_updated := n_updated c; n_passed := S (n_passed c) |}
  | Added => {| n_erred := n_erred c; n_added := S (n_added c); n_updated := n_updated c; n_passed := n_passed c |}
  | Updated => {| n_erred := n_erred c; n_added := n_added c; n_updated := S (n_updated c); n_passed := n_passed c |}
  | Failed _ => {| n_erred := S (n_erred c); n_added := n_added c; n_updated := n_updated c; n_passed := n_passed c |}
  | _ => c
  end.

(* ---------- the decision "report is empty" ----------
   A call passes iff prettyDiff returns "". The model computes the real (NO_COLOR) report
   with the difflib/report model; Proofs/DiffDecisionP.v shows this is byte equality.
   With colours on the code takes the inline path first and falls back to the same line
   diff when that sees no change, so the decision is the same (tied by the diff ops). *)
Definition diff_empty (a b : bytes) : bool :=
  match pretty_diff_nocolor a b [] 0 with [] => true | _ => false end.

(* ---------- state updates ---------- *)

Definition set_fs (s : state) (fs : list (bytes * bytes)) : state :=
  {| s_env := s_env s; s_caller := s_caller s; s_fs := fs; s_dirs := s_dirs s;
     s_running := s_running s; s_cleanup := s_cleanup s;
     s_srunning := s_srunning s; s_scleanup := s_scleanup s;
     s_cfgs := s_cfgs s; s_pending := s_pending s; s_events := s_events s;
     s_skipped := s_skipped s |}.

Definition add_dir (s : state) (d : bytes) : state :=
  {| s_env := s_env s; s_caller := s_caller s; s_fs := s_fs s;
     s_dirs := if mem_bytes d (s_dirs s) then s_dirs s else s_dirs s ++ [d];
     s_running := s_running s; s_cleanup := s_cleanup s;
     s_srunning := s_srunning s; s_scleanup := s_scleanup s;
     s_cfgs := s_cfgs s; s_pending := s_pending s; s_events := s_events s;
     s_skipped := s_skipped s |}.

Definition set_events (s : state) (c : counters) : state :=
  {| s_env := s_env s; s_caller := s_caller s; s_fs := s_fs s; s_dirs := s_dirs s;
     s_running := s_running s; s_cleanup := s_cleanup s;
     s_srunning := s_srunning s; s_scleanup := s_scleanup s;
     s_cfgs := s_cfgs s; s_pending := s_pending s; s_events := c;
     s_skipped := s_skipped s |}.

(* syncRegistry.getTestID + t.Cleanup(reset) *)
Definition reg_multi (s : state) (path test : bytes) : state * nat :=
  let k := S (get2 (s_running s) (path, test)) in
  ({| s_env := s_env s; s_caller := s_caller s; s_fs := s_fs s; s_dirs := s_dirs s;
      s_running := aset2 (path, test) k (s_running s);
      s_cleanup := aset2 (path, test) (S (get2 (s_cleanup s) (path, test))) (s_cleanup s);
      s_srunning := s_srunning s; s_scleanup := s_scleanup s;
      s_cfgs := s_cfgs s; s_pending := s_pending s ++ [(test, RMulti path test)];
      s_events := s_events s; s_skipped := s_skipped s |}, k).

(* syncStandaloneRegistry.getTestID + t.Cleanup(reset): keyed by the generic path only *)
Definition reg_stand (s : state) (generic test : bytes) : state * nat :=
  let k := S (get1 (s_srunning s) generic) in
  ({| s_env := s_env s; s_caller := s_caller s; s_fs := s_fs s; s_dirs := s_dirs s;
      s_running := s_running s; s_cleanup := s_cleanup s;
      s_srunning := aset generic k (s_srunning s);
      s_scleanup := aset generic (S (get1 (s_scleanup s) generic)) (s_scleanup s);
      s_cfgs := s_cfgs s; s_pending := s_pending s ++ [(test, RStand generic)];
      s_events := s_events s; s_skipped := s_skipped s |}, k).

Definition finish (s : state) (oc : outcome) (path id : bytes) (line : nat)
           (w : list (wkind * bytes)) : state * obs :=
  (set_events s (bump oc (s_events s)), mk_obs oc path id line w).

(* ---------- multi-entry call ---------- *)

Definition multi_call (s : state) (a : api) (c : config) (test : bytes) (p : pre) : state * obs :=
  match a, p with
  | ASnap, PNoValues => (s, mk_obs Warned [] [] 0 [])
  | _, _ =>
    let path := snapshot_path c (s_caller s) test false in
    let (s1, k) := reg_multi s path test in
    let id := header test k in
    match p with
    | PNoValues | PInvalid => finish s1 (Failed EInvalid) path id 0 []
    | PMatchErr => finish s1 (Failed EMatchers) path id 0 []
    | POk text =>
      let snap := match a with AJson => text | _ => escape text end in
      let found := match alookup path (s_fs s1) with
                   | Some f => get_prev id f
                   | None => None
                   end in
      match found with
      | None =>
          if should_create (s_env s1) (c_update c) then
            let existed := match alookup path (s_fs s1) with Some _ => true | None => false end in
            let f0 := match alookup path (s_fs s1) with Some f => f | None => [] end in
            let s2 := set_fs (add_dir s1 (dirname path)) (aset path (add_entry id snap f0) (s_fs s1)) in
            finish s2 Added path id 0 [(if existed then WAppend else WCreate, path)]
          else finish s1 (Failed ENotFound) path id 0 []
      | Some (prev, line) =>
          let same := match a with
                      | AJson => diff_empty prev snap
                      | _ => diff_empty (unescape prev) (unescape snap)
                      end in
          if same then finish s1 Passed path id line []
          else if should_update (s_env s1) (c_update c) then
            let f0 := match alookup path (s_fs s1) with Some f => f | None => [] end in
            let s2 := set_fs s1 (aset path (update_entry id snap f0) (s_fs s1)) in
            finish s2 Updated path id line [(WRewrite, path)]
          else finish s1 (Failed EDiff) path id line []
      end
    end
  end.

(* ---------- standalone call ---------- *)

Definition json_ext (c : config) : config :=
  match c_ext c with
  | [] => {| c_filename := c_filename c; c_dir := c_dir c; c_ext := B ".json"; c_update := c_update c |}
  | _ => c
  end.

Definition stand_call (s : state) (a : api) (c : config) (test : bytes) (p : pre) : state * obs :=
  let generic := snapshot_path c (s_caller s) test true in
  let (s1, k) := reg_stand s generic test in
  let path := subst_d generic (dec k) in
  match p with
  | PNoValues | PInvalid => finish s1 (Failed EInvalid) path [] 0 []
  | PMatchErr => finish s1 (Failed EMatchers) path [] 0 []
  | POk snap =>
    match alookup path (s_fs s1) with
    | None =>
        if should_create (s_env s1) (c_update c) then
          let s2 := set_fs (add_dir s1 (dirname path)) (aset path snap (s_fs s1)) in
          finish s2 Added path [] 0 [(WCreate, path)]
        else finish s1 (Failed ENotFound) path [] 0 []
    | Some prev =>
        if diff_empty prev snap then finish s1 Passed path [] 1 []
        else if should_update (s_env s1) (c_update c) then
          let s2 := set_fs s1 (aset path snap (s_fs s1)) in
          finish s2 Updated path [] 1 [(WRewrite, path)]
        else finish s1 (Failed EDiff) path [] 1 []
    end
  end.

(* ---------- operations ---------- *)

Inductive op :=
| OMatch (a : api) (h : nat) (test : bytes) (p : pre)
| OEndTest (test : bytes)
| OSkip (test : bytes)
| ONewConfig (fn dir ex : option bytes) (u : option bool)
| OSetEnv (e : env)
| OPutFile (path content : bytes)
| OPutDir (path : bytes)
| ONewProcess.

Definition apply_reset (s : state) (r : creset) : state :=
  match r with
  | RMulti path test =>
      {| s_env := s_env s; s_caller := s_caller s; s_fs := s_fs s; s_dirs := s_dirs s;
         s_running := aset2 (path, test) 0 (s_running s); s_cleanup := s_cleanup s;
         s_srunning := s_srunning s; s_scleanup := s_scleanup s;
         s_cfgs := s_cfgs s; s_pending := s_pending s; s_events := s_events s;
         s_skipped := s_skipped s |}
  | RStand generic =>
      {| s_env := s_env s; s_caller := s_caller s; s_fs := s_fs s; s_dirs := s_dirs s;
         s_running := s_running s; s_cleanup := s_cleanup s;
         s_srunning := aset generic 0 (s_srunning s); s_scleanup := s_scleanup s;
         s_cfgs := s_cfgs s; s_pending := s_pending s; s_events := s_events s;
         s_skipped := s_skipped s |}
  end.

Definition set_pending (s : state) (p : list (bytes * creset)) : state :=
  {| s_env := s_env s; s_caller := s_caller s; s_fs := s_fs s; s_dirs := s_dirs s;
     s_running := s_running s; s_cleanup := s_cleanup s;
     s_srunning := s_srunning s; s_scleanup := s_scleanup s;
     s_cfgs := s_cfgs s; s_pending := p; s_events := s_events s;
     s_skipped := s_skipped s |}.

Definition end_test (s : state) (test : bytes) : state :=
  let mine := filter (fun p => beq (fst p) test) (s_pending s) in
  let rest := filter (fun p => negb (beq (fst p) test)) (s_pending s) in
  fold_left (fun st p => apply_reset st (snd p)) mine (set_pending s rest).

Definition opt_or {A} (o : option A) (d : A) : A := match o with Some x => x | None => d end.

Definition step (s : state) (o : op) : state * obs :=
  match o with
  | OMatch a h test p =>
      match nth_error (s_cfgs s) h with
      | None => (s, obs_none)
      | Some c =>
          if is_standalone a then
            (* MatchStandaloneJSON defaults the extension on a copy of the Config *)
            let c' := match a with AStandJson => json_ext c | _ => c end in
            stand_call s a c' test p
          else multi_call s a c test p
      end
  | OEndTest test => (end_test s test, obs_none)
  | OSkip test =>
      ({| s_env := s_env s; s_caller := s_caller s; s_fs := s_fs s; s_dirs := s_dirs s;
          s_running := s_running s; s_cleanup := s_cleanup s;
          s_srunning := s_srunning s; s_scleanup := s_scleanup s;
          s_cfgs := s_cfgs s; s_pending := s_pending s; s_events := s_events s;
          s_skipped := s_skipped s ++ [test] |}, mk_obs SkipLogged [] [] 0 [])
  | ONewConfig fn dir ex u =>
      let d := nth 0 (s_cfgs s) (default_config []) in
      let c := {| c_filename := opt_or fn (c_filename d); c_dir := opt_or dir (c_dir d);
                  c_ext := opt_or ex (c_ext d);
                  c_update := match u with Some b => Some b | None => c_update d end |} in
      ({| s_env := s_env s; s_caller := s_caller s; s_fs := s_fs s; s_dirs := s_dirs s;
          s_running := s_running s; s_cleanup := s_cleanup s;
          s_srunning := s_srunning s; s_scleanup := s_scleanup s;
          s_cfgs := s_cfgs s ++ [c]; s_pending := s_pending s; s_events := s_events s;
          s_skipped := s_skipped s |}, obs_none)
  | OSetEnv e =>
      ({| s_env := e; s_caller := s_caller s; s_fs := s_fs s; s_dirs := s_dirs s;
          s_running := s_running s; s_cleanup := s_cleanup s;
          s_srunning := s_srunning s; s_scleanup := s_scleanup s;
          s_cfgs := s_cfgs s; s_pending := s_pending s; s_events := s_events s;
          s_skipped := s_skipped s |}, obs_none)
  | OPutFile path content =>
      (set_fs (add_dir s (dirname path)) (aset path content (s_fs s)), obs_none)
  | OPutDir path => (add_dir s path, obs_none)
  | ONewProcess =>
      (* a fresh test process: registries, counters, skip list and configs start over;
         the file system persists *)
      ({| s_env := s_env s; s_caller := s_caller s; s_fs := s_fs s; s_dirs := s_dirs s;
          s_running := []; s_cleanup := []; s_srunning := []; s_scleanup := [];
          s_cfgs := firstn 1 (s_cfgs s); s_pending := []; 
          s_events := {| n_erred := 0; n_added := 0; n_updated := 0; n_passed := 0 |};
          s_skipped := [] |}, obs_none)
  end.

Fixpoint run (s : state) (ops : list op) : state * list obs :=
  match ops with
  | [] => (s, [])
  | o :: r => let (s1, ob) := step s o in
              let (s2, obs) := run s1 r in (s2, ob :: obs)
  end.
