(* SchedSpec: specification vocabulary for the scheduling theorems (definitions only).
   Depends on Proofs/FrameP.v for the entries view of a snapshot file
   (entry, render, wf_entry, no_collision, lookup_entry, replace_entry). *)
From Coq Require Import List NArith Arith Bool.
Import ListNotations.
From Snaps Require Import Base.Bytes Base.Lines Model.Frame Model.Sched.
From Snaps Require Import Proofs.BytesP Proofs.LinesP Proofs.FrameP.

(* ---------- who holds which lock (Repaired protocol) ---------- *)

(* between ERLock and ERUnlock *)
Definition holds_r (t : thread) : bool :=
  match t_pc t with PRd | PRu => true | _ => false end.

(* between ELock and EUnlock *)
Definition holds_w (t : thread) : bool :=
  match t_pc t with
  | PAm | PAo | PAa | PAu | PUo | PUr | PUt | PUw | PUu => true
  | _ => false
  end.

Definition count_r (ths : list thread) : nat := length (filter holds_r ths).

(* the lock words agree with the program counters *)
Definition lock_inv (c : cfg) : Prop :=
  rlocks (g_sh c) = count_r (g_threads c) /\
  (forall g t, nth_error (g_threads c) g = Some t -> holds_w t = true -> wlock (g_sh c) = Some g) /\
  (forall g, wlock (g_sh c) = Some g ->
             exists t, nth_error (g_threads c) g = Some t /\ holds_w t = true) /\
  (wlock (g_sh c) <> None -> rlocks (g_sh c) = 0).

(* a configuration in which every goroutine is between two calls and no lock is held *)
Definition quiescent (c : cfg) : Prop :=
  rlocks (g_sh c) = 0 /\ wlock (g_sh c) = None /\
  Forall (fun t => t_pc t = PIdle) (g_threads c).

(* a goroutine without calls left is between two calls *)
Definition idle_inv (c : cfg) : Prop :=
  forall g t, nth_error (g_threads c) g = Some t -> t_calls t = [] -> t_pc t = PIdle.

(* ---------- entries-level specification of a call ---------- *)

(* outcome of a call run alone against the entries [es0] *)
Definition spec_outcome (es0 : list entry) (c : call) : soutcome :=
  match lookup_entry (cl_tid c) es0 with
  | None => if cl_create c then OAdded else OFailedNotFound
  | Some b => if cl_same c b then OPassed else if cl_update c then OUpdated else OFailedDiff
  end.

Definition is_added (es0 : list entry) (c : call) : bool :=
  match spec_outcome es0 c with OAdded => true | _ => false end.
Definition is_updated (es0 : list entry) (c : call) : bool :=
  match spec_outcome es0 c with OUpdated => true | _ => false end.
Definition is_writer (es0 : list entry) (c : call) : bool := is_added es0 c || is_updated es0 c.

(* effect on the entries of a call whose outcome (against es0) is known *)
Definition apply_call (es0 : list entry) (es : list entry) (c : call) : list entry :=
  match spec_outcome es0 c with
  | OAdded => es ++ [(cl_tid c, cl_snap c)]
  | OUpdated => map (replace_entry (cl_tid c) (cl_snap c)) es
  | _ => es
  end.

(* entries after the calls of [l], in that order *)
Definition es_of (es0 : list entry) (l : list call) : list entry :=
  fold_left (apply_call es0) l es0.

(* the decision that corresponds to an outcome *)
Definition decision_of (o : soutcome) : decision :=
  match o with OAdded => DAdd | OUpdated => DUpdate | _ => DDone o end.

(* static side conditions on a call; [H] = all headers in play *)
Definition ok_call (H : list bytes) (c : call) : Prop :=
  In (cl_tid c) H /\ wf_entry (cl_tid c, cl_snap c) /\
  forall h, In h H -> ~ In h (split_nl (cl_snap c)).

Definition no_collisions (H : list bytes) (es : list entry) : Prop :=
  forall h, In h H -> no_collision h es.

(* ---------- the invariant of the Repaired protocol ---------- *)

(* calls of a thread that are not linearised yet *)
Definition unlogged (t : thread) : list call :=
  match t_pc t with
  | PAu | PUu => tl (t_calls t)
  | _ => t_calls t
  end.

(* calls of goroutine [g] in a linearisation order *)
Definition proj (g : nat) (l : list (nat * call)) : list call :=
  map snd (filter (fun x => Nat.eqb (fst x) g) l).

(* what a thread at a given pc knows; [es] = current entries *)
Definition thr_ok (H : list bytes) (es0 es : list entry) (t : thread) : Prop :=
  Forall (ok_call H) (t_calls t) /\
  match t_calls t with
  | [] => t_pc t = PIdle
  | c :: _ =>
    match t_pc t with
    | PIdle | PRd => True
    | PRu => t_read t = render es
    | PAl | PAm | PAo | PAa | PAu => spec_outcome es0 c = OAdded
    | PUl | PUo | PUr | PUu => spec_outcome es0 c = OUpdated
    | PUt | PUw => spec_outcome es0 c = OUpdated /\ t_read t = render es
    end
  end.

(* outcomes of a thread: those recorded, then those its remaining calls will get *)
Definition trace (es0 : list entry) (t : thread) : list soutcome :=
  t_out t ++ map (spec_outcome es0) (t_calls t).

Record sched_inv (H : list bytes) (es0 : list entry) (prog : list (list call))
                 (c : cfg) (l : list (nat * call)) : Prop := {
  si_lock : lock_inv c;
  si_len : length (g_threads c) = length prog;
  (* the file is the rendering of the current entries, except between ETrunc and EWrite *)
  si_file : (forall g t, nth_error (g_threads c) g = Some t -> t_pc t <> PUw) ->
            content (file (g_sh c)) = render (es_of es0 (map snd l));
  si_torn : forall g t, nth_error (g_threads c) g = Some t -> t_pc t = PUw ->
            content (file (g_sh c)) = [];
  si_thr : forall g t, nth_error (g_threads c) g = Some t ->
           thr_ok H es0 (es_of es0 (map snd l)) t;
  si_nodup : NoDup (map cl_tid (map snd l ++ concat (map unlogged (g_threads c))));
  si_logok : Forall (ok_call H) (map snd l);
  si_gids : forall x, In x l -> fst x < length (g_threads c);
  si_prog : forall g t, nth_error (g_threads c) g = Some t ->
            exists pg, nth_error prog g = Some pg /\
                       trace es0 t = map (spec_outcome es0) pg /\
                       proj g l ++ unlogged t = pg
}.

(* ---------- counting outcomes ---------- *)

Definition is_o (o : soutcome) (x : nat * soutcome) : bool :=
  match o, snd x with
  | OPassed, OPassed | OAdded, OAdded | OUpdated, OUpdated => true
  | _, _ => false
  end.
Definition is_err (x : nat * soutcome) : bool :=
  match snd x with OFailedNotFound | OFailedDiff => true | _ => false end.

(* ---------- the counterexample for the Pinned protocol ---------- *)
Section Example.
  Import String.
  Local Open Scope string_scope.
  Definition ex_tidA : bytes := B "[TestA - 1]".
  Definition ex_tidB : bytes := B "[TestB - 1]".
  Definition ex_old : bytes := B "old".
  Definition ex_new : bytes := B "new value".
  Definition ex_snapB : bytes := B "a rather long text stored by goroutine B".
  Definition ex_file : option bytes := Some (frame ex_tidA ex_old).
  (* goroutine 0 (A) updates its existing entry; goroutine 1 (B) creates a new one *)
  Definition ex_callA : call :=
    {| cl_tid := ex_tidA; cl_snap := ex_new; cl_same := fun b => beq b ex_new;
       cl_create := true; cl_update := true |}.
  Definition ex_callB : call :=
    {| cl_tid := ex_tidB; cl_snap := ex_snapB; cl_same := fun b => beq b ex_snapB;
       cl_create := true; cl_update := true |}.
  Definition ex_prog : list (list call) := [[ex_callA]; [ex_callB]].
  (* B: RLock Read RUnlock | A: RLock Read RUnlock Lock Open Read
     | B: Mkdir Open Append (unlocked) | A: Trunc Write Unlock *)
  Definition ex_sched_lost : list nat := [1;1;1; 0;0;0; 0;0;0; 1;1;1; 0;0;0].
  (* ... | A: ... Lock Open Read Trunc | B: Mkdir Open Append | A: Write Unlock *)
  Definition ex_sched_torn : list nat := [1;1;1; 0;0;0; 0;0;0;0; 1;1;1; 0;0].
  (* what is left of B's frame behind A's rewrite in the torn run *)
  Definition ex_residue : bytes := B "text stored by goroutine B
---
".
  (* a complete schedule of the Repaired protocol for the same two calls: B's add phase
     has to wait for A's EUnlock *)
  Definition ex_sched_ok : list nat := [1;1;1; 0;0;0; 0;0;0; 0;0;0; 1;1;1;1;1].
End Example.
