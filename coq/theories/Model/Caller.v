(* Caller: baseCaller's stack walk over an explicit frame list (snaps/utils.go:83-110), and the
   -trimpath variant of snapshotPath. *)
From Coq Require Import String.
From Coq Require Import List NArith Bool.
Import ListNotations.
From Snaps Require Import Base.Bytes Model.PathModel Model.Api.

Record frame := { fr_func : bytes; fr_file : bytes }.

Definition is_test_file (file : bytes) : bool := is_suffix (B "_test.go") (basename file).

(* frames above the exported Match* function, innermost first; [prev] = file of the frame below *)
Fixpoint base_caller_from (prev : bytes) (fs : list frame) : bytes :=
  match fs with
  | [] => prev
  | f :: r =>
      if beq (fr_func f) (B "testing.tRunner") then prev
      else if is_test_file (fr_file f) then fr_file f
      else base_caller_from (fr_file f) r
  end.

Definition base_caller (fs : list frame) : bytes := base_caller_from [] fs.

(* snapshotPath with the -trimpath switch: under -trimpath a relative Dir is NOT joined with the
   caller's directory (it resolves against the working directory) *)
Definition snapshot_path_gen (trim : bool) (c : config) (caller test : bytes) (standalone : bool) : bytes :=
  let caller' := if standalone then esc_pct caller else caller in
  let d := if standalone then esc_pct (c_dir c) else c_dir c in
  let dir := if negb (is_abs d) && negb trim then join2 (dirname caller') d else d in
  join2 dir (construct_filename c caller' test standalone).
