(* Sched: concurrent Match* calls sharing one snapshot file.
   Micro-event interleaving model of the process-wide RW lock [_m] (snaps/snapshot.go) and
   of the file operations of getPrevSnapshot / addNewSnapshot / updateSnapshot.

   One event = one instrumented operation of one goroutine; everything between two events
   of a goroutine is local computation.  The model is an executable small-step semantics
   driven by a schedule (list of goroutine ids).  Two protocols:
     Repaired : addNewSnapshot takes _m.Lock()/Unlock() around MkdirAll/OpenFile/Fprintf
     Pinned   : addNewSnapshot takes no lock (the tree as it is pinned)
   The Go RWMutex gives priority to a waiting writer over new readers; the model does not
   (RLock is enabled whenever no writer HOLDS the lock), i.e. it allows more interleavings.

   Definitions only; lemmas are in Proofs/SchedP.v. *)
From Coq Require Import List NArith Arith Bool.
Import ListNotations.
From Snaps Require Import Base.Bytes Base.Lines Model.Frame.

(* ---------- events and shared state ---------- *)

Inductive ev :=
| ERLock | ERUnlock | ELock | EUnlock
| ERead | EMkdir | EOpen
| EAppend (data : bytes)
| ETrunc
| EWrite (data : bytes).

Record sh := {
  file : option bytes;   (* None = the snapshot file does not exist *)
  rlocks : nat;          (* number of read locks held *)
  wlock : option nat     (* goroutine holding the write lock *)
}.

(* what a read of the file returns (os.ReadFile on a missing file = not found = no entry) *)
Definition content (f : option bytes) : bytes :=
  match f with Some b => b | None => [] end.

(* An operation performed WITHOUT holding the lock is always enabled: this is exactly what
   a defective tree does. Only lock acquisitions can block. *)
Definition enabled (s : sh) (g : nat) (e : ev) : bool :=
  match e with
  | ERLock => match wlock s with None => true | Some _ => false end
  | ELock => match wlock s with None => Nat.eqb (rlocks s) 0 | Some _ => false end
  | _ => true
  end.

Definition set_file (s : sh) (f : option bytes) : sh :=
  {| file := f; rlocks := rlocks s; wlock := wlock s |}.

Definition apply_ev (s : sh) (g : nat) (e : ev) : sh :=
  match e with
  | ERLock => {| file := file s; rlocks := S (rlocks s); wlock := wlock s |}
  | ERUnlock => {| file := file s; rlocks := pred (rlocks s); wlock := wlock s |}
  | ELock => {| file := file s; rlocks := rlocks s; wlock := Some g |}
  | EUnlock => {| file := file s; rlocks := rlocks s; wlock := None |}
  | ERead => s
  | EMkdir => s
  | EOpen => set_file s (Some (content (file s)))                 (* O_CREATE *)
  | EAppend d => set_file s (Some (content (file s) ++ d))        (* O_APPEND|O_CREATE *)
  | ETrunc => set_file s (Some [])                                (* Truncate(0) *)
  | EWrite d =>                                                   (* Seek(0); Write(d) *)
      set_file s (Some (d ++ skipn (length d) (content (file s))))
  end.

(* ---------- calls, outcomes, threads ---------- *)

Inductive protocol := Repaired | Pinned.

Record call := {
  cl_tid : bytes;            (* header line of the slot *)
  cl_snap : bytes;           (* text to store *)
  cl_same : bytes -> bool;   (* comparison of the stored body with the new value *)
  cl_create : bool;          (* shouldCreate *)
  cl_update : bool           (* shouldUpdate *)
}.

Inductive soutcome := OPassed | OAdded | OUpdated | OFailedNotFound | OFailedDiff.

(* program counter inside the current call: the name says which event comes NEXT *)
Inductive pc :=
| PIdle                      (* next: ERLock (start of the read phase) *)
| PRd                        (* read lock held; next: ERead *)
| PRu                        (* next: ERUnlock, then the decision *)
| PAl | PAm | PAo | PAa | PAu   (* add phase: ELock EMkdir EOpen EAppend EUnlock *)
| PUl | PUo | PUr | PUt | PUw | PUu. (* update phase: ELock EOpen ERead ETrunc EWrite EUnlock *)

Record thread := {
  t_calls : list call;        (* remaining calls; the head is the current one *)
  t_pc : pc;
  t_read : bytes;             (* last content read *)
  t_out : list soutcome       (* outcomes so far, in program order *)
}.

Record cfg := { g_sh : sh; g_threads : list thread }.

Inductive decision := DAdd | DUpdate | DDone (o : soutcome).

(* matchSnapshot after getPrevSnapshot returned *)
Definition decide (c : call) (read : bytes) : decision :=
  match get_prev (cl_tid c) read with
  | None => if cl_create c then DAdd else DDone OFailedNotFound
  | Some (body, _) =>
      if cl_same c body then DDone OPassed
      else if cl_update c then DUpdate else DDone OFailedDiff
  end.

(* the next event of a call at a given pc *)
Definition ev_at (c : call) (p : pc) (read : bytes) : ev :=
  match p with
  | PIdle => ERLock | PRd => ERead | PRu => ERUnlock
  | PAl => ELock | PAm => EMkdir | PAo => EOpen
  | PAa => EAppend (frame (cl_tid c) (cl_snap c))
  | PAu => EUnlock
  | PUl => ELock | PUo => EOpen | PUr => ERead | PUt => ETrunc
  | PUw => EWrite (update_entry (cl_tid c) (cl_snap c) read)
  | PUu => EUnlock
  end.

Definition next_ev (t : thread) : option ev :=
  match t_calls t with
  | [] => None
  | c :: _ => Some (ev_at c (t_pc t) (t_read t))
  end.

Definition set_pc (t : thread) (p : pc) : thread :=
  {| t_calls := t_calls t; t_pc := p; t_read := t_read t; t_out := t_out t |}.

Definition set_pc_read (t : thread) (p : pc) (r : bytes) : thread :=
  {| t_calls := t_calls t; t_pc := p; t_read := r; t_out := t_out t |}.

(* the current call returns with outcome [o] *)
Definition finish_call (t : thread) (o : soutcome) : thread :=
  {| t_calls := tl (t_calls t); t_pc := PIdle; t_read := t_read t; t_out := t_out t ++ [o] |}.

(* thread-local effect of performing the next event; [s] is the shared state BEFORE it *)
Definition advance (p : protocol) (s : sh) (t : thread) : thread :=
  match t_calls t with
  | [] => t
  | c :: _ =>
    match t_pc t with
    | PIdle => set_pc t PRd
    | PRd => set_pc_read t PRu (content (file s))
    | PRu =>
        match decide c (t_read t) with
        | DAdd => set_pc t (match p with Repaired => PAl | Pinned => PAm end)
        | DUpdate => set_pc t PUl
        | DDone o => finish_call t o
        end
    | PAl => set_pc t PAm
    | PAm => set_pc t PAo
    | PAo => set_pc t PAa
    | PAa => match p with Repaired => set_pc t PAu | Pinned => finish_call t OAdded end
    | PAu => finish_call t OAdded
    | PUl => set_pc t PUo
    | PUo => set_pc t PUr
    | PUr => set_pc_read t PUt (content (file s))
    | PUt => set_pc t PUw
    | PUw => set_pc t PUu
    | PUu => finish_call t OUpdated
    end
  end.

Fixpoint set_nth {A} (n : nat) (x : A) (l : list A) {struct l} : list A :=
  match l with
  | [] => []
  | y :: r => match n with O => x :: r | S n' => y :: set_nth n' x r end
  end.

(* ---------- small-step semantics driven by a schedule ---------- *)

(* None: goroutine [g] does not exist, is finished, or its next event is not enabled *)
Definition sched_step (p : protocol) (c : cfg) (g : nat) : option cfg :=
  match nth_error (g_threads c) g with
  | None => None
  | Some t =>
    match next_ev t with
    | None => None
    | Some e =>
      if enabled (g_sh c) g e
      then Some {| g_sh := apply_ev (g_sh c) g e;
                   g_threads := set_nth g (advance p (g_sh c) t) (g_threads c) |}
      else None
    end
  end.

Fixpoint run_sched (p : protocol) (c : cfg) (sch : list nat) : option cfg :=
  match sch with
  | [] => Some c
  | g :: r => match sched_step p c g with
              | Some c' => run_sched p c' r
              | None => None
              end
  end.

Definition thread_done (t : thread) : bool :=
  match t_calls t with [] => true | _ :: _ => false end.

Definition finished (c : cfg) : bool := forallb thread_done (g_threads c).
Definition outcomes (c : cfg) : list (list soutcome) := map t_out (g_threads c).
Definition final_file (c : cfg) : option bytes := file (g_sh c).

Definition init_sh (f : option bytes) : sh := {| file := f; rlocks := 0; wlock := None |}.
Definition init_thread (cs : list call) : thread :=
  {| t_calls := cs; t_pc := PIdle; t_read := []; t_out := [] |}.
Definition init_cfg (f : option bytes) (prog : list (list call)) : cfg :=
  {| g_sh := init_sh f; g_threads := map init_thread prog |}.

(* ---------- serial executions ---------- *)

(* run goroutine [g] until it is finished or blocked (at most [fuel] events) *)
Fixpoint run_thread (fuel : nat) (p : protocol) (c : cfg) (g : nat) : cfg :=
  match fuel with
  | O => c
  | S k => match sched_step p c g with
           | Some c' => run_thread k p c' g
           | None => c
           end
  end.

(* a call has at most 3 + 6 events *)
Definition call_fuel : nat := 9.

(* one call run to completion ALONE against file [f], with the small-step semantics *)
Definition run_alone (p : protocol) (f : option bytes) (c : call) : option bytes * soutcome :=
  let r := run_thread call_fuel p (init_cfg f [[c]]) 0 in
  (final_file r, hd OFailedNotFound (concat (outcomes r))).

(* calls (tagged with their goroutine) run one after the other, each to completion *)
Fixpoint run_serial (p : protocol) (f : option bytes) (l : list (nat * call))
  : option bytes * list (nat * soutcome) :=
  match l with
  | [] => (f, [])
  | (g, c) :: r =>
      let (f1, o) := run_alone p f c in
      let (f2, os) := run_serial p f1 r in
      (f2, (g, o) :: os)
  end.

(* outcomes per goroutine, [n] goroutines *)
Definition group_outcomes {A} (n : nat) (os : list (nat * A)) : list (list A) :=
  map (fun g => map snd (filter (fun x => Nat.eqb (fst x) g) os)) (seq 0 n).

(* the same call as ONE atomic step (specification of [run_alone]) *)
Definition call_atomic (f : option bytes) (c : call) : option bytes * soutcome :=
  match decide c (content f) with
  | DAdd => (Some (add_entry (cl_tid c) (cl_snap c) (content f)), OAdded)
  | DUpdate => (Some (update_entry (cl_tid c) (cl_snap c) (content f)), OUpdated)
  | DDone o => (f, o)
  end.

(* ---------- linearisation order of a schedule ---------- *)

(* does the next event of [t] linearise its current call?
   non-writing calls: at the decision (ERUnlock); adds: at EAppend; updates: at EWrite *)
Definition lin_point (t : thread) : option call :=
  match t_calls t with
  | [] => None
  | c :: _ =>
    match t_pc t with
    | PRu => match decide c (t_read t) with DDone _ => Some c | _ => None end
    | PAa => Some c
    | PUw => Some c
    | _ => None
    end
  end.

Definition lin_step (c : cfg) (g : nat) : list (nat * call) :=
  match nth_error (g_threads c) g with
  | Some t => match lin_point t with Some k => [(g, k)] | None => [] end
  | None => []
  end.

(* the calls of a schedule in the order of their linearisation points *)
Fixpoint lin_order (p : protocol) (c : cfg) (sch : list nat) : list (nat * call) :=
  match sch with
  | [] => []
  | g :: r => match sched_step p c g with
              | Some c' => lin_step c g ++ lin_order p c' r
              | None => []
              end
  end.

(* ---------- event counters (testEvents.register) ---------- *)

Record tally := { k_passed : nat; k_added : nat; k_updated : nat; k_erred : nat }.

Definition tally0 : tally := {| k_passed := 0; k_added := 0; k_updated := 0; k_erred := 0 |}.

(* one atomic increment *)
Definition tally_bump (o : soutcome) (c : tally) : tally :=
  match o with
  | OPassed => {| k_passed := S (k_passed c); k_added := k_added c; k_updated := k_updated c; k_erred := k_erred c |}
  | OAdded => {| k_passed := k_passed c; k_added := S (k_added c); k_updated := k_updated c; k_erred := k_erred c |}
  | OUpdated => {| k_passed := k_passed c; k_added := k_added c; k_updated := S (k_updated c); k_erred := k_erred c |}
  | OFailedNotFound | OFailedDiff =>
      {| k_passed := k_passed c; k_added := k_added c; k_updated := k_updated c; k_erred := S (k_erred c) |}
  end.

(* increments applied in the order given *)
Definition tally_of (l : list (nat * soutcome)) : tally :=
  fold_left (fun c x => tally_bump (snd x) c) l tally0.
