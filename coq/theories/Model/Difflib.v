(* Difflib: executable model of /repo/internal/difflib/difflib.go (sequenceMatcher).
   Elements are lines ([bytes]) compared with [beq].  Indices are [nat].

   Correspondence with the Go code
   - chainB: [b2j b x] is the value of the map m.b2j at key x after chainB (missing key = []).
     IsJunk is nil in NewMatcher, so bJunk is always empty and the "purge junk" block is dead;
     autoJunk is true, so the popularity purge runs when len(b) >= 200.
   - findLongestMatch: [flm_rows]/[flm_row] are the two nested loops over i and over b2j[a[i]]
     with the maps j2len/newj2len as association lists; [ext_left]/[ext_right] are the two
     "extend by non-junk" loops.  The two "extend by junk" loops are omitted: their condition
     contains m.isBJunk(..) which is constantly false because bJunk is empty.
   - getMatchingBlocks: [match_blocks] is the recursive closure matchBlocks (the accumulator
     [matched] is returned as left ++ [match] ++ right, which is what the appends produce),
     [merge_adjacent] the collapse loop, and the sentinel is appended.
   - getOpCodes: [opcodes_from]; GetGroupedOpCodes: [grouped_opcodes].
   Go ints are modelled by nat; every subtraction below is commented where truncation could
   matter. *)
From Coq Require Import List NArith Arith Bool Lia.
Import ListNotations.
From Snaps Require Import Base.Bytes.

Definition line := bytes.

(* l[i1:i2] *)
Definition slice {A : Type} (l : list A) (i1 i2 : nat) : list A := firstn (i2 - i1) (skipn i1 l).

(* ---------- chainB ---------- *)

(* indices (>= base) of x in b, increasing *)
Fixpoint indices_from (base : nat) (b : list line) (x : line) : list nat :=
  match b with
  | [] => []
  | y :: r => if beq x y then base :: indices_from (S base) r x else indices_from (S base) r x
  end.

Definition indices (b : list line) (x : line) : list nat := indices_from 0 b x.

(* "popular": autoJunk && n >= 200 && len(indices) > n/100 + 1 *)
Definition popular (b : list line) (x : line) : bool :=
  (200 <=? length b) && (length b / 100 + 1 <? length (indices b x)).

(* m.b2j[x] after chainB *)
Definition b2j (b : list line) (x : line) : list nat :=
  if popular b x then [] else indices b x.

(* b2j[a[i]] for every i, computed once (the Go code computes b2j once in chainB) *)
Definition b2j_table (a b : list line) : list (list nat) := map (b2j b) a.

(* ---------- findLongestMatch ---------- *)

Definition blk := (nat * nat * nat)%type.   (* match{A, B, Size} *)

(* j2len[j] with missing key = 0 *)
Fixpoint j2get (m : list (nat * nat)) (j : nat) : nat :=
  match m with
  | [] => 0
  | (j', k) :: r => if j' =? j then k else j2get r j
  end.

(* j2len[j-1]: at j = 0 Go reads the key -1, which is never present *)
Definition j2prev (m : list (nat * nat)) (j : nat) : nat :=
  match j with 0 => 0 | S j' => j2get m j' end.

(* inner loop: for _, j := range b2j[a[i]]; [nw] is newj2len (latest binding first) *)
Fixpoint flm_row (i blo bhi : nat) (js : list nat) (prev nw : list (nat * nat)) (best : blk)
  : list (nat * nat) * blk :=
  match js with
  | [] => (nw, best)
  | j :: js' =>
      if j <? blo then flm_row i blo bhi js' prev nw best          (* continue *)
      else if bhi <=? j then (nw, best)                            (* break *)
      else
        let k := S (j2prev prev j) in
        let '(_, _, bestsize) := best in
        (* i-k+1 and j-k+1 : k <= i+1 and k <= j+1 always hold (DifflibP.flm_row_inv) *)
        let best' := if bestsize <? k then (i + 1 - k, j + 1 - k, k) else best in
        flm_row i blo bhi js' prev ((j, k) :: nw) best'
  end.

(* outer loop: for i := alo; i != ahi; i++ ; [rows] = b2j[a[i]] for i = alo .. ahi-1 *)
Fixpoint flm_rows (blo bhi : nat) (rows : list (list nat)) (i : nat)
         (prev : list (nat * nat)) (best : blk) : blk :=
  match rows with
  | [] => best
  | js :: rest =>
      let '(nw, best') := flm_row i blo bhi js prev [] best in
      flm_rows blo bhi rest (S i) nw best'
  end.

(* for besti > alo && bestj > blo && a[besti-1] == b[bestj-1] { besti--, bestj--, bestsize++ } *)
Fixpoint ext_left (a b : list line) (alo blo : nat) (fuel : nat) (m : blk) : blk :=
  match fuel with
  | 0 => m
  | S f =>
      let '(i, j, k) := m in
      if (alo <? i) && (blo <? j) && beq (nth (i - 1) a []) (nth (j - 1) b [])
      then ext_left a b alo blo f (i - 1, j - 1, S k)
      else m
  end.

(* for besti+bestsize < ahi && bestj+bestsize < bhi && a[besti+bestsize] == b[bestj+bestsize] { bestsize++ } *)
Fixpoint ext_right (a b : list line) (ahi bhi : nat) (fuel : nat) (m : blk) : blk :=
  match fuel with
  | 0 => m
  | S f =>
      let '(i, j, k) := m in
      if (i + k <? ahi) && (j + k <? bhi) && beq (nth (i + k) a []) (nth (j + k) b [])
      then ext_right a b ahi bhi f (i, j, S k)
      else m
  end.

(* findLongestMatch given the table tbl[i] = b2j[a[i]].
   Fuel: the left loop decrements besti (> alo >= 0) so besti iterations suffice; the right
   loop increments besti+bestsize (< ahi) so ahi iterations suffice
   (DifflibP.ext_left_fuel_enough / ext_right_fuel_enough). *)
Definition flm_tbl (tbl : list (list nat)) (a b : list line) (alo ahi blo bhi : nat) : blk :=
  let rows := firstn (ahi - alo) (skipn alo tbl) in
  let m0 := flm_rows blo bhi rows alo [] (alo, blo, 0) in
  let '(i0, _, _) := m0 in
  let m1 := ext_left a b alo blo i0 m0 in
  ext_right a b ahi bhi ahi m1.

Definition find_longest_match (a b : list line) (alo ahi blo bhi : nat) : blk :=
  flm_tbl (b2j_table a b) a b alo ahi blo bhi.

(* ---------- getMatchingBlocks ---------- *)

(* the closure matchBlocks; every recursive call is on a window with a strictly smaller
   ahi - alo, so fuel = S (ahi - alo) suffices (DifflibP.match_blocks_fuel_enough) *)
Fixpoint match_blocks (fuel : nat) (tbl : list (list nat)) (a b : list line)
         (alo ahi blo bhi : nat) : list blk :=
  match fuel with
  | 0 => []
  | S f =>
      let '(i, j, k) := flm_tbl tbl a b alo ahi blo bhi in
      if 0 <? k then
        (if (alo <? i) && (blo <? j) then match_blocks f tbl a b alo i blo j else [])
        ++ (i, j, k)
        :: (if (i + k <? ahi) && (j + k <? bhi) then match_blocks f tbl a b (i + k) ahi (j + k) bhi else [])
      else []
  end.

Definition emit_blk (m : blk) : list blk :=
  let '(_, _, k) := m in if 0 <? k then [m] else [].

(* the "collapse adjacent equal blocks" loop; [cur] = (i1, j1, k1) *)
Fixpoint merge_adjacent (cur : blk) (l : list blk) : list blk :=
  match l with
  | [] => emit_blk cur
  | (i2, j2, k2) :: r =>
      let '(i1, j1, k1) := cur in
      if (i1 + k1 =? i2) && (j1 + k1 =? j2) then merge_adjacent (i1, j1, k1 + k2) r
      else emit_blk cur ++ merge_adjacent (i2, j2, k2) r
  end.

Definition raw_blocks (a b : list line) : list blk :=
  match_blocks (S (length a)) (b2j_table a b) a b 0 (length a) 0 (length b).

Definition matching_blocks (a b : list line) : list blk :=
  merge_adjacent (0, 0, 0) (raw_blocks a b) ++ [(length a, length b, 0)].

(* ---------- getOpCodes ---------- *)

Inductive tag := Equal | Insert | Delete | Replace.

Record opcode := mkop { op_tag : tag; i1 : nat; i2 : nat; j1 : nat; j2 : nat }.

Definition tag_eqb (x y : tag) : bool :=
  match x, y with
  | Equal, Equal | Insert, Insert | Delete, Delete | Replace, Replace => true
  | _, _ => false
  end.

Definition is_equal (c : opcode) : bool := tag_eqb (op_tag c) Equal.

(* the gap opcode between (i,j) and the next matching block (ai,bj,_) *)
Definition gap_op (i j ai bj : nat) : list opcode :=
  if (i <? ai) && (j <? bj) then [mkop Replace i ai j bj]
  else if i <? ai then [mkop Delete i ai j bj]
  else if j <? bj then [mkop Insert i ai j bj]
  else [].

Fixpoint opcodes_from (i j : nat) (ms : list blk) : list opcode :=
  match ms with
  | [] => []
  | (ai, bj, size) :: r =>
      gap_op i j ai bj
      ++ (if 0 <? size then [mkop Equal ai (ai + size) bj (bj + size)] else [])
      ++ opcodes_from (ai + size) (bj + size) r
  end.

Definition get_opcodes (a b : list line) : list opcode :=
  opcodes_from 0 0 (matching_blocks a b).

(* ---------- GetGroupedOpCodes ---------- *)

(* codes[0] = {tag, max(i1, i2-n), i2, max(j1, j2-n), j2} when Equal.
   Go: i2-n may be negative, max(i1, .) with i1 >= 0 then equals max(i1, i2 -' n). *)
Definition trim_head (n : nat) (c : opcode) : opcode :=
  mkop (op_tag c) (Nat.max (i1 c) (i2 c - n)) (i2 c) (Nat.max (j1 c) (j2 c - n)) (j2 c).

(* {tag, i1, min(i2, i1+n), j1, min(j2, j1+n)} *)
Definition trim_tail (n : nat) (c : opcode) : opcode :=
  mkop (op_tag c) (i1 c) (Nat.min (i2 c) (i1 c + n)) (j1 c) (Nat.min (j2 c) (j1 c + n)).

Definition fix_first (n : nat) (codes : list opcode) : list opcode :=
  match codes with
  | c :: r => if is_equal c then trim_head n c :: r else codes
  | [] => []
  end.

Fixpoint fix_last (n : nat) (codes : list opcode) : list opcode :=
  match codes with
  | [] => []
  | [c] => if is_equal c then [trim_tail n c] else [c]
  | c :: r => c :: fix_last n r
  end.

(* len(group) > 0 && !(len(group) == 1 && group[0].Tag == OpEqual) *)
Definition keep_group (g : list opcode) : bool :=
  match g with
  | [] => false
  | [c] => negb (is_equal c)
  | _ => true
  end.

(* the main loop; [group] is the group under construction *)
Fixpoint group_loop (n : nat) (codes : list opcode) (group : list opcode) : list (list opcode) :=
  match codes with
  | [] => if keep_group group then [group] else []
  | c :: r =>
      if is_equal c && (n + n <? i2 c - i1 c)
      then (group ++ [trim_tail n c]) :: group_loop n r [trim_head n c]
      else group_loop n r (group ++ [c])
  end.

Definition grouped_of_codes (n : nat) (codes : list opcode) : list (list opcode) :=
  let codes := match codes with [] => [mkop Equal 0 1 0 1] | _ => codes end in
  group_loop n (fix_last n (fix_first n codes)) [].

(* n is a nat: the "if n < 0 { n = 3 }" branch does not exist *)
Definition grouped_opcodes (n : nat) (a b : list line) : list (list opcode) :=
  grouped_of_codes n (get_opcodes a b).
