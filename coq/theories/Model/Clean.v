(* Clean: obsolete-snapshot detection, pruning, sorting and the summary (snaps/clean.go,
   skip.go testSkipped with an empty -run pattern). *)
From Coq Require Import String.
From Coq Require Import List NArith Arith Bool.
Import ListNotations.
From Snaps Require Import Base.Bytes Base.Lines Base.Dec Base.Assoc.
From Snaps Require Import Model.Frame Model.PathModel Model.Mode Model.Api Model.Natural.

(* ---------- getTestID ---------- *)

Definition sep : bytes := B " - ".

Definition last_byte (b : bytes) : option N := match rev b with c :: _ => Some c | [] => None end.

(* "[Test... - <digits>]" -> the text between the brackets *)
Definition get_test_id (b : bytes) : option bytes :=
  match b with
  | [] => None
  | _ =>
    if is_prefix (B "[Test") b && (match last_byte b with Some 93%N => true | _ => false end) then
      match index_of sep b with
      | None => None
      | Some i =>
          let inner := firstn (length b - 1) b in      (* without the closing bracket *)
          let num := skipn (i + 3) inner in
          if forallb is_digit num then Some (skipn 1 inner) else None
      end
    else None
  end.

(* ---------- occurrences ---------- *)

Definition occ_ids (fmt : bytes -> nat -> bytes) (t : bytes) (counter count : nat) : list bytes :=
  let k := counter / count in
  (if Nat.ltb 1 k then map (fmt t) (seq 1 k) else []) ++ [fmt t k].

Definition snapshot_occ_fmt (t : bytes) (i : nat) : bytes := t ++ sep ++ dec i.
Definition standalone_occ_fmt (generic : bytes) (i : nat) : bytes := subst_d generic (dec i).

(* ids registered for one multi-entry file *)
Definition registered_tests (cleanup : list (key2 * nat)) (path : bytes) (count : nat) : list bytes :=
  flat_map (fun e => if beq (fst (fst e)) path then occ_ids snapshot_occ_fmt (snd (fst e)) (snd e) count else [])
           cleanup.

Definition registered_standalone (scleanup : list (bytes * nat)) (count : nat) : list bytes :=
  flat_map (fun e => occ_ids standalone_occ_fmt (fst e) (snd e) count) scleanup.

(* ---------- testSkipped (empty -run pattern: only the skip list protects) ---------- *)

Fixpoint take_until_sep (b : bytes) : bytes :=
  if is_prefix sep b then [] else
  match b with c :: r => c :: take_until_sep r | [] => [] end.

Definition test_skipped (skipped : list bytes) (test_id : bytes) : bool :=
  let name := take_until_sep test_id in
  existsb (fun n => beq name n || is_prefix (n ++ [slash]) name) skipped.

(* ---------- examineSnaps on one file ---------- *)

Inductive scan_mode := MScan | MDrop | MCapture (id : bytes) (acc : list bytes).

Record exam := {
  x_ids : list bytes;                    (* every recognised header, in file order *)
  x_obsolete : list bytes;
  x_tests : list (bytes * list bytes)    (* captured body lines per id (later wins) *)
}.

Definition keep_id (registered skipped : list bytes) (id : bytes) : bool :=
  mem_bytes id registered || test_skipped skipped id.

(* the scanner loop of examineSnaps. [keep_stale] = the stale entry is kept in the in-memory copy
   (report-only mode) instead of being dropped *)
Fixpoint examine_lines (registered skipped : list bytes) (drop_stale : bool)
         (mode : scan_mode) (ls : list bytes) (x : exam) : exam :=
  match ls with
  | [] => x
  | l :: r =>
    match mode with
    | MDrop =>
        if beq l endseq then examine_lines registered skipped drop_stale MScan r x
        else examine_lines registered skipped drop_stale MDrop r x
    | MCapture id acc =>
        if beq l endseq then
          examine_lines registered skipped drop_stale MScan r
            {| x_ids := x_ids x; x_obsolete := x_obsolete x; x_tests := aset id (rev acc) (x_tests x) |}
        else examine_lines registered skipped drop_stale (MCapture id (l :: acc)) r x
    | MScan =>
        match get_test_id l with
        | None => examine_lines registered skipped drop_stale MScan r x
        | Some id =>
            let x1 := {| x_ids := x_ids x ++ [id]; x_obsolete := x_obsolete x; x_tests := x_tests x |} in
            if keep_id registered skipped id then
              examine_lines registered skipped drop_stale (MCapture id []) r x1
            else
              let x2 := {| x_ids := x_ids x1; x_obsolete := x_obsolete x1 ++ [id]; x_tests := x_tests x1 |} in
              if drop_stale then examine_lines registered skipped drop_stale MDrop r x2
              else examine_lines registered skipped drop_stale (MCapture id []) r x2
        end
    end
  end.

Definition emit_entry (id : bytes) (body : list bytes) : bytes :=
  [nl] ++ B "[" ++ id ++ B "]" ++ [nl] ++ unlines body ++ endseq ++ [nl].

Definition emit_all (ids : list bytes) (tests : list (bytes * list bytes)) : bytes :=
  concat (map (fun id => match alookup id tests with Some b => emit_entry id b | None => [] end) ids).

(* result for one used file: (obsolete ids, new contents if rewritten) *)
Definition examine_file (registered skipped : list bytes) (update sort : bool) (f : bytes)
  : list bytes * option bytes :=
  let x := examine_lines registered skipped update MScan (scan f)
             {| x_ids := []; x_obsolete := []; x_tests := [] |} in
  let has_diffs := match x_obsolete x with [] => false | _ => true end in
  let should_sort := sort && negb (is_sorted_nat (x_ids x)) in
  let should_update := update && has_diffs in
  if negb should_update && negb should_sort then (x_obsolete x, None)
  else
    let ids := if should_sort then sort_nat (x_ids x) else x_ids x in
    (x_obsolete x, Some (emit_all ids (x_tests x))).

(* ---------- examineFiles ---------- *)

Definition file_name_in (dir path : bytes) : option bytes :=
  (* Some name when path = dir/name with a slash-free name *)
  let pre := match dir with [47%N] => dir | _ => dir ++ [slash] end in
  if is_prefix pre path then
    let n := skipn (length pre) path in
    if negb (existsb (N.eqb slash) n) && negb (beq n []) then Some n else None
  else None.

Definition readdir_files (fs : list (bytes * bytes)) (dir : bytes) : list bytes :=
  sort_bytes (flat_map (fun e => match file_name_in dir (fst e) with Some n => [n] | None => [] end) fs).

Definition registry_paths (cleanup : list (key2 * nat)) : list bytes := dedup (map (fun e => fst (fst e)) cleanup).

Record files_result := { fr_obsolete : list bytes; fr_used : list bytes }.

Definition examine_files (fs : list (bytes * bytes)) (cleanup : list (key2 * nat))
           (standalone : list bytes) : files_result :=
  let paths := registry_paths cleanup in
  let dirs := dedup (map dirname paths ++ map dirname standalone) in
  fold_left
    (fun acc dir =>
       fold_left
         (fun acc name =>
            if negb (contains snaps_ext name) then acc else
            let p := join2 dir name in
            if mem_bytes p paths then {| fr_obsolete := fr_obsolete acc; fr_used := fr_used acc ++ [p] |}
            else if mem_bytes p standalone then acc
            else {| fr_obsolete := fr_obsolete acc ++ [p]; fr_used := fr_used acc |})
         (readdir_files fs dir) acc)
    dirs {| fr_obsolete := []; fr_used := [] |}.

(* ---------- Clean ---------- *)

Record clean_result := {
  cr_obsolete_files : list bytes;
  cr_obsolete_tests : list bytes;
  cr_writes : list (wkind * bytes);
  cr_printed : bool;                      (* a summary is printed *)
  cr_counts : counters;
  cr_skipped : nat;
  cr_removed : bool                       (* summary says "removed" (else "obsolete") *)
}.

Definition clean_run (s : state) (sort_opt : bool) (count : nat) : state * clean_result :=
  let e := s_env s in
  let del := clean_deletes e in
  let srt := clean_sorts e sort_opt in
  let standalone := registered_standalone (s_scleanup s) count in
  let fr := examine_files (s_fs s) (s_cleanup s) standalone in
  (* delete obsolete files *)
  let fs1 := if del then fold_left (fun fs p => aremove p fs) (fr_obsolete fr) (s_fs s) else s_fs s in
  let w1 := if del then map (fun p => (WRemove, p)) (fr_obsolete fr) else [] in
  (* examine used files *)
  let step_file (acc : list (bytes * bytes) * list bytes * list (wkind * bytes)) (p : bytes) :=
      let '(fs, obs, ws) := acc in
      match alookup p fs with
      | None => acc
      | Some f =>
          let '(o, nf) := examine_file (registered_tests (s_cleanup s) p count) (s_skipped s) del srt f in
          match nf with
          | Some f' => (aset p f' fs, obs ++ o, ws ++ [(WRewrite, p)])
          | None => (fs, obs ++ o, ws)
          end
      end in
  let '(fs2, obs_tests, w2) := fold_left step_file (fr_used fr) (fs1, [], []) in
  let c := s_events s in
  let nothing := match fr_obsolete fr, obs_tests with [], [] => true | _, _ => false end
                 && Nat.eqb (n_erred c + n_added c + n_updated c + n_passed c) 0
                 && Nat.eqb (length (s_skipped s)) 0 in
  (set_fs s fs2,
   {| cr_obsolete_files := fr_obsolete fr; cr_obsolete_tests := obs_tests; cr_writes := w1 ++ w2;
      cr_printed := negb nothing; cr_counts := c; cr_skipped := length (s_skipped s);
      cr_removed := del |}).
