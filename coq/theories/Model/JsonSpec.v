(* JsonSpec: specification-level definitions for the JSON model (no lemmas):
   token grammars, well-formed ASTs, rendering with an arbitrary whitespace layout,
   the relational form of rendering, member permutations, path disjointness. *)
From Coq Require Import String.
From Coq Require Import List NArith Arith Bool Permutation.
Import ListNotations.
From Snaps Require Import Base.Bytes Base.Lines Model.Json.

(* ------------------------------------------------------------------ *)
(* token grammars (RFC 8259 as implemented by gjson's validator)        *)

Definition ws_bytes (w : bytes) : Prop := forallb is_ws w = true.
Definition digits (d : bytes) : Prop := forallb is_dig d = true.

(* the bytes between the quotes of a string token *)
Inductive str_ok : bytes -> Prop :=
| so_nil : str_ok []
| so_char c r :
    N.ltb c 32 = false -> c <> c_quote -> c <> c_bslash -> str_ok r -> str_ok (c :: r)
| so_esc e r :
    is_esc1 e = true -> str_ok r -> str_ok (c_bslash :: e :: r)
| so_uni h1 h2 h3 h4 r :
    is_hex h1 = true -> is_hex h2 = true -> is_hex h3 = true -> is_hex h4 = true ->
    str_ok r -> str_ok (c_bslash :: 117%N :: h1 :: h2 :: h3 :: h4 :: r).

Definition sign_ok (s : bytes) : Prop := s = [] \/ s = [c_minus].
Definition int_ok (i : bytes) : Prop :=
  i = [48%N] \/ exists c d, i = c :: d /\ is_dig c = true /\ c <> 48%N /\ digits d.
Definition frac_ok (f : bytes) : Prop :=
  f = [] \/ exists c d, f = 46%N :: c :: d /\ is_dig c = true /\ digits d.
Definition exp_ok (e : bytes) : Prop :=
  e = [] \/
  exists x sg c d, e = x :: sg ++ c :: d /\ (x = 101%N \/ x = 69%N) /\
                   (sg = [] \/ sg = [43%N] \/ sg = [45%N]) /\ is_dig c = true /\ digits d.

(* number = [ minus ] int [ frac ] [ exp ] *)
Definition num_ok (raw : bytes) : Prop :=
  exists sg i f e, raw = sg ++ i ++ f ++ e /\ sign_ok sg /\ int_ok i /\ frac_ok f /\ exp_ok e.

(* what may follow a number token without being absorbed by it *)
Definition num_stop (rest : bytes) : bool :=
  match rest with
  | [] => true
  | c :: _ => negb (is_dig c) && negb (N.eqb c 46) && negb (N.eqb c 101) && negb (N.eqb c 69)
  end.

(* first-byte conditions used by the number scanner lemmas *)
Definition starts_with (P : N -> bool) (s : bytes) : bool :=
  match s with [] => true | c :: _ => P c end.

Definition no_dig (s : bytes) : bool := starts_with (fun c => negb (is_dig c)) s.
Definition no_dot (s : bytes) : bool := starts_with (fun c => negb (N.eqb c 46)) s.
Definition no_e (s : bytes) : bool :=
  starts_with (fun c => negb (N.eqb c 101) && negb (N.eqb c 69)) s.

(* what follows a value inside valid JSON: end of input, whitespace or , ] } *)
Definition delim_start (rest : bytes) : bool :=
  match rest with
  | [] => true
  | c :: _ => is_ws c || N.eqb c c_comma || N.eqb c c_rbrack || N.eqb c c_rbrace
  end.

(* the first byte of a value *)
Definition value_start (c : N) : bool :=
  N.eqb c c_lbrace || N.eqb c c_lbrack || N.eqb c c_quote || N.eqb c c_minus || is_dig c ||
  N.eqb c 116 || N.eqb c 102 || N.eqb c 110.

(* ------------------------------------------------------------------ *)
(* well-formed ASTs: every raw scalar is a token of the grammar         *)

Fixpoint wf_json (v : jv) : Prop :=
  match v with
  | JNum raw => num_ok raw
  | JStr raw => str_ok raw
  | JArr l => fold_right (fun x P => wf_json x /\ P) True l
  | JObj m => fold_right (fun (kv : bytes * jv) P =>
                            let (k, x) := kv in str_ok k /\ wf_json x /\ P) True m
  | _ => True
  end.

(* ------------------------------------------------------------------ *)
(* rendering with an arbitrary layout                                   *)

(* A layout gives the whitespace of every gap; gaps are addressed by tree paths:
     l [0]        before the value          l [1]      after the value
     l [2]        inside an empty [] or {}
     sub l 3      layout of the first element / first member value
     sub l 4      layout of the remaining elements, a chain: sub _ 0 = head, sub _ 1 = tail
     l [5]        before the key of a member, l [6] between the key and the colon
                  (for later members: the same addresses in the chain node)          *)
Definition layout := list nat -> bytes.
Definition sub (l : layout) (i : nat) : layout := fun p => l (i :: p).
Definition ws_layout (l : layout) : Prop := forall p, ws_bytes (l p).

Section RenderTails.
  Variable rv : layout -> jv -> bytes.
  Fixpoint render_tail (l : layout) (r : list jv) : bytes :=
    match r with
    | [] => []
    | y :: r' => c_comma :: rv (sub l 0) y ++ render_tail (sub l 1) r'
    end.
  Definition render_member (l : layout) (lv : layout) (k : bytes) (x : jv) : bytes :=
    l [5] ++ quote k ++ l [6] ++ c_colon :: rv lv x.
  Fixpoint render_mtail (l : layout) (r : list (bytes * jv)) : bytes :=
    match r with
    | [] => []
    | (k, y) :: r' => c_comma :: render_member l (sub l 0) k y ++ render_mtail (sub l 1) r'
    end.
End RenderTails.

Definition wrap (l : layout) (core : bytes) : bytes := l [0] ++ core ++ l [1].

(* the value without its own leading/trailing gap *)
Fixpoint render_core (l : layout) (v : jv) {struct v} : bytes :=
  match v with
  | JNull => B "null"
  | JTrue => B "true"
  | JFalse => B "false"
  | JNum raw => raw
  | JStr raw => quote raw
  | JArr [] => c_lbrack :: l [2] ++ [c_rbrack]
  | JArr (x :: r) =>
      c_lbrack :: wrap (sub l 3) (render_core (sub l 3) x) ++
      render_tail (fun l' y => wrap l' (render_core l' y)) (sub l 4) r ++ [c_rbrack]
  | JObj [] => c_lbrace :: l [2] ++ [c_rbrace]
  | JObj ((k, x) :: r) =>
      c_lbrace :: render_member (fun l' y => wrap l' (render_core l' y)) l (sub l 3) k x ++
      render_mtail (fun l' y => wrap l' (render_core l' y)) (sub l 4) r ++ [c_rbrace]
  end.

Definition render (l : layout) (v : jv) : bytes := wrap l (render_core l v).

(* the layout with no whitespace at all *)
Definition compact : layout := fun _ => [].

(* layout constructors (used to turn a rendering derivation into a layout) *)
Definition agree (l1 l2 : layout) : Prop := forall p, l1 p = l2 p.
Definition agree_core (l1 l2 : layout) : Prop := forall p, p <> [0] -> p <> [1] -> l1 p = l2 p.
Definition lay_set01 (l : layout) (a b : bytes) : layout :=
  fun p => match p with [0] => a | [1] => b | _ => l p end.
Definition lay_empty (w : bytes) : layout :=
  fun p => match p with [2] => w | _ => [] end.
Definition lay_arr (lx lt : layout) : layout :=
  fun p => match p with 3 :: p' => lx p' | 4 :: p' => lt p' | _ => [] end.
Definition lay_tail (ly lt : layout) : layout :=
  fun p => match p with 0 :: p' => ly p' | 1 :: p' => lt p' | _ => [] end.
Definition lay_obj (w1 w2 : bytes) (lx lt : layout) : layout :=
  fun p => match p with
           | [5] => w1 | [6] => w2 | 3 :: p' => lx p' | 4 :: p' => lt p' | _ => []
           end.
Definition lay_mtail (w1 w2 : bytes) (ly lt : layout) : layout :=
  fun p => match p with
           | [5] => w1 | [6] => w2 | 0 :: p' => ly p' | 1 :: p' => lt p' | _ => []
           end.

(* ------------------------------------------------------------------ *)
(* the same as a relation: [rcore v s] = s is v with some whitespace in the gaps,
   without leading/trailing gap                                         *)

Inductive rcore : jv -> bytes -> Prop :=
| rc_null : rcore JNull (B "null")
| rc_true : rcore JTrue (B "true")
| rc_false : rcore JFalse (B "false")
| rc_num raw : rcore (JNum raw) raw
| rc_str raw : rcore (JStr raw) (quote raw)
| rc_arr0 w : ws_bytes w -> rcore (JArr []) (c_lbrack :: w ++ [c_rbrack])
| rc_arr x r pre sx st :
    ws_bytes pre -> rcore x sx -> rtail r st ->
    rcore (JArr (x :: r)) (c_lbrack :: pre ++ sx ++ st)
| rc_obj0 w : ws_bytes w -> rcore (JObj []) (c_lbrace :: w ++ [c_rbrace])
| rc_obj k x r w1 w2 w3 sx st :
    ws_bytes w1 -> ws_bytes w2 -> ws_bytes w3 -> rcore x sx -> rmtail r st ->
    rcore (JObj ((k, x) :: r))
          (c_lbrace :: w1 ++ quote k ++ w2 ++ c_colon :: w3 ++ sx ++ st)
(* the rest of an array after an element, closing bracket included *)
with rtail : list jv -> bytes -> Prop :=
| rt_nil w : ws_bytes w -> rtail [] (w ++ [c_rbrack])
| rt_cons w pre y r sy st :
    ws_bytes w -> ws_bytes pre -> rcore y sy -> rtail r st ->
    rtail (y :: r) (w ++ c_comma :: pre ++ sy ++ st)
(* the rest of an object after a member, closing brace included *)
with rmtail : list (bytes * jv) -> bytes -> Prop :=
| rm_nil w : ws_bytes w -> rmtail [] (w ++ [c_rbrace])
| rm_cons w w1 w2 w3 k y r sy st :
    ws_bytes w -> ws_bytes w1 -> ws_bytes w2 -> ws_bytes w3 -> rcore y sy -> rmtail r st ->
    rmtail ((k, y) :: r)
           (w ++ c_comma :: w1 ++ quote k ++ w2 ++ c_colon :: w3 ++ sy ++ st).

Scheme rcore_mut := Minimality for rcore Sort Prop
  with rtail_mut := Minimality for rtail Sort Prop
  with rmtail_mut := Minimality for rmtail Sort Prop.
Combined Scheme rcore_rtail_rmtail_ind from rcore_mut, rtail_mut, rmtail_mut.

(* a document: one value with surrounding whitespace *)
Definition renders (v : jv) (s : bytes) : Prop :=
  exists pre sc post, ws_bytes pre /\ ws_bytes post /\ rcore v sc /\ s = pre ++ sc ++ post.

(* proof-side predicates on the value parser passed to parse_elems/parse_members *)
Definition pv_sound (pv : bytes -> option (jv * bytes)) : Prop :=
  forall s v r, pv s = Some (v, r) ->
    exists w sc, ws_bytes w /\ rcore v sc /\ wf_json v /\ s = w ++ sc ++ r.

Definition pv_le (n : nat) (pv1 pv2 : bytes -> option (jv * bytes)) : Prop :=
  forall s x, length s <= n -> pv1 s = Some x -> pv2 s = Some x.

(* the key a member is sorted by *)
Definition mkey (kv : bytes * jv) : bytes := sort_key (fst kv).

(* members in non-descending key order (the order insert_member maintains) *)
Fixpoint msorted (l : list (bytes * jv)) : Prop :=
  match l with
  | x :: (y :: _) as r => member_ltb y x = false /\ msorted r
  | _ => True
  end.

(* ------------------------------------------------------------------ *)
(* same value up to the order of object members (recursively)           *)

Inductive jperm : jv -> jv -> Prop :=
| jp_null : jperm JNull JNull
| jp_true : jperm JTrue JTrue
| jp_false : jperm JFalse JFalse
| jp_num raw : jperm (JNum raw) (JNum raw)
| jp_str raw : jperm (JStr raw) (JStr raw)
| jp_arr l1 l2 : Forall2 jperm l1 l2 -> jperm (JArr l1) (JArr l2)
| jp_obj m1 m1' m2 :
    Forall2 (fun a b : bytes * jv => fst a = fst b /\ jperm (snd a) (snd b)) m1 m1' ->
    Permutation m1' m2 ->
    jperm (JObj m1) (JObj m2).

(* ------------------------------------------------------------------ *)
(* paths                                                                *)

Definition pstep_eqb (a b : pstep) : bool :=
  match a, b with
  | PKey k1, PKey k2 => beq k1 k2
  | PIdx i, PIdx j => Nat.eqb i j
  | _, _ => false
  end.

(* neither path is a prefix of the other *)
Fixpoint disjoint_paths (p q : list pstep) : bool :=
  match p, q with
  | a :: p', b :: q' => if pstep_eqb a b then disjoint_paths p' q' else true
  | _, _ => false
  end.

(* frame lines of the snapshot file format *)
(* a byte that occurs in neither frame line *)
Definition witness_byte (c : N) : bool := negb (N.eqb c 45) && negb (N.eqb c 47).
Definition has_witness (line : bytes) : bool := existsb witness_byte line.
Definition no_nl_b (s : bytes) : bool := forallb (fun c => negb (N.eqb c nl)) s.
(* every line of s (split on newline) has a witness byte; [seen] = the current line has one *)
Fixpoint lw (seen : bool) (s : bytes) : bool :=
  match s with
  | [] => seen
  | c :: r => if N.eqb c nl then seen && lw false r else lw (seen || witness_byte c) r
  end.

Definition frame_line (l : bytes) : bool := beq l (B "---") || beq l (B "/-/-/-/").
