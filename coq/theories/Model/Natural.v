(* Natural: maruel/natural.Less as used by naturalSort, slices.IsSortedFunc, and a sort. *)
From Coq Require Import List NArith Bool.
Import ListNotations.
From Snaps Require Import Base.Bytes Base.Dec.

(* commonPrefix: number of leading positions with equal, non-digit bytes *)
Fixpoint common_prefix (a b : bytes) : nat :=
  match a, b with
  | x :: a', y :: b' =>
      if is_digit x || is_digit y || negb (N.eqb x y) then 0 else S (common_prefix a' b')
  | _, _ => 0
  end.

Fixpoint digits_len (s : bytes) : nat :=
  match s with c :: r => if is_digit c then S (digits_len r) else 0 | [] => 0 end.

(* strconv.ParseUint(s, 10, 64) on a non-empty all-digit string: None = out of range *)
Definition parse_uint64 (s : bytes) : option N :=
  let v := fold_left (fun acc c => (acc * 10 + (c - 48))%N) s 0%N in
  if N.ltb v 18446744073709551616%N then Some v else None.

Fixpoint less_fuel (fuel : nat) (a b : bytes) : bool :=
  match fuel with
  | O => bytes_ltb a b
  | S f =>
    let p := common_prefix a b in
    let a := skipn p a in
    let b := skipn p b in
    match a with
    | [] => match b with [] => false | _ => true end
    | _ =>
      let ia := digits_len a in
      let ib := digits_len b in
      if Nat.ltb 0 ia && Nat.ltb 0 ib then
        match parse_uint64 (firstn ia a), parse_uint64 (firstn ib b) with
        | Some an, Some bn =>
            if negb (N.eqb an bn) then N.ltb an bn
            else if negb (Nat.eqb ia (length a)) && negb (Nat.eqb ib (length b))
                 then less_fuel f (skipn ia a) (skipn ib b)
                 else bytes_ltb a b
        | _, _ => bytes_ltb a b
        end
      else bytes_ltb a b
    end
  end.

(* natural.Less *)
Definition natural_less (a b : bytes) : bool := less_fuel (S (length a)) a b.

(* naturalSort comparator < 0 *)
Definition nat_lt (a b : bytes) : bool := negb (beq a b) && natural_less a b.

(* slices.IsSortedFunc(ids, naturalSort) *)
Fixpoint is_sorted_nat (l : list bytes) : bool :=
  match l with
  | x :: ((y :: _) as r) => negb (nat_lt y x) && is_sorted_nat r
  | _ => true
  end.

(* a sort by the comparator (insertion; any correct sort agrees when the order is total) *)
Fixpoint insert_nat (x : bytes) (l : list bytes) : list bytes :=
  match l with
  | [] => [x]
  | y :: r => if nat_lt x y then x :: l else y :: insert_nat x r
  end.
Definition sort_nat (l : list bytes) : list bytes := fold_right insert_nat [] l.
