(* Summary: the "Snapshot Summary" text printed by snaps.Clean (snaps/clean.go: summary, printEvent;
   internal/colors: Sprint, Fprint), byte for byte in both colour modes, and an independent
   line-oriented READER of that text.  Definitions only; the proofs are in Proofs/SummaryP.v. *)
From Coq Require Import String.
From Coq Require Import List NArith Arith Bool.
Import ListNotations.
From Snaps Require Import Base.Bytes Base.Lines Base.Dec.
From Snaps Require Import Model.Api Model.Clean.

(* shared helper on the counters record *)
Definition counters_zero (c : counters) : bool :=
  Nat.eqb (n_erred c) 0 && Nat.eqb (n_added c) 0 && Nat.eqb (n_updated c) 0 && Nat.eqb (n_passed c) 0.

(* ====================================================================== *)
(* 1. The printer                                                          *)
(* ====================================================================== *)

Record sumdata := {
  sd_files : list bytes;        (* obsoleteFiles *)
  sd_tests : list bytes;        (* obsoleteTests *)
  sd_skipped : nat;             (* len(skippedTests.values) *)
  sd_counts : counters;         (* testEvents.items *)
  sd_update : bool              (* shouldClean && !isCI *)
}.

(* ---- internal/colors ---- *)
Definition c_reset : bytes := [27; 91; 48; 109]%N.                                        (* "\x1b[0m" *)
Definition c_boldwhite : bytes := [27; 91; 49; 59; 51; 56; 59; 53; 59; 50; 53; 53; 109]%N. (* "\x1b[1;38;5;255m" *)
Definition c_dim : bytes := [27; 91; 50; 109]%N.                                          (* "\x1b[2m" *)
Definition c_yellow : bytes := [27; 91; 51; 51; 59; 49; 109]%N.                           (* "\x1b[33;1m" *)
Definition c_green : bytes := [27; 91; 51; 50; 59; 49; 109]%N.                            (* "\x1b[32;1m" *)
Definition c_red : bytes := [27; 91; 51; 49; 59; 49; 109]%N.                              (* "\x1b[31;1m" *)

(* colors.Sprint / colors.Fprint *)
Definition paint (nocolor : bool) (color s : bytes) : bytes :=
  if nocolor then s else color ++ s ++ c_reset.

(* ---- snaps/utils.go symbols (each one ends with a space) ---- *)
Definition sym_arrow : bytes := [226; 128; 186; 32]%N.    (* "› " *)
Definition sym_bullet : bytes := [226; 128; 162; 32]%N.   (* "• " *)
Definition sym_error : bytes := [226; 156; 149; 32]%N.    (* "✕ " *)
Definition sym_success : bytes := [226; 156; 147; 32]%N.  (* "✓ " *)
Definition sym_update : bytes := [226; 156; 142; 32]%N.   (* "✎ " *)
Definition sym_skip : bytes := [226; 159; 179; 32]%N.     (* "⟳ " *)
Definition sym_enter : bytes := [226; 134; 179; 32]%N.    (* "↳ " *)

Definition plural (n : nat) : bytes := if Nat.ltb 1 n then B "s" else [].

(* printEvent: nothing for 0, else  color(symbol N snapshot[s] verb "\n") *)
Definition print_event (nocolor : bool) (color symbol verb : bytes) (n : nat) : bytes :=
  match n with
  | O => []
  | _ => paint nocolor color (symbol ++ dec n ++ B " snapshot" ++ plural n ++ B " " ++ verb ++ [nl])
  end.

(* the closure objectSummaryList *)
Definition object_item (nocolor : bool) (o : bytes) : bytes :=
  paint nocolor c_dim (B "  " ++ sym_enter ++ B " " ++ sym_bullet ++ o ++ [nl]).

Definition object_list (nocolor update : bool) (objects : list bytes) (name : bytes) : bytes :=
  let subject := name ++ plural (length objects) in
  let action := if update then B "removed" else B "obsolete" in
  let color := if update then c_green else c_yellow in
  paint nocolor color
        ([nl] ++ sym_arrow ++ dec (length objects) ++ B " snapshot " ++ subject ++ B " " ++ action ++ [nl])
  ++ concat (map (object_item nocolor) objects).

Definition hint_text (total : nat) : bytes :=
  B "To remove " ++ (if Nat.ltb 1 total then B "them" else B "it")
    ++ B ", re-run tests with `UPDATE_SNAPS=clean go test ./...`".

(* the early "return \"\"" test.  len(testEvents)==0 is on the map: a key exists iff its counter >= 1 *)
Definition sum_nothing (d : sumdata) : bool :=
  Nat.eqb (length (sd_files d)) 0 && Nat.eqb (length (sd_tests d)) 0
  && counters_zero (sd_counts d) && Nat.eqb (sd_skipped d) 0.

Definition summary (nocolor : bool) (d : sumdata) : bytes :=
  if sum_nothing d then [] else
  let c := sd_counts d in
  let total := length (sd_files d) + length (sd_tests d) in
  [nl] ++ paint nocolor c_boldwhite (B "Snapshot Summary") ++ [nl; nl]
  ++ print_event nocolor c_green sym_success (B "passed") (n_passed c)
  ++ print_event nocolor c_red sym_error (B "failed") (n_erred c)
  ++ print_event nocolor c_green sym_update (B "added") (n_added c)
  ++ print_event nocolor c_green sym_update (B "updated") (n_updated c)
  ++ print_event nocolor c_yellow sym_skip (B "skipped") (sd_skipped d)
  ++ (if Nat.ltb 0 (length (sd_files d)) then object_list nocolor (sd_update d) (sd_files d) (B "file") else [])
  ++ (if Nat.ltb 0 (length (sd_tests d)) then object_list nocolor (sd_update d) (sd_tests d) (B "test") else [])
  ++ (if negb (sd_update d) && Nat.ltb 0 total
      then paint nocolor c_dim ([nl] ++ hint_text total ++ [nl]) else []).

(* what Clean writes on stdout: fmt.Println(s) when s != "" *)
Definition clean_stdout (nocolor : bool) (d : sumdata) : bytes :=
  match summary nocolor d with [] => [] | s => s ++ [nl] end.

(* link with the Clean model *)
Definition sumdata_of_result (r : clean_result) : sumdata :=
  {| sd_files := cr_obsolete_files r; sd_tests := cr_obsolete_tests r; sd_skipped := cr_skipped r;
     sd_counts := cr_counts r; sd_update := cr_removed r |}.

(* ====================================================================== *)
(* 2. The reader (uses nothing of section 1 but the record [sumdata])       *)
(* ====================================================================== *)

Record sumread := {
  sr_files : list bytes;
  sr_tests : list bytes;
  sr_skipped : nat;
  sr_counts : counters;
  sr_wording : option bool       (* Some true: "removed"; Some false: "obsolete"; None: no list *)
}.

(* what a reader is expected to see *)
Definition sumread_of (d : sumdata) : sumread :=
  {| sr_files := sd_files d; sr_tests := sd_tests d; sr_skipped := sd_skipped d; sr_counts := sd_counts d;
     sr_wording := match sd_files d, sd_tests d with [], [] => None | _, _ => Some (sd_update d) end |}.

(* ---- ANSI stripping:  ESC '[' ... 'm'  is removed; a lone ESC is kept ---- *)
Inductive strip_state := SNorm | SEsc | SSeq.

Fixpoint strip_ansi_aux (st : strip_state) (s : bytes) : bytes :=
  match s with
  | [] => match st with SEsc => [27%N] | _ => [] end
  | c :: r =>
      match st with
      | SNorm => if N.eqb c 27 then strip_ansi_aux SEsc r else c :: strip_ansi_aux SNorm r
      | SEsc => if N.eqb c 91 then strip_ansi_aux SSeq r
                else if N.eqb c 27 then 27%N :: strip_ansi_aux SEsc r
                else 27%N :: c :: strip_ansi_aux SNorm r
      | SSeq => if N.eqb c 109 then strip_ansi_aux SNorm r else strip_ansi_aux SSeq r
      end
  end.

Definition strip_ansi (s : bytes) : bytes := strip_ansi_aux SNorm s.

(* ---- decimal numerals ---- *)
Definition digit_val (c : N) : option nat :=
  if is_digit c then Some (N.to_nat (c - 48)) else None.

Fixpoint parse_digits (acc : nat) (l : bytes) : option nat :=
  match l with
  | [] => Some acc
  | c :: r => match digit_val c with
              | Some v => parse_digits (10 * acc + v) r
              | None => None
              end
  end.

(* empty, non-digit and leading-zero numerals (other than "0") are rejected *)
Definition parse_dec (l : bytes) : option nat :=
  match l with
  | [] => None
  | c :: r => if N.eqb c 48 then (match r with [] => Some 0 | _ :: _ => None end) else parse_digits 0 l
  end.

Fixpoint span_digits (l : bytes) : bytes * bytes :=
  match l with
  | [] => ([], [])
  | c :: r => if is_digit c then let '(a, b) := span_digits r in (c :: a, b) else ([], l)
  end.

(* a numeral at the start of [s], and what follows it *)
Definition read_number (s : bytes) : option (nat * bytes) :=
  let '(ds, rest) := span_digits s in
  match parse_dec ds with Some n => Some (n, rest) | None => None end.

Fixpoint strip_prefix (p s : bytes) : option bytes :=
  match p, s with
  | [], _ => Some s
  | x :: p', y :: s' => if N.eqb x y then strip_prefix p' s' else None
  | _ :: _, [] => None
  end.

Definition r_s (n : nat) : bytes := if Nat.leb 2 n then [115%N] else [].   (* "s" iff n >= 2 *)

(* ---- counter lines ---- *)
Inductive evkind := EPassed | EFailed | EAdded | EUpdated | ESkipped.

(* glyph (3 UTF-8 bytes + space), verb, kind *)
Definition event_table : list (bytes * bytes * evkind) :=
  [ ([226; 156; 147; 32]%N, B "passed", EPassed);
    ([226; 156; 149; 32]%N, B "failed", EFailed);
    ([226; 156; 142; 32]%N, B "added", EAdded);
    ([226; 156; 142; 32]%N, B "updated", EUpdated);
    ([226; 159; 179; 32]%N, B "skipped", ESkipped) ].

Definition match_event (l : bytes) (e : bytes * bytes * evkind) : option (evkind * nat) :=
  let '(sym, verb, k) := e in
  match strip_prefix sym l with
  | None => None
  | Some r =>
      match read_number r with
      | None => None
      | Some (n, r') =>
          if Nat.leb 1 n && beq r' (B " snapshot" ++ r_s n ++ B " " ++ verb) then Some (k, n) else None
      end
  end.

Fixpoint first_some {A R : Type} (f : A -> option R) (l : list A) : option R :=
  match l with
  | [] => None
  | a :: r => match f a with Some x => Some x | None => first_some f r end
  end.

Definition classify_event (l : bytes) : option (evkind * nat) := first_some (match_event l) event_table.

(* accumulated counters: (counters, skipped); 0 = "no line seen" (a line never announces 0) *)
Definition evacc := (counters * nat)%type.
Definition evacc_zero : evacc := ({| n_erred := 0; n_added := 0; n_updated := 0; n_passed := 0 |}, 0).

Definition ev_get (k : evkind) (a : evacc) : nat :=
  match k with
  | EPassed => n_passed (fst a) | EFailed => n_erred (fst a) | EAdded => n_added (fst a)
  | EUpdated => n_updated (fst a) | ESkipped => snd a
  end.

Definition ev_set (k : evkind) (n : nat) (a : evacc) : evacc :=
  let c := fst a in
  match k with
  | EPassed => ({| n_erred := n_erred c; n_added := n_added c; n_updated := n_updated c; n_passed := n |}, snd a)
  | EFailed => ({| n_erred := n; n_added := n_added c; n_updated := n_updated c; n_passed := n_passed c |}, snd a)
  | EAdded => ({| n_erred := n_erred c; n_added := n; n_updated := n_updated c; n_passed := n_passed c |}, snd a)
  | EUpdated => ({| n_erred := n_erred c; n_added := n_added c; n_updated := n; n_passed := n_passed c |}, snd a)
  | ESkipped => (c, n)
  end.

(* consume counter lines; a second line of the same kind is an error *)
Fixpoint read_events (a : evacc) (ls : list bytes) : option (evacc * list bytes) :=
  match ls with
  | [] => Some (a, [])
  | l :: r =>
      match classify_event l with
      | None => Some (a, ls)
      | Some (k, n) => if Nat.eqb (ev_get k a) 0 then read_events (ev_set k n a) r else None
      end
  end.

(* ---- list sections ---- *)
Inductive lkind := LFile | LTest.
Definition lkind_eqb (a b : lkind) : bool :=
  match a, b with LFile, LFile | LTest, LTest => true | _, _ => false end.

(* "› N snapshot file[s]|test[s] obsolete|removed" *)
Definition parse_list_header (l : bytes) : option (lkind * nat * bool) :=
  match strip_prefix [226; 128; 186; 32]%N l with
  | None => None
  | Some r =>
      match read_number r with
      | None => None
      | Some (n, r') =>
          if Nat.leb 1 n then
            if beq r' (B " snapshot file" ++ r_s n ++ B " obsolete") then Some (LFile, n, false)
            else if beq r' (B " snapshot file" ++ r_s n ++ B " removed") then Some (LFile, n, true)
            else if beq r' (B " snapshot test" ++ r_s n ++ B " obsolete") then Some (LTest, n, false)
            else if beq r' (B " snapshot test" ++ r_s n ++ B " removed") then Some (LTest, n, true)
            else None
          else None
      end
  end.

(* "  ↳  • " *)
Definition item_prefix : bytes := [32; 32; 226; 134; 179; 32; 32; 226; 128; 162; 32]%N.

Fixpoint take_items (ls : list bytes) : list bytes * list bytes :=
  match ls with
  | [] => ([], [])
  | l :: r => match strip_prefix item_prefix l with
              | Some it => let '(its, rest) := take_items r in (it :: its, rest)
              | None => ([], ls)
              end
  end.

(* an optional section of kind [k]: blank line, header, exactly the announced number of items *)
Definition read_list (k : lkind) (ls : list bytes) : option (option (list bytes * bool) * list bytes) :=
  match ls with
  | [] :: h :: r =>
      match parse_list_header h with
      | Some (k', n, w) =>
          if lkind_eqb k k' then
            let '(its, rest) := take_items r in
            if Nat.eqb (length its) n then Some (Some (its, w), rest) else None
          else Some (None, ls)
      | None => Some (None, ls)
      end
  | _ => Some (None, ls)
  end.

Definition r_hint (total : nat) : bytes :=
  B "To remove " ++ (if Nat.leb 2 total then B "them" else B "it")
    ++ B ", re-run tests with `UPDATE_SNAPS=clean go test ./...`".

(* the reader recognises the hint by its opening words only: how the advice is worded is presentation *)
Definition r_hint_lead : bytes := B "To remove ".

Definition sec_items (s : option (list bytes * bool)) : list bytes :=
  match s with Some (x, _) => x | None => [] end.

(* the two sections must use the same wording *)
Definition join_wording (f t : option (list bytes * bool)) : option (option bool) :=
  match f, t with
  | Some (_, w1), Some (_, w2) => if Bool.eqb w1 w2 then Some (Some w1) else None
  | Some (_, w), None => Some (Some w)
  | None, Some (_, w) => Some (Some w)
  | None, None => Some None
  end.

(* file section?, test section?, a hint line ("To remove ...") exactly when the wording is "obsolete", then the two final
   empty pieces (Println's newline, and the piece after the last newline) *)
Definition read_tail (ls : list bytes) : option (list bytes * list bytes * option bool) :=
  match read_list LFile ls with
  | None => None
  | Some (f, ls1) =>
      match read_list LTest ls1 with
      | None => None
      | Some (t, ls2) =>
          match join_wording f t with
          | None => None
          | Some w =>
              let files := sec_items f in
              let tests := sec_items t in
              let ls3 :=
                match w with
                | Some false =>
                    match ls2 with
                    | [] :: h :: r => match strip_prefix r_hint_lead h with Some _ => Some r | None => None end
                    | _ => None
                    end
                | _ => Some ls2
                end in
              match ls3 with
              | Some [ []; [] ] => Some (files, tests, w)
              | _ => None
              end
          end
      end
  end.

Definition sumread_zero : sumread :=
  {| sr_files := []; sr_tests := []; sr_skipped := 0; sr_counts := fst evacc_zero; sr_wording := None |}.

(* a non-empty text: blank line, title, blank line, counter lines, sections *)
Definition read_body (text : bytes) : option sumread :=
  match split_nl (strip_ansi text) with
  | [] :: t :: [] :: rest =>
      if beq t (B "Snapshot Summary") then
        match read_events evacc_zero rest with
        | None => None
        | Some ((c, sk), rest1) =>
            match read_tail rest1 with
            | None => None
            | Some (files, tests, w) =>
                (* a printed summary always shows something *)
                if counters_zero c && Nat.eqb sk 0
                   && (match files, tests with [], [] => true | _, _ => false end)
                then None
                else Some {| sr_files := files; sr_tests := tests; sr_skipped := sk;
                             sr_counts := c; sr_wording := w |}
            end
        end
      else None
  | _ => None
  end.

(* the empty output is the all-zero summary *)
Definition read_summary (text : bytes) : option sumread :=
  match text with
  | [] => Some sumread_zero
  | _ :: _ => read_body text
  end.
