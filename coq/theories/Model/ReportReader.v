(* ReportReader: an independent, line-oriented READER of the NO_COLOR failure report
   (snaps/diff.go: buildDiffReport / getUnifiedDiff; internal/colors: FprintEqual, FprintDelete,
   FprintInsert, FprintRange in NO_COLOR mode).

   The text is

       <empty line>
       - <label> <dpad>- <deleted>       (go-snaps: <label> = "Snapshot")
       + <label> <ipad>+ <inserted>      (go-snaps: <label> = "Received")
       <empty line>
       <body>
       <empty line>
       at <name>:<line>            (only when name <> "")

   and every body line is one of
       "  " <text>  "\n"           context line
       "- " <text>  "\n"           line of the stored text
       "+ " <text>  "\n"           line of the received text
       "@@ -<range> +<range> @@" "\n" "\n"      hunk header, followed by an empty line

   The two labels are WORDING and the paddings <dpad>, <ipad> are ALIGNMENT: the reader accepts any
   label (a non-empty run of bytes other than space and newline) and any positive number of spaces
   behind it, compares them with nothing and returns neither.  What it reads of a count line is
   the mark ("-" first, "+" second) and the number.

   The reader uses NO printing function of Model/Report.v: of that file it only uses the type
   [rline] of its answer.  The numeral and prefix helpers ([parse_dec], [strip_prefix],
   [span_digits]) are those of the summary reader (Model/Summary.v, section 2).
   Definitions only; the proofs are in Proofs/ReportReaderP.v. *)
From Coq Require Import String.
From Coq Require Import List NArith Arith Bool.
Import ListNotations.
From Snaps Require Import Base.Bytes Base.Lines Base.Dec.
From Snaps Require Import Model.Report Model.ReportSpec.
From Snaps Require Import Model.Summary.

(* what a reader sees *)
Record report_read := {
  rr_del_count : nat;                 (* the number printed on the first ("-") count line *)
  rr_ins_count : nat;                 (* the number printed on the second ("+") count line *)
  rr_lines : list rline;              (* the shown lines, in order, hunk headers included *)
  rr_footer : option (bytes * nat)    (* "at <name>:<line>"; no footer is printed for name = "" *)
}.

(* the hypothesis on the file name: it contains no newline (decidable) *)
Definition name_ok (name : bytes) : bool := forallb (fun c => negb (N.eqb c 10)) name.

(* ---------- the two count lines ---------- *)

Fixpoint drop_spaces (s : bytes) : nat * bytes :=
  match s with
  | [] => (0, [])
  | c :: r => if N.eqb c 32 then let '(n, t) := drop_spaces r in (S n, t) else (0, s)
  end.

Fixpoint span_while (p : N -> bool) (s : bytes) : bytes * bytes :=
  match s with
  | [] => ([], [])
  | c :: r => if p c then let '(a, b) := span_while p r in (c :: a, b) else ([], s)
  end.

(* a label is a non-empty run of bytes other than the space and the newline.  WHICH bytes is
   wording ("Snapshot"/"Received" in go-snaps): the reader compares a label with nothing and does
   not return it *)
Definition is_label_char (c : N) : bool := negb (N.eqb c 32) && negb (N.eqb c 10).

(* "<mark> <label><spaces><mark> <numeral>"  ->  the value of the numeral.
   <mark> is one byte ("-" on the first count line, "+" on the second), <spaces> is one or more
   spaces (how many is alignment, i.e. presentation), <numeral> is what [parse_dec] accepts (no
   sign, no leading zero, nothing after it) *)
Definition read_count_line (mark : N) (l : bytes) : option nat :=
  match strip_prefix [mark; 32%N] l with
  | None => None
  | Some r =>
      let '(lbl, r0) := span_while is_label_char r in
      match lbl with
      | [] => None
      | _ :: _ =>
          let '(p, r1) := drop_spaces r0 in
          match p with
          | 0 => None
          | S _ =>
              match strip_prefix [mark; 32%N] r1 with
              | None => None
              | Some ds => parse_dec ds
              end
          end
      end
  end.

(* ---------- body lines ---------- *)

Definition is_range_char (c : N) : bool := is_digit c || N.eqb c 44.

(* "<digits>" or "<digits>,<digits>" *)
Definition is_range_spec (s : bytes) : bool :=
  let '(a, r) := span_digits s in
  match a with
  | [] => false
  | _ :: _ =>
      match r with
      | [] => true
      | c :: r' => N.eqb c 44 && (match r' with [] => false | _ :: _ => forallb is_digit r' end)
      end
  end.

Inductive line_class :=
| LBlank                          (* the empty line *)
| LText (r : rline)               (* "  ", "- " or "+ " and a text line *)
| LRange (r1 r2 : bytes)          (* "@@ -r1 +r2 @@" *)
| LBad.

(* what follows "@@ -" *)
Definition classify_range (t : bytes) : line_class :=
  let '(r1, t1) := span_while is_range_char t in
  match strip_prefix (B " +") t1 with
  | None => LBad
  | Some t2 =>
      let '(r2, t3) := span_while is_range_char t2 in
      if beq t3 (B " @@") && is_range_spec r1 && is_range_spec r2 then LRange r1 r2 else LBad
  end.

(* a text line is shown without its final newline on the line; the reader puts it back *)
Definition classify_line (l : bytes) : line_class :=
  match l with
  | [] => LBlank
  | _ :: _ =>
      match strip_prefix (B "  ") l with
      | Some t => LText (REq (t ++ [nl]))
      | None =>
          match strip_prefix (B "- ") l with
          | Some t => LText (RDel (t ++ [nl]))
          | None =>
              match strip_prefix (B "+ ") l with
              | Some t => LText (RIns (t ++ [nl]))
              | None =>
                  match strip_prefix (B "@@ -") l with
                  | Some t => classify_range t
                  | None => LBad
                  end
              end
          end
      end
  end.

(* the body up to and including the empty line that closes it; a hunk header must be followed by
   an empty line (which does not close the body) *)
Fixpoint read_body_lines (ls : list bytes) : option (list rline * list bytes) :=
  match ls with
  | [] => None
  | l :: rest =>
      match classify_line l with
      | LBlank => Some ([], rest)
      | LText r =>
          match read_body_lines rest with
          | Some (rs, t) => Some (r :: rs, t)
          | None => None
          end
      | LRange r1 r2 =>
          match rest with
          | [] :: rest' =>
              match read_body_lines rest' with
              | Some (rs, t) => Some (RRange r1 r2 :: rs, t)
              | None => None
              end
          | _ => None
          end
      | LBad => None
      end
  end.

(* ---------- footer ---------- *)

(* split at the LAST colon *)
Fixpoint split_last_colon (s : bytes) : option (bytes * bytes) :=
  match s with
  | [] => None
  | c :: r =>
      match split_last_colon r with
      | Some (a, b) => Some (c :: a, b)
      | None => if N.eqb c 58 then Some ([], r) else None
      end
  end.

(* what follows the empty line closing the body: nothing more (the final piece after the last
   newline is empty), or the footer line and nothing more *)
Definition read_footer (ls : list bytes) : option (option (bytes * nat)) :=
  match ls with
  | [ [] ] => Some None
  | [ l; [] ] =>
      match strip_prefix (B "at ") l with
      | None => None
      | Some t =>
          match split_last_colon t with
          | Some (name, ds) =>
              match name, parse_dec ds with
              | _ :: _, Some n => Some (Some (name, n))
              | _, _ => None
              end
          | None => None
          end
      end
  | _ => None
  end.

(* ---------- the report ---------- *)

Definition read_report (text : bytes) : option report_read :=
  match split_nl text with
  | [] :: h1 :: h2 :: [] :: rest =>
      match read_count_line 45%N h1, read_count_line 43%N h2 with     (* "-" and "+" *)
      | Some d, Some i =>
          match read_body_lines rest with
          | Some (r :: rs, tail) =>          (* a report never has an empty body *)
              match read_footer tail with
              | Some f => Some {| rr_del_count := d; rr_ins_count := i;
                                  rr_lines := r :: rs; rr_footer := f |}
              | None => None
              end
          | _ => None
          end
      | _, _ => None
      end
  | _ => None
  end.

(* what a reader is expected to see of prettyDiff(a, b, name, line) *)
Definition report_read_of (u : acc3) (name : bytes) (line : nat) : report_read :=
  {| rr_del_count := r_del u; rr_ins_count := r_ins u; rr_lines := r_lines u;
     rr_footer := match name with [] => None | _ :: _ => Some (name, line) end |}.
