(* ReportSpec: specification vocabulary for the report theorems (definitions only). *)
From Coq Require Import List NArith Arith Bool Lia.
Import ListNotations.
From Snaps Require Import Base.Bytes Model.Difflib Model.DifflibSpec Model.Report.

(* projections of (lines, inserted, deleted) *)
Definition r_lines (x : acc3) : list rline := fst (fst x).
Definition r_ins (x : acc3) : nat := snd (fst x).
Definition r_del (x : acc3) : nat := snd x.

Definition is_ins (r : rline) : bool := match r with RIns _ => true | _ => false end.
Definition is_del (r : rline) : bool := match r with RDel _ => true | _ => false end.

(* number of "+ " / "- " lines of a report body *)
Definition count_ins (ls : list rline) : nat := length (filter is_ins ls).
Definition count_del (ls : list rline) : nat := length (filter is_del ls).

(* the texts of the "+ " / "- " lines, in order *)
Fixpoint ins_lines (ls : list rline) : list bytes :=
  match ls with
  | [] => []
  | RIns l :: r => l :: ins_lines r
  | _ :: r => ins_lines r
  end.
Fixpoint del_lines (ls : list rline) : list bytes :=
  match ls with
  | [] => []
  | RDel l :: r => l :: del_lines r
  | _ :: r => del_lines r
  end.

(* ESC *)
Definition esc : N := 27%N.
Definition no_esc (s : bytes) : bool := forallb (fun c => negb (N.eqb c esc)) s.

(* a report line carries no ESC byte *)
Definition rline_clean (r : rline) : bool :=
  match r with
  | REq l | RDel l | RIns l => no_esc l
  | RRange r1 r2 => no_esc r1 && no_esc r2
  end.

Definition lines_clean (ls : list rline) : Prop := Forall (fun r => rline_clean r = true) ls.
