(* Json: executable model of the JSON side of go-snaps.
     - [parse]/[valid]     : gjson.Valid (gjson.go validpayload/validany/...), building an AST
                             whose scalars keep their RAW bytes;
     - [pretty]/[snapshot_json] : tidwall/pretty PrettyOptions with Prefix "" (pretty.go
                             appendPrettyAny/appendPrettyObject/sortPairs) and takeJSONSnapshot;
     - [get]/[set]         : gjson.Get / sjson.Set restricted to simple dotted paths on
                             existing values (what match.Any/Type/Custom do).
   Definitions only; lemmas are in Proofs/JsonP.v. *)
From Coq Require Import String.
From Coq Require Import List NArith Arith Bool.
Import ListNotations.
From Snaps Require Import Base.Bytes Base.Lines.

(* ------------------------------------------------------------------ *)
(* AST with raw scalars                                                 *)

Inductive jv : Type :=
| JNull
| JTrue
| JFalse
| JNum (raw : bytes)                (* the number token *)
| JStr (raw : bytes)                (* bytes between the quotes, escapes untouched *)
| JArr (l : list jv)
| JObj (m : list (bytes * jv)).     (* raw key bytes between the quotes *)

(* ------------------------------------------------------------------ *)
(* character classes                                                    *)

Definition c_quote : N := 34%N.   (* double quote *)
Definition c_bslash : N := 92%N.  (* '\' *)
Definition c_comma : N := 44%N.
Definition c_colon : N := 58%N.
Definition c_lbrack : N := 91%N.
Definition c_rbrack : N := 93%N.
Definition c_lbrace : N := 123%N.
Definition c_rbrace : N := 125%N.
Definition c_minus : N := 45%N.
Definition c_space : N := 32%N.

(* gjson: case ' ', '\t', '\n', '\r' *)
Definition is_ws (c : N) : bool :=
  N.eqb c 32 || N.eqb c 9 || N.eqb c 10 || N.eqb c 13.
Definition is_dig (c : N) : bool := N.leb 48 c && N.leb c 57.
Definition is_hex (c : N) : bool :=
  is_dig c || (N.leb 97 c && N.leb c 102) || (N.leb 65 c && N.leb c 70).
(* validstring: the one-character escapes: quote, backslash, slash, b f n r t *)
Definition is_esc1 (c : N) : bool :=
  N.eqb c 34 || N.eqb c 92 || N.eqb c 47 || N.eqb c 98 || N.eqb c 102 ||
  N.eqb c 110 || N.eqb c 114 || N.eqb c 116.

Fixpoint skip_ws (s : bytes) : bytes :=
  match s with
  | c :: r => if is_ws c then skip_ws r else s
  | [] => []
  end.

Fixpoint span_dig (s : bytes) : bytes * bytes :=
  match s with
  | c :: r => if is_dig c then let (d, t) := span_dig r in (c :: d, t) else ([], s)
  | [] => ([], [])
  end.

Fixpoint strip_prefix (p s : bytes) : option bytes :=
  match p, s with
  | [], _ => Some s
  | x :: p', y :: s' => if N.eqb x y then strip_prefix p' s' else None
  | _ :: _, [] => None
  end.

(* ------------------------------------------------------------------ *)
(* tokens                                                               *)

(* validstring; input = bytes after the opening quote;
   result = (raw bytes between the quotes, rest after the closing quote) *)
Fixpoint scan_str (s : bytes) : option (bytes * bytes) :=
  match s with
  | [] => None
  | c :: r =>
      if N.ltb c 32 then None
      else if N.eqb c c_quote then Some ([], r)
      else if N.eqb c c_bslash then
        match r with
        | [] => None
        | e :: r2 =>
            if is_esc1 e then
              match scan_str r2 with
              | Some (raw, rest) => Some (c :: e :: raw, rest)
              | None => None
              end
            else if N.eqb e 117 then
              match r2 with
              | h1 :: h2 :: h3 :: h4 :: r3 =>
                  if is_hex h1 && is_hex h2 && is_hex h3 && is_hex h4 then
                    match scan_str r3 with
                    | Some (raw, rest) => Some (c :: e :: h1 :: h2 :: h3 :: h4 :: raw, rest)
                    | None => None
                    end
                  else None
              | _ => None
              end
            else None
        end
      else
        match scan_str r with
        | Some (raw, rest) => Some (c :: raw, rest)
        | None => None
        end
  end.

(* validnumber, by parts *)
Definition scan_digits1 (s : bytes) : option (bytes * bytes) :=
  match s with
  | c :: r => if is_dig c then let (d, t) := span_dig r in Some (c :: d, t) else None
  | [] => None
  end.

Definition scan_int (s : bytes) : option (bytes * bytes) :=
  match s with
  | c :: r => if N.eqb c 48 then Some ([c], r) else scan_digits1 s
  | [] => None
  end.

Definition scan_frac (s : bytes) : option (bytes * bytes) :=
  match s with
  | c :: r =>
      if N.eqb c 46 then
        match scan_digits1 r with
        | Some (d, t) => Some (c :: d, t)
        | None => None
        end
      else Some ([], s)
  | [] => Some ([], [])
  end.

Definition scan_sign (s : bytes) : bytes * bytes :=
  match s with
  | c :: r => if N.eqb c 43 || N.eqb c 45 then ([c], r) else ([], s)
  | [] => ([], [])
  end.

Definition scan_exp (s : bytes) : option (bytes * bytes) :=
  match s with
  | c :: r =>
      if N.eqb c 101 || N.eqb c 69 then
        let (sg, r') := scan_sign r in
        match scan_digits1 r' with
        | Some (d, t) => Some (c :: sg ++ d, t)
        | None => None
        end
      else Some ([], s)
  | [] => Some ([], [])
  end.

Definition scan_minus (s : bytes) : bytes * bytes :=
  match s with
  | c :: r => if N.eqb c c_minus then ([c], r) else ([], s)
  | [] => ([], [])
  end.

Definition scan_num (s : bytes) : option (bytes * bytes) :=
  let (sg, s1) := scan_minus s in
  match scan_int s1 with
  | None => None
  | Some (i, s2) =>
      match scan_frac s2 with
      | None => None
      | Some (f, s3) =>
          match scan_exp s3 with
          | None => None
          | Some (e, s4) => Some (sg ++ i ++ f ++ e, s4)
          end
      end
  end.

(* ------------------------------------------------------------------ *)
(* the validator as a parser                                            *)

(* validarray after the first element: ws then ']' or ',' value ... *)
Fixpoint parse_elems (pv : bytes -> option (jv * bytes)) (fuel : nat) (s : bytes)
  : option (list jv * bytes) :=
  match fuel with
  | O => None
  | S f =>
      match skip_ws s with
      | c :: r =>
          if N.eqb c c_rbrack then Some ([], r)
          else if N.eqb c c_comma then
            match pv r with
            | Some (v, r') =>
                match parse_elems pv f r' with
                | Some (l, r'') => Some (v :: l, r'')
                | None => None
                end
            | None => None
            end
          else None
      | [] => None
      end
  end.

(* ws quote key quote ws colon value *)
Definition parse_member (pv : bytes -> option (jv * bytes)) (s : bytes)
  : option ((bytes * jv) * bytes) :=
  match skip_ws s with
  | c :: r =>
      if N.eqb c c_quote then
        match scan_str r with
        | Some (k, r1) =>
            match skip_ws r1 with
            | c2 :: r2 =>
                if N.eqb c2 c_colon then
                  match pv r2 with
                  | Some (v, r3) => Some ((k, v), r3)
                  | None => None
                  end
                else None
            | [] => None
            end
        | None => None
        end
      else None
  | [] => None
  end.

(* validobject after the first member: ws then '}' or ',' member ... *)
Fixpoint parse_members (pv : bytes -> option (jv * bytes)) (fuel : nat) (s : bytes)
  : option (list (bytes * jv) * bytes) :=
  match fuel with
  | O => None
  | S f =>
      match skip_ws s with
      | c :: r =>
          if N.eqb c c_rbrace then Some ([], r)
          else if N.eqb c c_comma then
            match parse_member pv r with
            | Some (m, r') =>
                match parse_members pv f r' with
                | Some (l, r'') => Some (m :: l, r'')
                | None => None
                end
            | None => None
            end
          else None
      | [] => None
      end
  end.

(* validany: leading whitespace, then one value; returns the rest of the input.
   None = invalid or out of fuel (fuel >= length s always suffices, see JsonP.parse_val_fuel). *)
Fixpoint parse_val (fuel : nat) (s : bytes) : option (jv * bytes) :=
  match fuel with
  | O => None
  | S f =>
      match skip_ws s with
      | [] => None
      | c :: r =>
          if N.eqb c c_lbrace then
            match skip_ws r with
            | c2 :: r2 =>
                if N.eqb c2 c_rbrace then Some (JObj [], r2)
                else
                  match parse_member (parse_val f) r with
                  | Some (m, r') =>
                      match parse_members (parse_val f) f r' with
                      | Some (l, r'') => Some (JObj (m :: l), r'')
                      | None => None
                      end
                  | None => None
                  end
            | [] => None
            end
          else if N.eqb c c_lbrack then
            match skip_ws r with
            | c2 :: r2 =>
                if N.eqb c2 c_rbrack then Some (JArr [], r2)
                else
                  match parse_val f r with
                  | Some (v, r') =>
                      match parse_elems (parse_val f) f r' with
                      | Some (l, r'') => Some (JArr (v :: l), r'')
                      | None => None
                      end
                  | None => None
                  end
            | [] => None
            end
          else if N.eqb c c_quote then
            match scan_str r with
            | Some (raw, r') => Some (JStr raw, r')
            | None => None
            end
          else if N.eqb c c_minus || is_dig c then
            match scan_num (c :: r) with
            | Some (raw, r') => Some (JNum raw, r')
            | None => None
            end
          else if N.eqb c 116 then
            match strip_prefix (B "rue") r with Some r' => Some (JTrue, r') | None => None end
          else if N.eqb c 102 then
            match strip_prefix (B "alse") r with Some r' => Some (JFalse, r') | None => None end
          else if N.eqb c 110 then
            match strip_prefix (B "ull") r with Some r' => Some (JNull, r') | None => None end
          else None
      end
  end.

(* validpayload: one value, then only whitespace *)
Definition parse (fuel : nat) (s : bytes) : option jv :=
  match parse_val fuel s with
  | Some (v, r) => match skip_ws r with [] => Some v | _ :: _ => None end
  | None => None
  end.

Definition is_some {A : Type} (o : option A) : bool :=
  match o with Some _ => true | None => false end.

(* gjson.Valid / gjson.ValidBytes *)
Definition valid (s : bytes) : bool := is_some (parse (S (length s)) s).

(* ------------------------------------------------------------------ *)
(* string decoding (needed for key ordering and key lookup)             *)

Definition hexval (c : N) : N :=
  if is_dig c then (c - 48)%N
  else if N.leb 97 c then (c - 87)%N
  else (c - 55)%N.

(* four hex digits -> code unit; None if one of them is not a hex digit *)
Definition hex4 (a b c d : N) : option N :=
  if is_hex a && is_hex b && is_hex c && is_hex d
  then Some (((hexval a * 16 + hexval b) * 16 + hexval c) * 16 + hexval d)%N
  else None.

Definition is_surrogate (r : N) : bool := N.leb 55296 r && N.ltb r 57344.
Definition replacement_char : N := 65533%N.

(* utf16.DecodeRune *)
Definition utf16_pair (r1 r2 : N) : N :=
  if N.leb 55296 r1 && N.ltb r1 56320 && N.leb 56320 r2 && N.ltb r2 57344
  then ((r1 - 55296) * 1024 + (r2 - 56320) + 65536)%N
  else replacement_char.

(* utf8.EncodeRune *)
Definition utf8_encode (r : N) : bytes :=
  if N.leb r 127 then [r]
  else if N.leb r 2047 then [(192 + r / 64)%N; (128 + r mod 64)%N]
  else if is_surrogate r || N.ltb 1114111 r then [239%N; 191%N; 189%N]
  else if N.leb r 65535 then
    [(224 + r / 4096)%N; (128 + (r / 64) mod 64)%N; (128 + r mod 64)%N]
  else
    [(240 + r / 262144)%N; (128 + (r / 4096) mod 64)%N;
     (128 + (r / 64) mod 64)%N; (128 + r mod 64)%N].

Definition in_range (lo hi c : N) : bool := N.leb lo c && N.leb c hi.
Definition is_cont (c : N) : bool := in_range 128 191 c.

(* utf8.DecodeRune: length of the well-formed sequence at the head of [s], 0 if ill-formed *)
Definition utf8_len (s : bytes) : nat :=
  match s with
  | [] => O
  | b0 :: r =>
      if in_range 194 223 b0 then
        match r with b1 :: _ => if is_cont b1 then 2 else 0 | _ => 0 end
      else if in_range 224 239 b0 then
        match r with
        | b1 :: b2 :: _ =>
            if (if N.eqb b0 224 then in_range 160 191 b1
                else if N.eqb b0 237 then in_range 128 159 b1
                else is_cont b1) && is_cont b2 then 3 else 0
        | _ => 0
        end
      else if in_range 240 244 b0 then
        match r with
        | b1 :: b2 :: b3 :: _ =>
            if (if N.eqb b0 240 then in_range 144 191 b1
                else if N.eqb b0 244 then in_range 128 143 b1
                else is_cont b1) && is_cont b2 && is_cont b3 then 4 else 0
        | _ => 0
        end
      else 0
  end.

(* the escape of a one-character escape *)
Definition esc1_byte (e : N) : N :=
  if N.eqb e 98 then 8%N          (* \b *)
  else if N.eqb e 102 then 12%N   (* \f *)
  else if N.eqb e 110 then 10%N   (* \n *)
  else if N.eqb e 114 then 13%N   (* \r *)
  else if N.eqb e 116 then 9%N    (* \t *)
  else e.                         (* quote, backslash, slash *)

(* encoding/json unquoteBytes on the bytes between the quotes.
   [skip] = number of continuation bytes of an already accepted UTF-8 sequence still to copy. *)
Fixpoint go_unquote_aux (skip : nat) (s : bytes) : option bytes :=
  match s with
  | [] => Some []
  | c :: r =>
      match skip with
      | S k => option_map (cons c) (go_unquote_aux k r)
      | O =>
          if N.eqb c c_bslash then
            match r with
            | [] => None
            | e :: r2 =>
                if is_esc1 e || N.eqb e 39 then
                  option_map (cons (esc1_byte e)) (go_unquote_aux O r2)
                else if N.eqb e 117 then
                  match r2 with
                  | h1 :: h2 :: h3 :: h4 :: r3 =>
                      match hex4 h1 h2 h3 h4 with
                      | None => None
                      | Some rr =>
                          if is_surrogate rr then
                            match r3 with
                            | b :: u :: g1 :: g2 :: g3 :: g4 :: r4 =>
                                match (if N.eqb b c_bslash && N.eqb u 117
                                       then hex4 g1 g2 g3 g4 else None) with
                                | Some rr1 =>
                                    if N.eqb (utf16_pair rr rr1) replacement_char
                                    then option_map (app (utf8_encode replacement_char))
                                                    (go_unquote_aux O r3)
                                    else option_map (app (utf8_encode (utf16_pair rr rr1)))
                                                    (go_unquote_aux O r4)
                                | None => option_map (app (utf8_encode replacement_char))
                                                     (go_unquote_aux O r3)
                                end
                            | _ => option_map (app (utf8_encode replacement_char))
                                              (go_unquote_aux O r3)
                            end
                          else option_map (app (utf8_encode rr)) (go_unquote_aux O r3)
                      end
                  | _ => None
                  end
                else None
            end
          else if N.eqb c c_quote || N.ltb c 32 then None
          else if N.ltb c 128 then option_map (cons c) (go_unquote_aux O r)
          else
            match utf8_len s with
            | O => option_map (app (utf8_encode replacement_char)) (go_unquote_aux O r)
            | S k => option_map (cons c) (go_unquote_aux k r)
            end
      end
  end.

Definition go_unquote (raw : bytes) : option bytes := go_unquote_aux O raw.

(* gjson unescape (gjson.go): stops silently at malformed input, keeps raw bytes >= 0x80 *)
Definition hex4_or0 (a b c d : N) : N :=
  match hex4 a b c d with Some r => r | None => 0%N end.

Fixpoint gjson_unescape (s : bytes) : bytes :=
  match s with
  | [] => []
  | c :: r =>
      if N.ltb c 32 then []
      else if N.eqb c c_bslash then
        match r with
        | [] => []
        | e :: r2 =>
            if is_esc1 e then esc1_byte e :: gjson_unescape r2
            else if N.eqb e 117 then
              match r2 with
              | h1 :: h2 :: h3 :: h4 :: r3 =>
                  let rr := hex4_or0 h1 h2 h3 h4 in
                  if is_surrogate rr then
                    match r3 with
                    | b :: u :: g1 :: g2 :: g3 :: g4 :: r4 =>
                        if N.eqb b c_bslash && N.eqb u 117
                        then utf8_encode (utf16_pair rr (hex4_or0 g1 g2 g3 g4)) ++ gjson_unescape r4
                        else utf8_encode rr ++ gjson_unescape r3
                    | _ => utf8_encode rr ++ gjson_unescape r3
                    end
                  else utf8_encode rr ++ gjson_unescape r3
              | _ => []
              end
            else []
        end
      else c :: gjson_unescape r
  end.

Definition has_bslash (s : bytes) : bool := existsb (N.eqb c_bslash) s.

(* pretty.go parsestr on a key token: raw bytes unless the key contains a backslash, in which
   case json.Unmarshal decodes it (the zero value "" if that fails) *)
Definition sort_key (raw : bytes) : bytes :=
  if has_bslash raw then match go_unquote raw with Some d => d | None => [] end else raw.

(* gjson parseObject: the key compared with a path component *)
Definition path_key (raw : bytes) : bytes :=
  if has_bslash raw then gjson_unescape raw else raw.

(* ------------------------------------------------------------------ *)
(* key sorting: sort.Stable with byKeyVal.Less                          *)

(* Less on keys only.  When two keys decode to the same string the Go code goes on to compare
   the printed VALUES (by JSON type, then string / float64 / raw text); the model treats such
   members as equal (stable), which is exact under [distinct_keys]. *)
Definition member_ltb (a b : bytes * jv) : bool :=
  bytes_ltb (sort_key (fst a)) (sort_key (fst b)).

Fixpoint insert_member (x : bytes * jv) (l : list (bytes * jv)) : list (bytes * jv) :=
  match l with
  | [] => [x]
  | y :: r => if member_ltb y x then y :: insert_member x r else x :: l
  end.

Definition sort_members (m : list (bytes * jv)) : list (bytes * jv) :=
  fold_right insert_member [] m.

Fixpoint sort_v (v : jv) : jv :=
  match v with
  | JArr l => JArr (map sort_v l)
  | JObj m => JObj (sort_members (map (fun kv : bytes * jv => let (k, x) := kv in (k, sort_v x)) m))
  | _ => v
  end.

Definition sort_child (kv : bytes * jv) : bytes * jv := let (k, x) := kv in (k, sort_v x).

Definition sort_if (sort_keys : bool) (v : jv) : jv := if sort_keys then sort_v v else v.

Fixpoint nodup_bytes (l : list bytes) : bool :=
  match l with
  | [] => true
  | x :: r => negb (mem_bytes x r) && nodup_bytes r
  end.

(* no object has two members whose keys decode (for sorting) to the same string *)
Fixpoint distinct_keys (v : jv) : bool :=
  match v with
  | JArr l => forallb distinct_keys l
  | JObj m => nodup_bytes (map (fun kv : bytes * jv => sort_key (fst kv)) m) &&
              forallb (fun kv : bytes * jv => let (_, x) := kv in distinct_keys x) m
  | _ => true
  end.

(* ------------------------------------------------------------------ *)
(* pretty printing                                                      *)

Definition quote (raw : bytes) : bytes := c_quote :: raw ++ [c_quote].

Definition join_sep (sep : bytes) (parts : list bytes) : bytes :=
  match parts with
  | [] => []
  | a :: r => a ++ flat_map (fun b => sep ++ b) r
  end.

Fixpoint seq_opt (l : list (option bytes)) : option (list bytes) :=
  match l with
  | [] => Some []
  | Some a :: r => match seq_opt r with Some b => Some (a :: b) | None => None end
  | None :: _ => None
  end.

(* appendPrettyObject with pretty=false, max <> -1: [1, 2, [3]]; any object makes it fail *)
Fixpoint oneline (v : jv) : option bytes :=
  match v with
  | JNull => Some (B "null")
  | JTrue => Some (B "true")
  | JFalse => Some (B "false")
  | JNum raw => Some raw
  | JStr raw => Some (quote raw)
  | JObj _ => None
  | JArr l =>
      match seq_opt (map oneline l) with
      | Some parts => Some (c_lbrack :: join_sep (B ", ") parts ++ [c_rbrack])
      | None => None
      end
  end.

(* appendTabs with the empty prefix *)
Definition tabs (indent : bytes) (n : nat) : bytes := concat (repeat indent n).

(* the single-line attempt: max := width - (len(buf) - nl); tried when width > 0 and max > 3,
   accepted when the line is at most max bytes long; [col] = len(buf) - nl *)
Definition single_line (width col : nat) (o : option bytes) : option bytes :=
  if Nat.ltb (col + 3) width then
    match o with
    | Some s => if Nat.leb (length s) (width - col) then Some s else None
    | None => None
    end
  else None.

(* appendPrettyAny in pretty mode at nesting [depth]; [col] = len(buf) - nl when the value starts.
   No sorting here: see [sort_if]. *)
Fixpoint pretty_v (width : nat) (indent : bytes) (depth col : nat) (v : jv) {struct v} : bytes :=
  match v with
  | JNull => B "null"
  | JTrue => B "true"
  | JFalse => B "false"
  | JNum raw => raw
  | JStr raw => quote raw
  | JArr l =>
      match single_line width col (oneline (JArr l)) with
      | Some s => s
      | None =>
          match l with
          | [] => B "[]"
          | x :: r =>
              let d := S depth in
              let ind := nl :: tabs indent d in
              c_lbrack :: ind ++ pretty_v width indent d (1 + d * length indent) x ++
              flat_map (fun y => c_comma :: ind ++
                                 pretty_v width indent d (d * length indent) y) r ++
              nl :: tabs indent depth ++ [c_rbrack]
          end
      end
  | JObj m =>
      match m with
      | [] => B "{}"
      | (k, x) :: r =>
          let d := S depth in
          let ind := nl :: tabs indent d in
          c_lbrace :: ind ++ quote k ++ B ": " ++
          pretty_v width indent d (1 + d * length indent + length k + 4) x ++
          flat_map (fun kv : bytes * jv =>
                      let (k', y) := kv in
                      c_comma :: ind ++ quote k' ++ B ": " ++
                      pretty_v width indent d (1 + d * length indent + length k' + 4) y) r ++
          nl :: tabs indent depth ++ [c_rbrace]
      end
  end.

(* pretty.PrettyOptions(s, &Options{Width, Prefix: "", Indent, SortKeys}) on valid input.
   go-snaps only calls it after validateJSON succeeded; on invalid input the model returns the empty string. *)
Definition pretty (width : nat) (indent : bytes) (sort_keys : bool) (s : bytes) : bytes :=
  match parse (S (length s)) s with
  | Some v => pretty_v width indent 0 0 (sort_if sort_keys v) ++ [nl]
  | None => []
  end.

(* takeJSONSnapshot: strings.TrimSuffix(pretty, newline) *)
Definition snapshot_json (width : nat) (indent : bytes) (sort_keys : bool) (s : bytes) : bytes :=
  trim_one_nl (pretty width indent sort_keys s).

(* defaultPrettyJSONOptions = {SortKeys: true, Indent: one space} (Width 0) *)
Definition default_indent : bytes := [c_space].
Definition snapshot_json_default (s : bytes) : bytes := snapshot_json 0 default_indent true s.

(* ------------------------------------------------------------------ *)
(* simple paths                                                         *)

Inductive pstep : Type :=
| PKey (k : bytes)    (* object member whose decoded key is k (first one) *)
| PIdx (i : nat).     (* array element *)

Definition key_is (k raw : bytes) : bool := beq k (path_key raw).

Fixpoint find_member (k : bytes) (m : list (bytes * jv)) : option jv :=
  match m with
  | [] => None
  | (k', x) :: r => if key_is k k' then Some x else find_member k r
  end.

Definition step_get (v : jv) (st : pstep) : option jv :=
  match st, v with
  | PKey k, JObj m => find_member k m
  | PIdx i, JArr l => nth_error l i
  | _, _ => None
  end.

Fixpoint get (v : jv) (p : list pstep) : option jv :=
  match p with
  | [] => Some v
  | st :: p' =>
      match step_get v st with
      | Some x => get x p'
      | None => None
      end
  end.

(* apply [f] to the value of the first member matching [k] *)
Fixpoint upd_member (f : jv -> option jv) (k : bytes) (m : list (bytes * jv))
  : option (list (bytes * jv)) :=
  match m with
  | [] => None
  | (k', x) :: r =>
      if key_is k k' then
        match f x with Some y => Some ((k', y) :: r) | None => None end
      else
        match upd_member f k r with Some r' => Some ((k', x) :: r') | None => None end
  end.

Fixpoint upd_nth (f : jv -> option jv) (i : nat) (l : list jv) : option (list jv) :=
  match l, i with
  | [], _ => None
  | x :: r, O => match f x with Some y => Some (y :: r) | None => None end
  | x :: r, S j => match upd_nth f j r with Some r' => Some (x :: r') | None => None end
  end.

(* replace the EXISTING value at path [p] by [x] *)
Fixpoint set (v : jv) (p : list pstep) (x : jv) : option jv :=
  match p with
  | [] => Some x
  | st :: p' =>
      match st, v with
      | PKey k, JObj m =>
          match upd_member (fun y => set y p' x) k m with
          | Some m' => Some (JObj m')
          | None => None
          end
      | PIdx i, JArr l =>
          match upd_nth (fun y => set y p' x) i l with
          | Some l' => Some (JArr l')
          | None => None
          end
      | _, _ => None
      end
  end.

(* ------------------------------------------------------------------ *)
(* reading a gjson/sjson path of the simple kind: components separated by '.', '\' escapes
   the next byte; any other path syntax is rejected (None)                                   *)

Definition is_path_special (c : N) : bool :=
  N.eqb c 124 (* | *) || N.eqb c 35 (* # *) || N.eqb c 64 (* @ *) || N.eqb c 42 (* * *) ||
  N.eqb c 63 (* ? *) || N.eqb c 33 (* ! *) || N.eqb c 91 || N.eqb c 93 || N.eqb c 123 ||
  N.eqb c 125 || N.eqb c 40 || N.eqb c 41 || N.eqb c 58 (* : *) || N.eqb c 44 ||
  N.eqb c 61 || N.eqb c 60 || N.eqb c 62 || N.eqb c 37 || N.eqb c 126.

(* [cur] = current component, reversed *)
Fixpoint path_comps_aux (cur : bytes) (s : bytes) : option (list bytes) :=
  match s with
  | [] => Some [rev cur]
  | c :: r =>
      if N.eqb c c_bslash then
        match r with
        | e :: r2 => path_comps_aux (e :: cur) r2
        | [] => Some [rev cur]
        end
      else if N.eqb c 46 then option_map (cons (rev cur)) (path_comps_aux [] r)
      else if is_path_special c then None
      else path_comps_aux (c :: cur) r
  end.

Definition path_comps (path : bytes) : option (list bytes) :=
  match path with
  | [] => None                 (* sjson: path cannot be empty *)
  | _ :: _ => path_comps_aux [] path
  end.

(* gjson parseUint *)
Fixpoint dec_value (acc : nat) (s : bytes) : option nat :=
  match s with
  | [] => Some acc
  | c :: r => if is_dig c then dec_value (acc * 10 + N.to_nat (c - 48)) r else None
  end.
Definition comp_index (c : bytes) : option nat :=
  match c with [] => None | _ :: _ => dec_value 0 c end.

(* resolve path components against a document: in an array a numeric component is an index *)
Fixpoint steps_of (v : jv) (comps : list bytes) : list pstep :=
  match comps with
  | [] => []
  | c :: rest =>
      let st := match v with
                | JArr _ => match comp_index c with Some i => PIdx i | None => PKey c end
                | _ => PKey c
                end in
      st :: match step_get v st with
            | Some x => steps_of x rest
            | None => map PKey rest
            end
  end.

(* match.Any(path).Placeholder(x) on a document, at the level of texts:
   None = matcher error (invalid document/value, non-simple path or missing path) *)
Definition set_path_text (doc path value : bytes) : option bytes :=
  match parse (S (length doc)) doc, parse (S (length value)) value, path_comps path with
  | Some v, Some x, Some comps =>
      match set v (steps_of v comps) x with
      | Some v' => Some (pretty_v 0 default_indent 0 0 (sort_if true v'))
      | None => None
      end
  | _, _, _ => None
  end.
