(* ScriptGen: a GENERIC edit-script layer for the diff report (definitions only, executable).

   [Model/Difflib.v] models ONE way of choosing a line edit script (the Go sequenceMatcher,
   auto-junk heuristic included).  Everything property C13 says about the report is true of ANY
   valid edit script.  This file gives
   - [valid_script a b ops] : an executable checker of "ops is a valid edit script from a to b";
   - [groups_of_script], [unified_of_script], [report_of_script] : the hunks, the structured
     report and the printed report computed from an ARBITRARY script, by the same functions
     ([grouped_of_codes], [group_lines], [render_nocolor]) the model of the Go code uses.
   The theorems are in [Proofs/ScriptGenP.v].

   Validity.  [ops] is valid for [a], [b] when
   - it tiles [0,|a|) x [0,|b|) contiguously: the first opcode starts at (0,0), each opcode
     starts where the previous one ended (in both coordinates), the last one ends at (|a|,|b|);
   - every opcode has the shape of its tag:
       Equal   : i1 < i2, j1 < j2, i2 - i1 = j2 - j1 and a[i1:i2] = b[j1:j2] (line by line, [beq]);
       Insert  : i1 = i2 and j1 < j2;
       Delete  : i1 < i2 and j1 = j2;
       Replace : i1 < i2 and j1 < j2.
   The empty script: it is valid exactly when both sequences are empty.  That is exactly what the
   Go code produces there: getOpCodes iterates over the matching blocks, which for two empty
   sequences are just the sentinel {0,0,0}; the sentinel yields neither a gap opcode (tag = 0)
   nor an Equal opcode (size = 0), so the result is the empty slice (the model agrees:
   [DifflibP.opcodes_tile_nil]).  No opcode of the form {Equal,0,0,0,0} is ever emitted by
   /repo/internal/difflib/difflib.go, so no sentinel case has to be accepted; the made-up
   {Equal,0,1,0,1} of GetGroupedOpCodes is internal to grouping ([grouped_of_codes]) and never
   reaches a group ([DifflibP.grouped_of_codes_nil]).  (In go-snaps the two sequences come from
   splitNewlines and are never empty.) *)
From Coq Require Import List NArith Arith Bool.
Import ListNotations.
From Snaps Require Import Base.Bytes Model.Difflib Model.Report.

(* equality of two line sequences, line by line with the development's byte-list equality *)
Fixpoint lines_beq (x y : list line) : bool :=
  match x, y with
  | [], [] => true
  | l :: x', m :: y' => beq l m && lines_beq x' y'
  | _, _ => false
  end.

(* shape of one opcode, as a boolean ([DifflibSpec.op_wf]) *)
Definition op_wf_b (a b : list line) (c : opcode) : bool :=
  match op_tag c with
  | Equal =>
      (i1 c <? i2 c) && (j1 c <? j2 c) && (i2 c - i1 c =? j2 c - j1 c)
      && lines_beq (slice a (i1 c) (i2 c)) (slice b (j1 c) (j2 c))
  | Insert => (i1 c =? i2 c) && (j1 c <? j2 c)
  | Delete => (i1 c <? i2 c) && (j1 c =? j2 c)
  | Replace => (i1 c <? i2 c) && (j1 c <? j2 c)
  end.

(* the opcodes tile the rectangle from (i,j) to (ie,je) ([DifflibSpec.tiles]) *)
Fixpoint tiles_b (i j : nat) (ops : list opcode) (ie je : nat) : bool :=
  match ops with
  | [] => (i =? ie) && (j =? je)
  | c :: r => (i1 c =? i) && (j1 c =? j) && tiles_b (i2 c) (j2 c) r ie je
  end.

Definition valid_script (a b : list line) (ops : list opcode) : bool :=
  tiles_b 0 0 ops (List.length a) (List.length b) && forallb (op_wf_b a b) ops.

(* GetGroupedOpCodes(context) of an arbitrary script *)
Definition groups_of_script (ops : list opcode) : list (list opcode) :=
  grouped_of_codes context ops.

(* getUnifiedDiff as a structure, from the line sequences and an arbitrary script:
   [Report.unified_nocolor] with [grouped_of_codes context ops] in place of
   [grouped_opcodes context al bl] (same show_range rule) *)
Definition unified_of_script (al bl : list bytes) (ops : list opcode) : acc3 :=
  let show_range := (10 <? List.length al) || (10 <? List.length bl) in
  fold_right (fun g acc => acc_add (group_lines show_range al bl g) acc) ([], 0, 0)
             (groups_of_script ops).

(* prettyDiff(expected, received, name, line) with colors.NOCOLOR = true, from an arbitrary script
   of the two line sequences *)
Definition report_of_script (expected received : bytes) (ops : list opcode) (name : bytes)
           (line : nat) : bytes :=
  if beq expected received then []
  else render_nocolor
         (unified_of_script (split_newlines expected) (split_newlines received) ops) name line.

(* ---------- the number of context lines as a parameter ----------

   [context] (= 3 in snaps/diff.go) is presentation: it decides how many unchanged lines are shown
   around a change and where hunks are cut, nothing else.  The functions above are the
   [n := context] instances of the following ones ([ScriptGenP.groups_of_script_n_context],
   [unified_of_script_n_context], [report_of_script_n_context], all by computation). *)

(* GetGroupedOpCodes(n) of an arbitrary script *)
Definition groups_of_script_n (n : nat) (ops : list opcode) : list (list opcode) :=
  grouped_of_codes n ops.

Definition unified_of_script_n (n : nat) (al bl : list bytes) (ops : list opcode) : acc3 :=
  let show_range := (10 <? List.length al) || (10 <? List.length bl) in
  fold_right (fun g acc => acc_add (group_lines show_range al bl g) acc) ([], 0, 0)
             (groups_of_script_n n ops).

Definition report_of_script_n (n : nat) (expected received : bytes) (ops : list opcode)
           (name : bytes) (line : nat) : bytes :=
  if beq expected received then []
  else render_nocolor
         (unified_of_script_n n (split_newlines expected) (split_newlines received) ops) name line.
