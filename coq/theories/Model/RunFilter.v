(* RunFilter: go-snaps' use of the -run pattern and of the skip list in Clean (snaps/skip.go).
   regexp.MatchString is modelled for the pattern class  alt ('|' alt)*,  alt = ['^'] literal ['$'],
   literal = bytes without regexp metacharacters (so `/`-separated multi-level patterns are literals
   here: go-snaps matches the WHOLE pattern against the whole id "name - k"). *)
From Coq Require Import String.
From Coq Require Import List NArith Arith Bool.
Import ListNotations.
From Snaps Require Import Base.Bytes Base.Lines Base.Dec Base.Assoc.
From Snaps Require Import Model.PathModel Model.Api Model.Natural Model.Clean.

Record alt := { a_start : bool; a_lit : bytes; a_end : bool }.

Definition bar : N := 124%N.
Definition caret : N := 94%N.
Definition dollar : N := 36%N.

Fixpoint split_bar (s : bytes) : list bytes :=
  match s with
  | [] => [[]]
  | c :: r =>
      if N.eqb c bar then [] :: split_bar r
      else match split_bar r with l :: ls => (c :: l) :: ls | [] => [[c]] end
  end.

Definition parse_alt (s : bytes) : alt :=
  let (st, s1) := match s with c :: r => if N.eqb c caret then (true, r) else (false, s) | [] => (false, []) end in
  let (en, s2) := match rev s1 with c :: r => if N.eqb c dollar then (true, rev r) else (false, s1) | [] => (false, []) end in
  {| a_start := st; a_lit := s2; a_end := en |}.

Definition parse_pattern (p : bytes) : list alt := map parse_alt (split_bar p).

Definition alt_match (a : alt) (s : bytes) : bool :=
  match a_start a, a_end a with
  | true, true => beq (a_lit a) s
  | true, false => is_prefix (a_lit a) s
  | false, true => is_suffix (a_lit a) s
  | false, false => contains (a_lit a) s
  end.

(* regexp.MatchString(pattern, s) for the class; the empty pattern matches everything *)
Definition re_match (pattern s : bytes) : bool := existsb (fun a => alt_match a s) (parse_pattern pattern).

(* testSkipped(testID, runOnly): protected by the skip list, or NOT matched by the pattern *)
Definition test_skipped_run (skipped : list bytes) (run_only test_id : bytes) : bool :=
  test_skipped skipped test_id || negb (re_match run_only test_id).

(* isFileSkipped(dir, filename, runOnly): with a pattern, a file is protected iff its sibling test
   file <filename minus .snap>.go parses and NONE of its function names matches the pattern.
   [funcs] = Some names when the sibling file exists and parses. *)
Definition file_skipped_run (run_only : bytes) (funcs : option (list bytes)) : bool :=
  match run_only with
  | [] => false
  | _ => match funcs with
         | None => false
         | Some names => negb (existsb (re_match run_only) names)
         end
  end.
