(* DifflibSpec: specification vocabulary for the difflib / report theorems (definitions only).
   Nothing here is executed by the driver; these are the predicates and the replay functions
   that Proofs/DifflibP.v and Proofs/ReportP.v talk about. *)
From Coq Require Import List NArith Arith Bool Lia.
Import ListNotations.
From Snaps Require Import Base.Bytes Model.Difflib.

(* a[i .. i+k) and b[j .. j+k) agree pointwise *)
Definition eq_run (a b : list line) (i j k : nat) : Prop :=
  forall t, t < k -> nth (i + t) a [] = nth (j + t) b [].

(* (i,j,k) is a match inside the window a[alo:ahi] x b[blo:bhi] *)
Definition blk_ok (a b : list line) (alo ahi blo bhi : nat) (m : blk) : Prop :=
  let '(i, j, k) := m in
  alo <= i /\ i + k <= ahi /\ blo <= j /\ j + k <= bhi /\ eq_run a b i j k.

(* table soundness: every j listed for row i satisfies a[i] = b[j] *)
Definition tbl_sound (a b : list line) (tbl : list (list nat)) : Prop :=
  forall i j, In j (nth i tbl []) -> nth i a [] = nth j b [].

(* [chain a b ahi bhi i j ms]: the blocks of ms are equal runs, the first starts at or after
   (i,j), each next block starts at or after the end of the previous one (in both
   coordinates) and the last one ends at or before (ahi,bhi). *)
Fixpoint chain (a b : list line) (ahi bhi i j : nat) (ms : list blk) : Prop :=
  match ms with
  | [] => i <= ahi /\ j <= bhi
  | (bi, bj, bk) :: r =>
      i <= bi /\ j <= bj /\ eq_run a b bi bj bk /\ chain a b ahi bhi (bi + bk) (bj + bk) r
  end.

Definition blk_size (m : blk) : nat := snd m.

(* DP invariant of findLongestMatch: the entries of j2len before row i.
   (j,k) is a match of length k ending at a[i-1] and b[j], inside the window. *)
Definition j2ok (a b : list line) (alo blo bhi : nat) (i : nat) (m : list (nat * nat)) : Prop :=
  forall j k, In (j, k) m ->
    1 <= k /\ alo + k <= i /\ blo + k <= S j /\ j < bhi /\
    forall t, t < k -> nth (i - 1 - t) a [] = nth (j - t) b [].

(* the conditions of the two extension loops of findLongestMatch, as booleans *)
Definition left_cond (a b : list line) (alo blo : nat) (m : blk) : bool :=
  let '(i, j, k) := m in (alo <? i) && (blo <? j) && beq (nth (i - 1) a []) (nth (j - 1) b []).
Definition right_cond (a b : list line) (ahi bhi : nat) (m : blk) : bool :=
  let '(i, j, k) := m in
  (i + k <? ahi) && (j + k <? bhi) && beq (nth (i + k) a []) (nth (j + k) b []).

(* adjacent triples never describe adjacent equal blocks (doc comment of getMatchingBlocks) *)
Fixpoint non_adjacent (l : list blk) : Prop :=
  match l with
  | x :: r => match r with
              | y :: _ => ~ (fst (fst x) + snd x = fst (fst y) /\ snd (fst x) + snd x = snd (fst y))
              | [] => True
              end /\ non_adjacent r
  | [] => True
  end.

Definition sentinel (a b : list line) : blk := (length a, length b, 0).

(* where a list of blocks ends, starting from (i,j) *)
Fixpoint blocks_end (i j : nat) (ms : list blk) : nat * nat :=
  match ms with
  | [] => (i, j)
  | (ai, bj, size) :: r => blocks_end (ai + size) (bj + size) r
  end.

(* opcodes tile the rectangle from (i,j) to (ie,je) *)
Fixpoint tiles (i j : nat) (ops : list opcode) (ie je : nat) : Prop :=
  match ops with
  | [] => i = ie /\ j = je
  | c :: r => i1 c = i /\ j1 c = j /\ tiles (i2 c) (j2 c) r ie je
  end.

(* consecutive opcodes abut *)
Fixpoint abuts (ops : list opcode) : Prop :=
  match ops with
  | c :: r => match r with
              | d :: _ => i1 d = i2 c /\ j1 d = j2 c
              | [] => True
              end /\ abuts r
  | [] => True
  end.

(* shape of a single opcode *)
Definition op_wf (a b : list line) (c : opcode) : Prop :=
  i1 c <= i2 c /\ j1 c <= j2 c /\
  match op_tag c with
  | Equal => i1 c < i2 c /\ j1 c < j2 c /\ slice a (i1 c) (i2 c) = slice b (j1 c) (j2 c)
  | Insert => i1 c = i2 c /\ j1 c < j2 c
  | Delete => i1 c < i2 c /\ j1 c = j2 c
  | Replace => i1 c < i2 c /\ j1 c < j2 c
  end.

(* what an opcode contributes when the script is replayed towards b / towards a *)
Definition replay_b_op (a b : list line) (c : opcode) : list line :=
  match op_tag c with
  | Equal => slice a (i1 c) (i2 c)
  | Insert | Replace => slice b (j1 c) (j2 c)
  | Delete => []
  end.

Definition replay_a_op (a : list line) (c : opcode) : list line :=
  match op_tag c with
  | Equal | Delete | Replace => slice a (i1 c) (i2 c)
  | Insert => []
  end.

Definition replay_b (a b : list line) (ops : list opcode) : list line :=
  concat (map (replay_b_op a b) ops).
Definition replay_a (a : list line) (ops : list opcode) : list line :=
  concat (map (replay_a_op a) ops).

Definition non_equal (c : opcode) : bool := negb (is_equal c).

(* a-lines removed / b-lines added by an opcode *)
Definition deleted_of (a : list line) (c : opcode) : list line :=
  match op_tag c with
  | Delete | Replace => slice a (i1 c) (i2 c)
  | _ => []
  end.
Definition inserted_of (b : list line) (c : opcode) : list line :=
  match op_tag c with
  | Insert | Replace => slice b (j1 c) (j2 c)
  | _ => []
  end.
Definition kept_a_of (a : list line) (c : opcode) : list line :=
  match op_tag c with Equal => slice a (i1 c) (i2 c) | _ => [] end.
Definition kept_b_of (b : list line) (c : opcode) : list line :=
  match op_tag c with Equal => slice b (j1 c) (j2 c) | _ => [] end.

(* what remains true of an opcode after GetGroupedOpCodes trimmed it: it lies inside both
   sequences and, when Equal, still relates two identical slices of the same length *)
Definition op_ok (a b : list line) (c : opcode) : Prop :=
  i1 c <= i2 c /\ i2 c <= length a /\ j1 c <= j2 c /\ j2 c <= length b /\
  (op_tag c = Equal ->
   i2 c - i1 c = j2 c - j1 c /\ slice a (i1 c) (i2 c) = slice b (j1 c) (j2 c)).
