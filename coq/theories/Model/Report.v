(* Report: executable model of /repo/snaps/diff.go in NO_COLOR mode (colors.NOCOLOR = true)
   together with the NO_COLOR branches of /repo/internal/colors/colors.go.

   In NO_COLOR mode shouldPrintHighlights is constantly false, so
   - prettyDiff always uses getUnifiedDiff,
   - an OpReplace opcode always takes the fallback path: all a-lines as deletions followed by
     all b-lines as insertions.
   The report body is first produced as a structure ([rline]) and then rendered to the exact
   bytes. *)
From Coq Require Import String.
From Coq Require Import List NArith Arith Bool Lia.
Import ListNotations.
From Snaps Require Import Base.Bytes Base.Lines Base.Dec Model.Difflib.

(* ---------- splitNewlines ---------- *)

(* strings.SplitAfter(s, "\n") : always non-empty *)
Fixpoint split_after_nl (s : bytes) : list bytes :=
  match s with
  | [] => [[]]
  | c :: r =>
      if N.eqb c nl then [c] :: split_after_nl r
      else match split_after_nl r with
           | l :: ls => (c :: l) :: ls
           | [] => [[c]]
           end
  end.

(* lines[len(lines)-1] += "\n" *)
Fixpoint append_last (suffix : bytes) (ls : list bytes) : list bytes :=
  match ls with
  | [] => []
  | [l] => [l ++ suffix]
  | l :: r => l :: append_last suffix r
  end.

Definition split_newlines (s : bytes) : list bytes := append_last [nl] (split_after_nl s).

(* ---------- report structure ---------- *)

Inductive rline :=
| REq (l : bytes)             (* colors.FprintEqual : "  " + l *)
| RDel (l : bytes)            (* colors.FprintDelete : "- " + l *)
| RIns (l : bytes)            (* colors.FprintInsert : "+ " + l *)
| RRange (r1 r2 : bytes).     (* colors.FprintRange : "@@ -r1 +r2 @@\n\n" *)

(* newLineSymbol = "↵" = U+21B5 = e2 86 b5 *)
Definition new_line_symbol : bytes := [226; 134; 181]%N.

(* if line == "\n" { line = newLineSymbol + "\n" } *)
Definition show_equal_line (l : bytes) : bytes :=
  if beq l [nl] then new_line_symbol ++ [nl] else l.

(* difflib.FormatRangeUnified(start, stop); stop >= start for the ranges of a group *)
Definition format_range (start stop : nat) : bytes :=
  let beginning := start + 1 in
  let len := stop - start in
  if len =? 1 then dec beginning
  else
    let beginning := if len =? 0 then beginning - 1 else beginning in
    dec beginning ++ B "," ++ dec len.

(* lines, inserted, deleted produced by one opcode *)
Definition op_lines (al bl : list bytes) (c : opcode) : list rline * nat * nat :=
  let asl := slice al (i1 c) (i2 c) in
  let bsl := slice bl (j1 c) (j2 c) in
  match op_tag c with
  | Equal => (map (fun l => REq (show_equal_line l)) asl, 0, 0)
  | Delete => (map RDel asl, 0, List.length asl)
  | Insert => (map RIns bsl, List.length bsl, 0)
  | Replace => (map RDel asl ++ map RIns bsl, List.length bsl, List.length asl)
  end.

Definition default_op : opcode := mkop Equal 0 0 0 0.

(* printRange: first, last := opcodes[0], opcodes[len(opcodes)-1] *)
Definition range_line (g : list opcode) : rline :=
  let first := hd default_op g in
  let lst := last g default_op in
  RRange (format_range (i1 first) (i2 lst)) (format_range (j1 first) (j2 lst)).

(* accumulate (lines, inserted, deleted) *)
Definition acc3 := (list rline * nat * nat)%type.
Definition acc_add (x y : acc3) : acc3 :=
  let '(l1, a1, d1) := x in let '(l2, a2, d2) := y in (l1 ++ l2, a1 + a2, d1 + d2).

Definition ops_lines (al bl : list bytes) (g : list opcode) : acc3 :=
  fold_right (fun c acc => acc_add (op_lines al bl c) acc) ([], 0, 0) g.

Definition group_lines (show_range : bool) (al bl : list bytes) (g : list opcode) : acc3 :=
  acc_add ((if show_range then [range_line g] else []), 0, 0) (ops_lines al bl g).

(* context = 3 *)
Definition context : nat := 3.

(* getUnifiedDiff as a structure: (lines, inserted, deleted) *)
Definition unified_nocolor (a b : bytes) : acc3 :=
  let al := split_newlines a in
  let bl := split_newlines b in
  let show_range := (10 <? List.length al) || (10 <? List.length bl) in
  fold_right (fun g acc => acc_add (group_lines show_range al bl g) acc) ([], 0, 0)
             (grouped_opcodes context al bl).

(* ---------- rendering ---------- *)

Definition render_line (r : rline) : bytes :=
  match r with
  | REq l => B "  " ++ l
  | RDel l => B "- " ++ l
  | RIns l => B "+ " ++ l
  | RRange r1 r2 => B "@@ -" ++ r1 ++ B " +" ++ r2 ++ B " @@" ++ [nl; nl]
  end.

Definition render_body (ls : list rline) : bytes := List.concat (map render_line ls).

Definition spaces (n : nat) : bytes := repeat 32%N n.

(* intPadding(inserted, deleted) = (iPadding, dPadding) *)
Definition int_padding (inserted deleted : nat) : bytes * bytes :=
  let i := List.length (dec inserted) in
  let d := List.length (dec deleted) in
  if i =? d then ([], [])
  else if d <? i then ([], spaces (i - d))
  else (spaces (d - i), []).

(* buildDiffReport(inserted, deleted, diff, name, line) *)
Definition build_report (inserted deleted : nat) (diff name : bytes) (line : nat) : bytes :=
  match diff with
  | [] => []
  | _ =>
      let '(ipad, dpad) := int_padding inserted deleted in
      [nl]
      ++ B "- " ++ B "Snapshot " ++ dpad ++ B "- " ++ dec deleted ++ [nl]
      ++ B "+ " ++ B "Received " ++ ipad ++ B "+ " ++ dec inserted ++ [nl]
      ++ [nl]
      ++ diff
      ++ [nl]
      ++ (match name with
          | [] => []
          | _ => B "at " ++ name ++ B ":" ++ dec line ++ [nl]
          end)
  end.

(* the bytes of buildDiffReport(i, d, body, name, line) for a structured body *)
Definition render_nocolor (r : acc3) (name : bytes) (line : nat) : bytes :=
  let '(ls, inserted, deleted) := r in
  build_report inserted deleted (render_body ls) name line.

(* prettyDiff(expected, received, name, line) with colors.NOCOLOR = true *)
Definition pretty_diff_nocolor (expected received name : bytes) (line : nat) : bytes :=
  if beq expected received then []
  else render_nocolor (unified_nocolor expected received) name line.
