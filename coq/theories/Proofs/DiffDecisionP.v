(* The pass/fail decision of a Match* call is byte equality of the two texts. *)
From Coq Require Import List NArith Bool.
Import ListNotations.
From Snaps Require Import Base.Bytes Model.Report Model.Api Proofs.BytesP Proofs.ReportP.

Lemma diff_empty_beq a b : diff_empty a b = beq a b.
Proof.
  unfold diff_empty. destruct (beq_spec a b) as [->|Hne].
  - now rewrite (proj2 (pretty_diff_empty_iff b b [] 0) eq_refl).
  - destruct (pretty_diff_nocolor a b [] 0) eqn:E; [|reflexivity].
    exfalso. apply Hne. now apply (proj1 (pretty_diff_empty_iff a b [] 0)).
Qed.

Lemma diff_empty_refl a : diff_empty a a = true.
Proof. rewrite diff_empty_beq. apply beq_refl. Qed.

Lemma diff_empty_false a b : a <> b -> diff_empty a b = false.
Proof. intros H. rewrite diff_empty_beq. now apply beq_neq. Qed.

Lemma diff_empty_true_eq a b : diff_empty a b = true -> a = b.
Proof. rewrite diff_empty_beq. apply beq_eq. Qed.
