(* ReportReaderP: the printed BYTES of the NO_COLOR failure report determine the shown lines and the
   two counts.  Main theorem [read_report_correct]: the independent reader [read_report]
   (Model/ReportReader.v) recovers the structure [unified_nocolor a b] (and the footer) from
   [pretty_diff_nocolor a b name line].  Corollaries transport the structural theorems of ReportP.v
   (counts, truthfulness) to the printed bytes. *)
From Coq Require Import String.
From Coq Require Import List NArith Arith Bool Lia.
Import ListNotations.
From Snaps Require Import Base.Bytes Base.Lines Base.Dec.
From Snaps Require Import Proofs.BytesP Proofs.LinesP Proofs.DecP.
From Snaps Require Import Model.Difflib Model.DifflibSpec Model.Report Model.ReportSpec.
From Snaps Require Import Proofs.DifflibP Proofs.ReportP.
From Snaps Require Import Model.Summary Proofs.SummaryP.
From Snaps Require Import Model.ReportReader.

(* ====================================================================== *)
(** * Small facts on bytes                                                  *)
(* ====================================================================== *)

Lemma name_ok_nonl name : name_ok name = nonl name.
Proof. reflexivity. Qed.

Lemma no_nl_nonl l : no_nl l -> nonl l = true.
Proof. apply notin_forallb. Qed.

Lemma spaces_nonl n : nonl (spaces n) = true.
Proof. unfold spaces. induction n; cbn; auto. Qed.

(* ====================================================================== *)
(** * The count lines                                                       *)
(* ====================================================================== *)

Definition hd_fails (p : N -> bool) (s : bytes) : bool :=
  match s with [] => true | c :: _ => negb (p c) end.

Lemma span_while_app p a rest :
  forallb p a = true -> hd_fails p rest = true -> span_while p (a ++ rest) = (a, rest).
Proof.
  intros Ha Hr. induction a as [|c a IH].
  - change ([] ++ rest) with rest. destruct rest as [|c r]; [reflexivity|].
    cbn [hd_fails] in Hr. cbn [span_while]. destruct (p c); [discriminate|reflexivity].
  - cbn [forallb] in Ha. apply andb_true_iff in Ha as [Hc Ha].
    change ((c :: a) ++ rest) with (c :: (a ++ rest)). cbn [span_while]. rewrite Hc, (IH Ha).
    reflexivity.
Qed.

Lemma drop_spaces_spaces p c r :
  N.eqb c 32 = false -> drop_spaces (spaces p ++ c :: r) = (p, c :: r).
Proof.
  intros Hc. unfold spaces. induction p as [|p IH]; cbn [repeat app drop_spaces].
  - now rewrite Hc.
  - rewrite IH. reflexivity.
Qed.

(* what the reader accepts as a label: a non-empty run of bytes other than space and newline *)
Definition label_ok (l : bytes) : bool :=
  match l with [] => false | _ :: _ => forallb is_label_char l end.

Lemma label_ok_chars l : label_ok l = true -> forallb is_label_char l = true.
Proof. destruct l; [discriminate|exact (fun H => H)]. Qed.

Lemma label_ok_nonl l : label_ok l = true -> nonl l = true.
Proof.
  intros H. apply label_ok_chars in H. unfold nonl. rewrite forallb_forall in *.
  intros c Hc. specialize (H c Hc). unfold is_label_char in H.
  apply andb_true_iff in H as [_ H]. exact H.
Qed.

(* the two labels of go-snaps *)
Lemma label_ok_snapshot : label_ok (B "Snapshot") = true. Proof. reflexivity. Qed.
Lemma label_ok_received : label_ok (B "Received") = true. Proof. reflexivity. Qed.

(* a count line with ANY label and ANY positive number of spaces behind it reads to its number *)
Lemma read_count_line_ok mark lbl p n :
  N.eqb mark 32 = false -> label_ok lbl = true ->
  read_count_line mark ([mark; 32%N] ++ lbl ++ spaces (S p) ++ [mark; 32%N] ++ dec n) = Some n.
Proof.
  intros Hm Hl. unfold read_count_line. rewrite strip_prefix_app.
  rewrite span_while_app by (auto using label_ok_chars; reflexivity).
  destruct lbl as [|c0 lbl]; [discriminate Hl|].
  change ([mark; 32%N] ++ dec n) with (mark :: 32%N :: dec n).
  rewrite drop_spaces_spaces by exact Hm.
  change (mark :: 32%N :: dec n) with ([mark; 32%N] ++ dec n).
  rewrite strip_prefix_app. apply parse_dec_dec.
Qed.

(* ALIGNMENT is a fact about the printer that the reader does not look at: intPadding pads the
   shorter numeral only, up to the length of the longer one *)
Definition aligned (pd wd pi wi : nat) : bool :=
  Nat.eqb (pd + wd) (pi + wi) && (Nat.eqb pd 0 || Nat.eqb pi 0).

Lemma int_padding_spec i d :
  exists pi pd, int_padding i d = (spaces pi, spaces pd) /\
                aligned pd (length (dec d)) pi (length (dec i)) = true.
Proof.
  unfold int_padding, aligned.
  destruct (Nat.eqb_spec (length (dec i)) (length (dec d))) as [E|E].
  - exists 0, 0. split; [reflexivity|]. cbn. now rewrite E, Nat.eqb_refl.
  - destruct (Nat.ltb_spec (length (dec d)) (length (dec i))) as [L|L].
    + exists 0, (length (dec i) - length (dec d)). split; [reflexivity|].
      apply andb_true_iff. split; [apply Nat.eqb_eq; lia|]. apply orb_true_iff. now right.
    + exists (length (dec d) - length (dec i)), 0. split; [reflexivity|].
      apply andb_true_iff. split; [apply Nat.eqb_eq; lia|]. reflexivity.
Qed.

(* ====================================================================== *)
(** * Hunk headers                                                          *)
(* ====================================================================== *)

(* a range as printed by difflib.FormatRangeUnified *)
Definition range_ok (r : bytes) : Prop :=
  is_range_spec r = true /\ forallb is_range_char r = true.

Lemma digits_range_chars l : forallb is_digit l = true -> forallb is_range_char l = true.
Proof.
  rewrite !forallb_forall. intros H c Hc. unfold is_range_char. now rewrite (H c Hc).
Qed.

Lemma dec_range_ok n : range_ok (dec n).
Proof.
  split; [|apply digits_range_chars, dec_digits].
  unfold is_range_spec. rewrite <- (app_nil_r (dec n)).
  rewrite span_digits_app by (auto using dec_digits).
  pose proof (dec_nonempty n) as Hne. destruct (dec n); [congruence|reflexivity].
Qed.

Lemma dec_comma_dec_range_ok n m : range_ok (dec n ++ [44%N] ++ dec m).
Proof.
  split.
  - unfold is_range_spec. rewrite span_digits_app by (auto using dec_digits).
    pose proof (dec_nonempty n) as Hn. destruct (dec n) as [|x xs]; [congruence|].
    cbn [app]. rewrite N.eqb_refl. cbn [andb].
    pose proof (dec_nonempty m) as Hm. pose proof (dec_digits m) as Hd.
    destruct (dec m); [congruence|exact Hd].
  - rewrite !forallb_app.
    rewrite (digits_range_chars (dec n)), (digits_range_chars (dec m)) by apply dec_digits.
    reflexivity.
Qed.

Lemma format_range_ok s e : range_ok (format_range s e).
Proof.
  unfold format_range. destruct (e - s =? 1); [apply dec_range_ok|].
  change (B ",") with [44%N]. apply dec_comma_dec_range_ok.
Qed.

Lemma classify_range_ok r1 r2 :
  range_ok r1 -> range_ok r2 ->
  classify_range (r1 ++ B " +" ++ r2 ++ B " @@") = LRange r1 r2.
Proof.
  intros [S1 C1] [S2 C2]. unfold classify_range.
  rewrite span_while_app by (auto; reflexivity).
  rewrite strip_prefix_app.
  rewrite span_while_app by (auto; reflexivity).
  now rewrite beq_refl, S1, S2.
Qed.

(* ====================================================================== *)
(** * One body line                                                         *)
(* ====================================================================== *)

Lemma classify_eq t : classify_line (B "  " ++ t) = LText (REq (t ++ [nl])).
Proof. reflexivity. Qed.
Lemma classify_del t : classify_line (B "- " ++ t) = LText (RDel (t ++ [nl])).
Proof. reflexivity. Qed.
Lemma classify_ins t : classify_line (B "+ " ++ t) = LText (RIns (t ++ [nl])).
Proof. reflexivity. Qed.
Lemma classify_at t : classify_line (B "@@ -" ++ t) = classify_range t.
Proof. reflexivity. Qed.

(* ====================================================================== *)
(** * The invariant of the report structure that makes the text unambiguous  *)
(* ====================================================================== *)

(* a text line carries exactly one newline, its last byte *)
Definition text_line_ok (l : bytes) : Prop := exists l0, l = l0 ++ [nl] /\ nonl l0 = true.

Definition rline_wf (r : rline) : Prop :=
  match r with
  | REq l | RDel l | RIns l => text_line_ok l
  | RRange r1 r2 => range_ok r1 /\ range_ok r2
  end.

Lemma split_newlines_line_ok s l : In l (split_newlines s) -> text_line_ok l.
Proof.
  rewrite split_newlines_split_nl. intros H. apply in_map_iff in H as (l0 & <- & Hin).
  exists l0. split; [reflexivity|]. apply no_nl_nonl.
  pose proof (split_nl_all_no_nl s) as Hall. rewrite Forall_forall in Hall. now apply Hall.
Qed.

Lemma show_equal_line_ok l : text_line_ok l -> text_line_ok (show_equal_line l).
Proof.
  intros H. unfold show_equal_line. destruct (beq l [nl]); [|exact H].
  exists new_line_symbol. split; reflexivity.
Qed.

Lemma op_lines_wf al bl c r :
  (forall l, In l al -> text_line_ok l) -> (forall l, In l bl -> text_line_ok l) ->
  In r (r_lines (op_lines al bl c)) -> rline_wf r.
Proof.
  intros Ha Hb. unfold op_lines.
  destruct (op_tag c); cbn [r_lines fst]; intros H;
    try (apply in_app_or in H as [H|H]);
    apply in_map_iff in H as (l & <- & Hl); apply In_slice in Hl; cbn [rline_wf]; auto.
  apply show_equal_line_ok; auto.
Qed.

Lemma unified_wf a b : Forall rline_wf (r_lines (unified_nocolor a b)).
Proof.
  apply Forall_forall. intros r H.
  apply unified_In in H as (g & _ & [->|(c & _ & H)]).
  - unfold range_line. cbn [rline_wf]. split; apply format_range_ok.
  - eapply op_lines_wf; [| |exact H]; apply split_newlines_line_ok.
Qed.

(* ====================================================================== *)
(** * The body                                                              *)
(* ====================================================================== *)

Lemma render_body_cons r ls : render_body (r :: ls) = render_line r ++ render_body ls.
Proof. reflexivity. Qed.

Lemma nonl_prefix2 x y l0 : N.eqb x 10 = false -> N.eqb y 10 = false -> nonl l0 = true ->
  no_nl (x :: y :: l0).
Proof.
  intros Hx Hy Hl. apply nonl_no_nl. cbn [nonl forallb]. now rewrite Hx, Hy.
Qed.

Lemma range_chars_nonl r : forallb is_range_char r = true -> nonl r = true.
Proof.
  unfold nonl. rewrite !forallb_forall. intros H c Hc. specialize (H c Hc).
  destruct (N.eqb_spec c 10) as [->|]; [discriminate H|reflexivity].
Qed.

Lemma read_body_ok ls rest :
  Forall rline_wf ls ->
  read_body_lines (split_nl (render_body ls ++ nl :: rest)) = Some (ls, split_nl rest).
Proof.
  induction ls as [|r ls IH]; intros Hwf.
  - reflexivity.
  - inversion Hwf as [|? ? Hr Hls]; subst. specialize (IH Hls).
    rewrite render_body_cons, <- app_assoc.
    destruct r as [l|l|l|r1 r2]; cbn [rline_wf] in Hr.
    + destruct Hr as (l0 & -> & Hl0). cbn [render_line].
      replace ((B "  " ++ l0 ++ [nl]) ++ render_body ls ++ nl :: rest)
        with ((B "  " ++ l0) ++ nl :: (render_body ls ++ nl :: rest))
        by (rewrite <- !app_assoc; reflexivity).
      rewrite split_nl_app_nl by (apply nonl_prefix2; auto).
      cbn [read_body_lines]. rewrite classify_eq, IH. reflexivity.
    + destruct Hr as (l0 & -> & Hl0). cbn [render_line].
      replace ((B "- " ++ l0 ++ [nl]) ++ render_body ls ++ nl :: rest)
        with ((B "- " ++ l0) ++ nl :: (render_body ls ++ nl :: rest))
        by (rewrite <- !app_assoc; reflexivity).
      rewrite split_nl_app_nl by (apply nonl_prefix2; auto).
      cbn [read_body_lines]. rewrite classify_del, IH. reflexivity.
    + destruct Hr as (l0 & -> & Hl0). cbn [render_line].
      replace ((B "+ " ++ l0 ++ [nl]) ++ render_body ls ++ nl :: rest)
        with ((B "+ " ++ l0) ++ nl :: (render_body ls ++ nl :: rest))
        by (rewrite <- !app_assoc; reflexivity).
      rewrite split_nl_app_nl by (apply nonl_prefix2; auto).
      cbn [read_body_lines]. rewrite classify_ins, IH. reflexivity.
    + destruct Hr as [H1 H2]. cbn [render_line].
      replace ((B "@@ -" ++ r1 ++ B " +" ++ r2 ++ B " @@" ++ [nl; nl]) ++ render_body ls ++ nl :: rest)
        with ((B "@@ -" ++ r1 ++ B " +" ++ r2 ++ B " @@") ++ nl :: [] ++ nl :: (render_body ls ++ nl :: rest))
        by (rewrite <- !app_assoc; reflexivity).
      assert (Hn : no_nl (B "@@ -" ++ r1 ++ B " +" ++ r2 ++ B " @@")).
      { apply nonl_no_nl. rewrite !nonl_app.
        rewrite (range_chars_nonl r1) by apply H1. rewrite (range_chars_nonl r2) by apply H2.
        reflexivity. }
      rewrite split_nl_app_nl by exact Hn.
      rewrite split_nl_app_nl by apply no_nl_nil.
      cbn [read_body_lines]. rewrite classify_at, classify_range_ok by assumption.
      rewrite IH. reflexivity.
Qed.

(* ====================================================================== *)
(** * The footer                                                            *)
(* ====================================================================== *)

Definition no_colon (s : bytes) : bool := forallb (fun c => negb (N.eqb c 58)) s.

Lemma split_last_colon_none s : no_colon s = true -> split_last_colon s = None.
Proof.
  induction s as [|c s IH]; [reflexivity|]. cbn [no_colon forallb]. intros H.
  apply andb_true_iff in H as [Hc Hs]. cbn [split_last_colon]. rewrite (IH Hs).
  apply negb_true_iff in Hc. now rewrite Hc.
Qed.

Lemma split_last_colon_app name ds :
  no_colon ds = true -> split_last_colon (name ++ 58%N :: ds) = Some (name, ds).
Proof.
  intros Hds. induction name as [|c name IH].
  - cbn [app split_last_colon]. now rewrite (split_last_colon_none ds Hds).
  - change ((c :: name) ++ 58%N :: ds) with (c :: (name ++ 58%N :: ds)).
    cbn [split_last_colon]. now rewrite IH.
Qed.

Lemma digits_no_colon l : forallb is_digit l = true -> no_colon l = true.
Proof.
  unfold no_colon. rewrite !forallb_forall. intros H c Hc. specialize (H c Hc).
  destruct (N.eqb_spec c 58) as [->|]; [discriminate H|reflexivity].
Qed.

(* the footer as printed by buildDiffReport *)
Definition footer_text (name : bytes) (line : nat) : bytes :=
  match name with
  | [] => []
  | _ => B "at " ++ name ++ B ":" ++ dec line ++ [nl]
  end.

Lemma read_footer_ok name line :
  name_ok name = true ->
  read_footer (split_nl (footer_text name line))
  = Some (match name with [] => None | _ :: _ => Some (name, line) end).
Proof.
  intros Hn. destruct name as [|n0 nm]; [reflexivity|]. unfold footer_text.
  set (name := n0 :: nm) in *.
  replace (B "at " ++ name ++ B ":" ++ dec line ++ [nl])
    with ((B "at " ++ name ++ B ":" ++ dec line) ++ nl :: [])
    by (rewrite <- !app_assoc; reflexivity).
  rewrite split_nl_app_nl.
  2:{ apply nonl_no_nl. rewrite !nonl_app, dec_nonl. rewrite name_ok_nonl in Hn. rewrite Hn.
      reflexivity. }
  change (split_nl []) with [@nil N].
  change (B "at " ++ name ++ B ":" ++ dec line) with (97%N :: 116%N :: 32%N :: name ++ 58%N :: dec line).
  cbn [read_footer].
  change (97%N :: 116%N :: 32%N :: name ++ 58%N :: dec line) with (B "at " ++ (name ++ 58%N :: dec line)).
  rewrite strip_prefix_app, split_last_colon_app by (apply digits_no_colon, dec_digits).
  rewrite parse_dec_dec. reflexivity.
Qed.

(* ====================================================================== *)
(** * The whole report                                                      *)
(* ====================================================================== *)

(* the printer generalised over the two labels; [build_report] is the instance
   "Snapshot"/"Received" ([build_report_lbl_real]) *)
Definition build_report_lbl (ld li : bytes) (inserted deleted : nat) (diff name : bytes) (line : nat)
  : bytes :=
  match diff with
  | [] => []
  | _ =>
      let '(ipad, dpad) := int_padding inserted deleted in
      [nl]
      ++ B "- " ++ (ld ++ B " ") ++ dpad ++ B "- " ++ dec deleted ++ [nl]
      ++ B "+ " ++ (li ++ B " ") ++ ipad ++ B "+ " ++ dec inserted ++ [nl]
      ++ [nl]
      ++ diff
      ++ [nl]
      ++ (match name with
          | [] => []
          | _ => B "at " ++ name ++ B ":" ++ dec line ++ [nl]
          end)
  end.

Lemma build_report_lbl_real i d diff name line :
  build_report_lbl (B "Snapshot") (B "Received") i d diff name line = build_report i d diff name line.
Proof. reflexivity. Qed.

Definition render_lbl (ld li : bytes) (r : acc3) (name : bytes) (line : nat) : bytes :=
  let '(ls, inserted, deleted) := r in
  build_report_lbl ld li inserted deleted (render_body ls) name line.

Lemma render_lbl_real u name line :
  render_lbl (B "Snapshot") (B "Received") u name line = render_nocolor u name line.
Proof. destruct u as [[ls i] d]. reflexivity. Qed.

(* the text of a report with labels [ld], [li] and [S pd], [S pi] spaces behind them *)
Definition report_text (ld li : bytes) (pd pi d i : nat) (diff name : bytes) (line : nat) : bytes :=
  [] ++ nl :: ([45%N; 32%N] ++ ld ++ spaces (S pd) ++ [45%N; 32%N] ++ dec d)
     ++ nl :: ([43%N; 32%N] ++ li ++ spaces (S pi) ++ [43%N; 32%N] ++ dec i)
     ++ nl :: [] ++ nl :: diff ++ nl :: footer_text name line.

Lemma build_report_lbl_shape ld li i d diff name line :
  diff <> [] ->
  exists pi pd, build_report_lbl ld li i d diff name line = report_text ld li pd pi d i diff name line.
Proof.
  intros Hne. destruct (int_padding_spec i d) as (pi & pd & Hp & _). exists pi, pd.
  unfold build_report_lbl, report_text, footer_text. destruct diff as [|c0 diff]; [congruence|].
  rewrite Hp. change (spaces (S pd)) with (B " " ++ spaces pd).
  change (spaces (S pi)) with (B " " ++ spaces pi).
  change [45%N; 32%N] with (B "- "). change [43%N; 32%N] with (B "+ ").
  rewrite <- !app_assoc. reflexivity.
Qed.

Lemma build_report_shape i d diff name line :
  diff <> [] ->
  exists pi pd, build_report i d diff name line
                = report_text (B "Snapshot") (B "Received") pd pi d i diff name line.
Proof. rewrite <- build_report_lbl_real. apply build_report_lbl_shape. Qed.

Lemma count_line_nonl mark lbl p n :
  N.eqb mark 10 = false -> label_ok lbl = true ->
  no_nl ([mark; 32%N] ++ lbl ++ spaces p ++ [mark; 32%N] ++ dec n).
Proof.
  intros Hm Hl. apply nonl_no_nl. rewrite !nonl_app, (label_ok_nonl lbl Hl), spaces_nonl, dec_nonl.
  cbn [nonl forallb]. now rewrite Hm.
Qed.

(** the reader on a report text: whatever the two labels and whatever the (positive) numbers of
    spaces behind them, what is read is the two numbers, the body and the footer *)
Lemma read_report_text ld li pd pi d i ls name line :
  label_ok ld = true -> label_ok li = true ->
  Forall rline_wf ls -> ls <> [] -> name_ok name = true ->
  read_report (report_text ld li pd pi d i (render_body ls) name line)
  = Some (report_read_of (ls, i, d) name line).
Proof.
  intros Hld Hli Hwf Hne Hname. destruct ls as [|r rs]; [congruence|]. clear Hne.
  unfold read_report, report_text.
  rewrite split_nl_app_nl by apply no_nl_nil.
  rewrite split_nl_app_nl by (apply count_line_nonl; [reflexivity|exact Hld]).
  rewrite split_nl_app_nl by (apply count_line_nonl; [reflexivity|exact Hli]).
  rewrite split_nl_app_nl by apply no_nl_nil.
  rewrite !read_count_line_ok by (reflexivity || assumption).
  rewrite read_body_ok by exact Hwf.
  rewrite read_footer_ok by exact Hname.
  reflexivity.
Qed.

(* the reader recovers any well-formed non-empty structure from its rendering, whatever the labels *)
Lemma read_render_lbl_correct ld li (u : acc3) (name : bytes) (line : nat) :
  label_ok ld = true -> label_ok li = true ->
  Forall rline_wf (r_lines u) -> r_lines u <> [] -> name_ok name = true ->
  read_report (render_lbl ld li u name line) = Some (report_read_of u name line).
Proof.
  intros Hld Hli Hwf Hne Hname. destruct u as [[ls i] d]. cbn [r_lines fst] in Hwf, Hne.
  unfold render_lbl.
  destruct (build_report_lbl_shape ld li i d (render_body ls) name line
              (render_body_nonempty ls Hne)) as (pi & pd & ->).
  now apply read_report_text.
Qed.

(** read_report_label_irrelevant: the labels are wording.  With any two labels (non-empty, free of
    space and newline) in the place of "Snapshot" and "Received" the report reads to the same
    counts, lines and footer as the report that go-snaps prints. *)
Theorem read_report_label_irrelevant ld li (u : acc3) (name : bytes) (line : nat) :
  label_ok ld = true -> label_ok li = true ->
  Forall rline_wf (r_lines u) -> r_lines u <> [] -> name_ok name = true ->
  read_report (render_lbl ld li u name line) = read_report (render_nocolor u name line).
Proof.
  intros Hld Hli Hwf Hne Hname. rewrite <- render_lbl_real.
  rewrite !read_render_lbl_correct by (assumption || reflexivity). reflexivity.
Qed.

(* the same on [build_report] itself *)
Corollary read_build_report_label_irrelevant ld li i d ls name line :
  label_ok ld = true -> label_ok li = true ->
  Forall rline_wf ls -> ls <> [] -> name_ok name = true ->
  read_report (build_report_lbl ld li i d (render_body ls) name line)
  = read_report (build_report i d (render_body ls) name line).
Proof. intros Hld Hli. exact (read_report_label_irrelevant ld li (ls, i, d) name line Hld Hli). Qed.

(** read_report_correct: the bytes printed by prettyDiff (NO_COLOR) for two different texts carry
    exactly the structure of the unified diff: both counts, every shown line in order (hunk
    headers included), and the footer. *)
Theorem read_report_correct a b name line :
  a <> b -> name_ok name = true ->
  read_report (pretty_diff_nocolor a b name line)
  = Some {| rr_del_count := r_del (unified_nocolor a b);
            rr_ins_count := r_ins (unified_nocolor a b);
            rr_lines := r_lines (unified_nocolor a b);
            rr_footer := match name with [] => None | _ :: _ => Some (name, line) end |}.
Proof.
  intros Hne Hname. unfold pretty_diff_nocolor.
  apply beq_neq in Hne as Hb. rewrite Hb.
  rewrite <- render_lbl_real.
  apply (read_render_lbl_correct _ _ (unified_nocolor a b) name line);
    [reflexivity|reflexivity|apply unified_wf| |exact Hname].
  destruct (unified_has_change a b Hne) as (l & Hl). intros E. rewrite E in Hl.
  destruct Hl as [[]|[]].
Qed.

(* the same statement with the expected reading named *)
Corollary read_report_correct_of a b name line :
  a <> b -> name_ok name = true ->
  read_report (pretty_diff_nocolor a b name line)
  = Some (report_read_of (unified_nocolor a b) name line).
Proof. exact (read_report_correct a b name line). Qed.

(* ====================================================================== *)
(** * Corollaries about the PRINTED bytes                                   *)
(* ====================================================================== *)

(** printed_counts: the text is readable, and the two numbers in its header are the numbers of
    "- " and "+ " lines of its body *)
Theorem printed_counts a b name line :
  a <> b -> name_ok name = true ->
  exists rr, read_report (pretty_diff_nocolor a b name line) = Some rr /\
             rr_del_count rr = count_del (rr_lines rr) /\
             rr_ins_count rr = count_ins (rr_lines rr).
Proof.
  intros Hne Hn. eexists. split; [apply read_report_correct; assumption|].
  cbn [rr_del_count rr_ins_count rr_lines].
  destruct (unified_counts a b) as [Hi Hd]. now split.
Qed.

(** printed_lines_truthful: every line shown behind "- " is a line of the stored text, every line
    shown behind "+ " a line of the received text *)
Theorem printed_lines_truthful a b name line :
  a <> b -> name_ok name = true ->
  exists rr, read_report (pretty_diff_nocolor a b name line) = Some rr /\
             (forall l, In (RDel l) (rr_lines rr) -> In l (split_newlines a)) /\
             (forall l, In (RIns l) (rr_lines rr) -> In l (split_newlines b)).
Proof.
  intros Hne Hn. eexists. split; [apply read_report_correct; assumption|].
  cbn [rr_lines]. split; intros l; apply (report_lines_truthful a b l).
Qed.

(** the context lines read from the bytes are lines common to both texts *)
Theorem printed_context_common a b name line :
  a <> b -> name_ok name = true ->
  exists rr, read_report (pretty_diff_nocolor a b name line) = Some rr /\
             forall l, In (REq l) (rr_lines rr) ->
                       exists l0, In l0 (split_newlines a) /\ In l0 (split_newlines b) /\
                                  l = show_equal_line l0.
Proof.
  intros Hne Hn. eexists. split; [apply read_report_correct; assumption|].
  cbn [rr_lines]. apply report_context_lines_common.
Qed.

(** the residual statement of C13 on the lines read from the bytes: taking the "- " lines out of
    the stored text and the "+ " lines out of the received text leaves the same lines *)
Theorem printed_residual a b name line :
  a <> b -> name_ok name = true ->
  exists rr, read_report (pretty_diff_nocolor a b name line) = Some rr /\
    let al := split_newlines a in
    let bl := split_newlines b in
    let ops := get_opcodes al bl in
    al = concat (map (fun c => kept_a_of al c ++ deleted_of al c) ops) /\
    bl = concat (map (fun c => kept_a_of al c ++ inserted_of bl c) ops) /\
    map (kept_a_of al) ops = map (kept_b_of bl) ops /\
    del_lines (rr_lines rr) = concat (map (deleted_of al) ops) /\
    ins_lines (rr_lines rr) = concat (map (inserted_of bl) ops).
Proof.
  intros Hne Hn. eexists. split; [apply read_report_correct; assumption|].
  cbn [rr_lines]. apply report_residual.
Qed.

(** printed_injective: two reports with the same bytes show the same lines and the same counts
    (and carry the same footer).  Nothing is assumed on the second pair of texts: a report equal
    to a non-empty one is not empty. *)
Theorem printed_injective a b name line a' b' name' line' :
  a <> b -> name_ok name = true -> name_ok name' = true ->
  pretty_diff_nocolor a b name line = pretty_diff_nocolor a' b' name' line' ->
  unified_nocolor a b = unified_nocolor a' b' /\
  name = name' /\ (name <> [] -> line = line').
Proof.
  intros Hne Hn Hn' E.
  assert (Hne' : a' <> b').
  { intros Heq. apply Hne. apply (pretty_diff_empty_iff a b name line). rewrite E.
    now apply pretty_diff_empty_iff. }
  pose proof (read_report_correct a b name line Hne Hn) as R.
  pose proof (read_report_correct a' b' name' line' Hne' Hn') as R'.
  rewrite E, R' in R. injection R as Hd Hi Hl Hf.
  split.
  - destruct (unified_nocolor a b) as [[ls i] d], (unified_nocolor a' b') as [[ls' i'] d'].
    cbn [r_lines r_ins r_del fst snd] in *. congruence.
  - destruct name as [|c nm], name' as [|c' nm']; try discriminate Hf.
    + split; [reflexivity|congruence].
    + injection Hf as -> -> ->. split; [reflexivity|reflexivity].
Qed.

Corollary printed_injective_lines a b name line a' b' name' line' :
  a <> b -> name_ok name = true -> name_ok name' = true ->
  pretty_diff_nocolor a b name line = pretty_diff_nocolor a' b' name' line' ->
  r_lines (unified_nocolor a b) = r_lines (unified_nocolor a' b') /\
  r_ins (unified_nocolor a b) = r_ins (unified_nocolor a' b') /\
  r_del (unified_nocolor a b) = r_del (unified_nocolor a' b').
Proof.
  intros Hne Hn Hn' E.
  destruct (printed_injective _ _ _ _ _ _ _ _ Hne Hn Hn' E) as [-> _]. repeat split.
Qed.

(* ====================================================================== *)
(** * Examples (all by computation)                                         *)
(* ====================================================================== *)

(* a text line with its newline; texts from lines *)
Definition ln (s : string) : bytes := B s ++ [nl].
Definition text_nl (ls : list string) : bytes := concat (map ln ls).      (* every line ends with \n *)
Definition text_nonl (ls : list string) : bytes := join_nl (map B ls).    (* no final \n *)

Local Open Scope string_scope.

(* 1. "a\nb\nc" against "a\nB\nc\n": the added final newline is shown as an inserted empty line
      ("+ " followed by the newline); the last fragment "c" of the stored text is shown as "c\n",
      exactly as splitNewlines makes it *)
Example read_example_abc :
  let a := text_nonl ["a"; "b"; "c"] in
  let b := text_nl ["a"; "B"; "c"] in
  pretty_diff_nocolor a b (B "f.snap") 12
  = text_nl [""; "- Snapshot - 1"; "+ Received + 2"; "";
             "  a"; "- b"; "+ B"; "  c"; "+ "; ""; "at f.snap:12"]
  /\ read_report (pretty_diff_nocolor a b (B "f.snap") 12)
     = Some {| rr_del_count := 1; rr_ins_count := 2;
               rr_lines := [REq (ln "a"); RDel (ln "b"); RIns (ln "B"); REq (ln "c"); RIns (ln "")];
               rr_footer := Some (B "f.snap", 12) |}.
Proof. vm_compute. split; reflexivity. Qed.

(* without a name there is no footer *)
Example read_example_no_footer :
  read_report (pretty_diff_nocolor (B "a") (B "b") [] 5)
  = Some {| rr_del_count := 1; rr_ins_count := 1; rr_lines := [RDel (ln "a"); RIns (ln "b")];
            rr_footer := None |}.
Proof. vm_compute. reflexivity. Qed.

(* 2. text lines that look like report lines ("- ", "+ ", a hunk header, a footer, two spaces), and
      a name with colons: every text line sits behind its own 2-byte prefix, the name is cut at the
      LAST colon *)
Example read_example_lookalikes :
  let a := text_nl ["- x"; "+ y"; "@@ -1,2 +1,2 @@"; "at x:1"; "  z"] in
  let b := text_nl ["+ y"; "@@ -1,2 +1,2 @@"; "at x:1"; "- x"; "  z"] in
  read_report (pretty_diff_nocolor a b (B "d:r/f.snap") 7)
  = Some {| rr_del_count := 1; rr_ins_count := 1;
            rr_lines := [RDel (ln "- x"); REq (ln "+ y"); REq (ln "@@ -1,2 +1,2 @@");
                         REq (ln "at x:1"); RIns (ln "- x"); REq (ln "  z");
                         REq (new_line_symbol ++ [nl])%list];
            rr_footer := Some (B "d:r/f.snap", 7) |}
  /\ read_report (pretty_diff_nocolor a b (B "d:r/f.snap") 7)
     = Some (report_read_of (unified_nocolor a b) (B "d:r/f.snap") 7).
Proof. vm_compute. split; reflexivity. Qed.

(* 3. two 12-line texts differing in the first and in the last line: two hunks, each with its
      header "@@ -1,4 +1,4 @@" / "@@ -9,4 +9,4 @@" *)
Example read_example_two_hunks :
  let a := text_nonl ["l1";"l2";"l3";"l4";"l5";"l6";"l7";"l8";"l9";"l10";"l11";"l12"] in
  let b := text_nonl ["L1";"l2";"l3";"l4";"l5";"l6";"l7";"l8";"l9";"l10";"l11";"L12"] in
  pretty_diff_nocolor a b (B "f") 0
  = text_nl [""; "- Snapshot - 2"; "+ Received + 2"; "";
             "@@ -1,4 +1,4 @@"; ""; "- l1"; "+ L1"; "  l2"; "  l3"; "  l4";
             "@@ -9,4 +9,4 @@"; ""; "  l9"; "  l10"; "  l11"; "- l12"; "+ L12"; ""; "at f:0"]
  /\ read_report (pretty_diff_nocolor a b (B "f") 0)
     = Some {| rr_del_count := 2; rr_ins_count := 2;
               rr_lines := [RRange (B "1,4") (B "1,4"); RDel (ln "l1"); RIns (ln "L1");
                            REq (ln "l2"); REq (ln "l3"); REq (ln "l4");
                            RRange (B "9,4") (B "9,4"); REq (ln "l9"); REq (ln "l10"); REq (ln "l11");
                            RDel (ln "l12"); RIns (ln "L12")];
               rr_footer := Some (B "f", 0) |}.
Proof. vm_compute. split; reflexivity. Qed.

(* counts of different widths: the shorter numeral is padded *)
Example read_example_padding :
  let a := text_nonl ["1";"2";"3";"4";"5";"6";"7";"8";"9";"10"] in
  let b := B "x" in
  firstn 4 (split_nl (pretty_diff_nocolor a b (B "f") 3))
  = [ []; B "- Snapshot - 10"; B "+ Received  + 1"; [] ]
  /\ option_map (fun rr => (rr_del_count rr, rr_ins_count rr, length (rr_lines rr)))
                (read_report (pretty_diff_nocolor a b (B "f") 3)) = Some (10, 1, 11).
Proof. vm_compute. split; reflexivity. Qed.

(* 4. malformed texts are rejected.  The first text is well formed. *)
Example read_wellformed :
  read_report (text_nl [""; "- Snapshot - 1"; "+ Received + 1"; ""; "- a"; "+ b"; ""; "at f:3"])
  = Some {| rr_del_count := 1; rr_ins_count := 1; rr_lines := [RDel (ln "a"); RIns (ln "b")];
            rr_footer := Some (B "f", 3) |}.
Proof. vm_compute. reflexivity. Qed.

Example read_rejects :
  (* a count that is not a decimal numeral; a numeral with a leading zero *)
  read_report (text_nl [""; "- Snapshot - x"; "+ Received + 1"; ""; "- a"; "+ b"; ""; "at f:3"]) = None /\
  read_report (text_nl [""; "- Snapshot - 01"; "+ Received  + 1"; ""; "- a"; "+ b"; ""; "at f:3"]) = None /\
  (* an unknown prefix; a one-byte line *)
  read_report (text_nl [""; "- Snapshot - 1"; "+ Received + 1"; ""; "- a"; "* b"; ""; "at f:3"]) = None /\
  read_report (text_nl [""; "- Snapshot - 1"; "+ Received + 1"; ""; "- a"; "+"; ""; "at f:3"]) = None /\
  (* a hunk header with a bad range; a hunk header not followed by an empty line *)
  read_report (text_nl [""; "- Snapshot - 1"; "+ Received + 1"; ""; "@@ -1, +1,2 @@"; ""; "- a"; "+ b"; ""; "at f:3"]) = None /\
  read_report (text_nl [""; "- Snapshot - 1"; "+ Received + 1"; ""; "@@ -1,2 +1,2 @@"; "- a"; "+ b"; ""; "at f:3"]) = None /\
  (* the body is not closed by an empty line (the text was cut) *)
  read_report (text_nl [""; "- Snapshot - 1"; "+ Received + 1"; ""; "- a"; "+ b"]) = None /\
  (* a footer without line number; with an empty name; text after the footer; an empty body *)
  read_report (text_nl [""; "- Snapshot - 1"; "+ Received + 1"; ""; "- a"; "+ b"; ""; "at f"]) = None /\
  read_report (text_nl [""; "- Snapshot - 1"; "+ Received + 1"; ""; "- a"; "+ b"; ""; "at :3"]) = None /\
  read_report (text_nl [""; "- Snapshot - 1"; "+ Received + 1"; ""; "- a"; "+ b"; ""; "at f:3"; "more"]) = None /\
  read_report (text_nl [""; "- Snapshot - 0"; "+ Received + 0"; ""; ""; "at f:3"]) = None /\
  (* the last line is not terminated *)
  read_report (text_nonl [""; "- Snapshot - 1"; "+ Received + 1"; ""; "- a"; "+ b"; ""; "at f:3"]) = None.
Proof. vm_compute. repeat split. Qed.

(* 4b. the HEADER.  What is read of a count line is its mark and its number; the label is wording
       and the number of spaces behind it is alignment. *)

(* the report of [read_example_padding] with "Expected"/"Actual" in the place of "Snapshot"/
   "Received" (labels of different lengths: the paddings differ, 1 and 4 spaces instead of 1 and 2)
   reads to the SAME [report_read] *)
Example read_example_other_labels :
  let a := text_nonl ["1";"2";"3";"4";"5";"6";"7";"8";"9";"10"] in
  let b := B "x" in
  let rest := [""; "- 1"; "- 2"; "- 3"; "- 4"; "- 5"; "- 6"; "- 7"; "- 8"; "- 9"; "- 10"; "+ x"; "";
               "at f:3"] in
  pretty_diff_nocolor a b (B "f") 3 = text_nl ([""; "- Snapshot - 10"; "+ Received  + 1"] ++ rest)
  /\ read_report (text_nl ([""; "- Expected - 10"; "+ Actual    + 1"] ++ rest))
     = read_report (pretty_diff_nocolor a b (B "f") 3)
  /\ read_report (text_nl ([""; "- Expected - 10"; "+ Actual    + 1"] ++ rest))
     = Some (report_read_of (unified_nocolor a b) (B "f") 3)
  /\ option_map (fun rr => (rr_del_count rr, rr_ins_count rr, length (rr_lines rr), rr_footer rr))
                (read_report (text_nl ([""; "- Expected - 10"; "+ Actual    + 1"] ++ rest)))
     = Some (10, 1, 11, Some (B "f", 3)).
Proof. vm_compute. repeat split. Qed.

(* the generalised printer on the same pair of texts: its bytes, and what is read of them *)
Example read_example_render_lbl :
  let a := text_nonl ["1";"2";"3";"4";"5";"6";"7";"8";"9";"10"] in
  let b := B "x" in
  firstn 4 (split_nl (render_lbl (B "Expected") (B "Actual") (unified_nocolor a b) (B "f") 3))
  = [ []; B "- Expected - 10"; B "+ Actual  + 1"; [] ]
  /\ read_report (render_lbl (B "Expected") (B "Actual") (unified_nocolor a b) (B "f") 3)
     = read_report (pretty_diff_nocolor a b (B "f") 3).
Proof. vm_compute. split; reflexivity. Qed.

(* labels of other alphabets and with punctuation; counts that are not aligned *)
Example read_header_accepts :
  let rr := Some {| rr_del_count := 1; rr_ins_count := 1; rr_lines := [RDel (ln "a"); RIns (ln "b")];
                    rr_footer := Some (B "f", 3) |} in
  read_report (text_nl [""; "- Snapshot - 1"; "+ Received + 1"; ""; "- a"; "+ b"; ""; "at f:3"]) = rr /\
  read_report (text_nl [""; "- Snapshot  - 1"; "+ Received + 1"; ""; "- a"; "+ b"; ""; "at f:3"]) = rr /\
  read_report (text_nl [""; "- Expected - 1"; "+ Actual + 1"; ""; "- a"; "+ b"; ""; "at f:3"]) = rr /\
  read_report (text_nl [""; "- want: - 1"; "+ got:      + 1"; ""; "- a"; "+ b"; ""; "at f:3"]) = rr /\
  read_report (text_nl [""; "- - - 1"; "+ + + 1"; ""; "- a"; "+ b"; ""; "at f:3"]) = rr.
Proof. vm_compute. repeat split. Qed.

Example read_header_rejects :
  (* an empty label (first line; second line) *)
  read_report (text_nl [""; "-  - 1"; "+ Received + 1"; ""; "- a"; "+ b"; ""; "at f:3"]) = None /\
  read_report (text_nl [""; "- Snapshot - 1"; "+  + 1"; ""; "- a"; "+ b"; ""; "at f:3"]) = None /\
  read_report (text_nl [""; "- - 1"; "+ + 1"; ""; "- a"; "+ b"; ""; "at f:3"]) = None /\
  (* a numeral with a leading zero (first line; second line); an empty numeral; a signed numeral;
     bytes after the numeral *)
  read_report (text_nl [""; "- Snapshot - 01"; "+ Received + 1"; ""; "- a"; "+ b"; ""; "at f:3"]) = None /\
  read_report (text_nl [""; "- Snapshot - 1"; "+ Received + 01"; ""; "- a"; "+ b"; ""; "at f:3"]) = None /\
  read_report (text_nl [""; "- Snapshot - "; "+ Received + 1"; ""; "- a"; "+ b"; ""; "at f:3"]) = None /\
  read_report (text_nl [""; "- Snapshot - +1"; "+ Received + 1"; ""; "- a"; "+ b"; ""; "at f:3"]) = None /\
  read_report (text_nl [""; "- Snapshot - 1 "; "+ Received + 1"; ""; "- a"; "+ b"; ""; "at f:3"]) = None /\
  (* the marks swapped: both lines; the leading marks only; the marks before the numerals only *)
  read_report (text_nl [""; "+ Snapshot + 1"; "- Received - 1"; ""; "- a"; "+ b"; ""; "at f:3"]) = None /\
  read_report (text_nl [""; "+ Snapshot - 1"; "- Received + 1"; ""; "- a"; "+ b"; ""; "at f:3"]) = None /\
  read_report (text_nl [""; "- Snapshot + 1"; "+ Received - 1"; ""; "- a"; "+ b"; ""; "at f:3"]) = None /\
  (* the two count lines in the other order *)
  read_report (text_nl [""; "+ Received + 1"; "- Snapshot - 1"; ""; "- a"; "+ b"; ""; "at f:3"]) = None /\
  (* no space between the label and the second mark; a label of two words; a missing count line *)
  read_report (text_nl [""; "- Snapshot- 1"; "+ Received + 1"; ""; "- a"; "+ b"; ""; "at f:3"]) = None /\
  read_report (text_nl [""; "- Stored text - 1"; "+ Received + 1"; ""; "- a"; "+ b"; ""; "at f:3"]) = None /\
  read_report (text_nl [""; "- Snapshot - 1"; ""; "- a"; "+ b"; ""; "at f:3"]) = None.
Proof. vm_compute. repeat split. Qed.

(* 5. the two hypotheses of [read_report_correct] are needed:
      - for a = b nothing is printed, and the empty text is not a report;
      - the reader is line-oriented and the footer is ONE line: a name with a newline breaks it *)
Example hypothesis_different_needed :
  pretty_diff_nocolor (B "a") (B "a") (B "f") 1 = [] /\ read_report [] = None.
Proof. vm_compute. split; reflexivity. Qed.

Example hypothesis_name_needed :
  let name := (B "f" ++ [nl] ++ B "g")%list in
  name_ok name = false /\ read_report (pretty_diff_nocolor (B "a") (B "b") name 1) = None.
Proof. vm_compute. split; reflexivity. Qed.

(* 6. where the format WOULD be ambiguous.
      (a) Outside the invariant [rline_wf] (each text line ends with its only newline) two different
          structures print the same bytes; [unified_wf] is what excludes this for real reports. *)
Example render_ambiguous_without_invariant :
  render_body [REq (ln "a" ++ ln "- b")%list] = render_body [REq (ln "a"); RDel (ln "b")]
  /\ [REq (ln "a" ++ ln "- b")%list] <> [REq (ln "a"); RDel (ln "b")].
Proof. split; [vm_compute; reflexivity|discriminate]. Qed.

(*    (b) The structure itself forgets something: an empty context line is shown as the newline
          symbol, so it cannot be told from a context line that IS the newline symbol.  Different
          texts, same structure, same bytes (context lines only; "- "/"+ " lines are verbatim). *)
Example context_newline_symbol_ambiguous :
  let a := ([nl] ++ B "x")%list in let b := ([nl] ++ B "y")%list in
  let a' := (new_line_symbol ++ [nl] ++ B "x")%list in let b' := (new_line_symbol ++ [nl] ++ B "y")%list in
  a <> a' /\ pretty_diff_nocolor a b (B "f") 1 = pretty_diff_nocolor a' b' (B "f") 1 /\
  r_lines (unified_nocolor a b) = [REq (new_line_symbol ++ [nl])%list; RDel (ln "x"); RIns (ln "y")].
Proof. split; [discriminate|vm_compute; split; reflexivity]. Qed.

Close Scope string_scope.

Print Assumptions read_report_correct.
Print Assumptions read_report_text.
Print Assumptions read_render_lbl_correct.
Print Assumptions read_report_label_irrelevant.
Print Assumptions read_build_report_label_irrelevant.
Print Assumptions printed_counts.
Print Assumptions printed_lines_truthful.
Print Assumptions printed_context_common.
Print Assumptions printed_residual.
Print Assumptions printed_injective.
Print Assumptions printed_injective_lines.
