(* The FILE level of Clean (C09): directory listing, examineFiles, and the frame of a whole
   clean_run on the file system (snaps/clean.go Clean, examineFiles, examineSnaps). *)
From Coq Require Import String.
From Coq Require Import List NArith Arith Bool Lia Permutation.
Import ListNotations.
From Snaps Require Import Base.Bytes Base.Lines Base.Dec Base.Assoc.
From Snaps Require Import Model.Frame Model.PathModel Model.Mode Model.Api Model.Natural Model.Clean.
From Snaps Require Import Proofs.BytesP Proofs.FrameP Proofs.CleanP Proofs.CleanEntriesP.

(* ====================================================================================== *)
(* 0. Small facts about lists of byte strings                                             *)
(* ====================================================================================== *)

Lemma bytes_eq_dec (a b : bytes) : {a = b} + {a <> b}.
Proof. destruct (beq_spec a b); [left|right]; assumption. Qed.

Lemma mem_bytes_in x l : mem_bytes x l = true <-> In x l.
Proof.
  induction l as [|y l IH]; cbn [mem_bytes In]; [split; [discriminate|tauto]|].
  rewrite orb_true_iff, IH, beq_eq. split; intros [H|H]; auto.
Qed.

Lemma mem_bytes_notin x l : mem_bytes x l = false <-> ~ In x l.
Proof.
  rewrite <- mem_bytes_in. destruct (mem_bytes x l); split; congruence.
Qed.

Lemma dedup_in x l : In x (dedup l) <-> In x l.
Proof.
  induction l as [|y l IH]; cbn [dedup]; [tauto|].
  destruct (mem_bytes y l) eqn:E.
  - rewrite IH. cbn [In]. split; [auto|]. intros [<-|H]; [now apply mem_bytes_in|assumption].
  - cbn [In]. rewrite IH. tauto.
Qed.

Lemma dedup_nodup l : NoDup (dedup l).
Proof.
  induction l as [|y l IH]; cbn [dedup]; [constructor|].
  destruct (mem_bytes y l) eqn:E; [assumption|].
  constructor; [|assumption]. rewrite dedup_in. now apply mem_bytes_notin.
Qed.

Lemma dedup_fixed_nodup l : dedup l = l -> NoDup l.
Proof. intros <-. apply dedup_nodup. Qed.

(* sort_bytes (insertion sort) is a permutation *)
Lemma insert_sorted_perm x l : Permutation (insert_sorted x l) (x :: l).
Proof.
  induction l as [|y l IH]; cbn [insert_sorted]; [apply Permutation_refl|].
  destruct (bytes_ltb y x); [|apply Permutation_refl].
  eapply Permutation_trans; [apply perm_skip, IH|apply perm_swap].
Qed.

Lemma sort_bytes_perm l : Permutation (sort_bytes l) l.
Proof.
  induction l as [|x l IH]; [apply Permutation_refl|].
  unfold sort_bytes in *. cbn [fold_right].
  eapply Permutation_trans; [apply insert_sorted_perm|now apply perm_skip].
Qed.

Lemma sort_bytes_in x l : In x (sort_bytes l) <-> In x l.
Proof.
  split; apply Permutation_in; [apply sort_bytes_perm|apply Permutation_sym, sort_bytes_perm].
Qed.

Lemma sort_bytes_nodup l : NoDup l -> NoDup (sort_bytes l).
Proof. apply Permutation_NoDup, Permutation_sym, sort_bytes_perm. Qed.

Lemma flat_map_ext_in' {A B} (f g : A -> list B) l :
  (forall a, In a l -> f a = g a) -> flat_map f l = flat_map g l.
Proof.
  induction l as [|a l IH]; intros H; [reflexivity|].
  cbn [flat_map]. rewrite (H a) by now left. f_equal. apply IH. intros b Hb. apply H. now right.
Qed.

Lemma flat_map_fst {A B C} (h : A -> list C) (l : list (A * B)) :
  flat_map (fun e => h (fst e)) l = flat_map h (map fst l).
Proof. induction l as [|e l IH]; [reflexivity|]. cbn [flat_map map]. now rewrite IH. Qed.

(* a flat_map has no duplicates when the index list has none, every piece has none, and
   pieces of different indices are disjoint *)
Lemma flat_map_nodup {A B} (f : A -> list B) l :
  NoDup l -> (forall a, In a l -> NoDup (f a)) ->
  (forall a b x, In a l -> In b l -> In x (f a) -> In x (f b) -> a = b) ->
  NoDup (flat_map f l).
Proof.
  induction l as [|a l IH]; intros Hl Hf Hd; [constructor|].
  cbn [flat_map]. inversion Hl as [|? ? Hna Hl']; subst.
  assert (Hrest : NoDup (flat_map f l)).
  { apply IH; [assumption| |].
    - intros b Hb. apply Hf. now right.
    - intros b c x Hb Hc. apply Hd; now right. }
  assert (Ha : NoDup (f a)) by (apply Hf; now left).
  revert Ha. generalize (Hd a). intros Hda.
  induction (f a) as [|x fa IHfa]; intros Ha; [assumption|].
  cbn [app]. inversion Ha as [|? ? Hx Ha']; subst. constructor.
  - intros Hin. apply in_app_or in Hin as [Hin|Hin]; [contradiction|].
    apply in_flat_map in Hin as [b [Hb Hxb]].
    assert (a = b) by (apply (Hda b x); [now left|now right|now left|assumption]).
    subst b. contradiction.
  - apply IHfa; [|assumption]. intros b y H1 H2 H3 H4. apply (Hda b y); auto. now right.
Qed.

(* ====================================================================================== *)
(* 1. The directory listing                                                               *)
(* ====================================================================================== *)

(* the prefix every direct child of [dir] starts with: "/" for the root, dir ++ "/" otherwise
   (exactly the [pre] of Model.Clean.file_name_in) *)
Definition dir_pre (dir : bytes) : bytes := match dir with [47%N] => dir | _ => dir ++ [slash] end.

Lemma dir_pre_other d : d <> [slash] -> dir_pre d = d ++ [slash].
Proof.
  intros H. unfold dir_pre. destruct d as [|x r]; [reflexivity|].
  destruct x as [|px]; [reflexivity|].
  repeat (destruct px as [px|px|]; try reflexivity).
  destruct r; [contradiction H; reflexivity|reflexivity].
Qed.

Lemma is_prefix_skipn p s : is_prefix p s = true -> s = p ++ skipn (length p) s.
Proof.
  revert s; induction p as [|x p IH]; intros s H; [reflexivity|].
  destruct s as [|y s]; cbn [is_prefix] in H; [discriminate|].
  apply andb_true_iff in H as [H1 H2]. apply N.eqb_eq in H1. subst y.
  cbn [length skipn app]. f_equal. now apply IH.
Qed.

Lemma is_prefix_app p r : is_prefix p (p ++ r) = true.
Proof. induction p as [|x p IH]; [reflexivity|]. cbn [app is_prefix]. now rewrite N.eqb_refl, IH. Qed.

Lemma skipn_app_length {A} (p r : list A) : skipn (length p) (p ++ r) = r.
Proof. induction p as [|x p IH]; [reflexivity|]. cbn [length app skipn]. exact IH. Qed.

Lemma existsb_slash n : existsb (N.eqb slash) n = false <-> ~ In slash n.
Proof.
  induction n as [|c n IH]; cbn [existsb In]; [split; [tauto|reflexivity]|].
  rewrite orb_false_iff, IH, N.eqb_neq. split.
  - intros [H1 H2] [H|H]; [now apply H1|now apply H2].
  - intros H. split; [intros E|intros E]; apply H; [left; now symmetry|now right].
Qed.

Lemma file_name_in_unfold dir path :
  file_name_in dir path =
  if is_prefix (dir_pre dir) path then
    let n := skipn (length (dir_pre dir)) path in
    if negb (existsb (N.eqb slash) n) && negb (beq n []) then Some n else None
  else None.
Proof. reflexivity. Qed.

(* [file_name_in dir p = Some n] says exactly: p = pre ++ n for a non-empty, slash-free n *)
Theorem file_name_in_spec dir p n :
  file_name_in dir p = Some n <-> n <> [] /\ ~ In slash n /\ p = dir_pre dir ++ n.
Proof.
  rewrite file_name_in_unfold. split.
  - destruct (is_prefix (dir_pre dir) p) eqn:Ep; [|discriminate].
    cbv zeta. destruct (existsb (N.eqb slash) _) eqn:Es; cbn [negb andb]; [discriminate|].
    destruct (beq_spec (skipn (length (dir_pre dir)) p) []) as [E|E]; cbn [negb]; [discriminate|].
    intros [= <-]. split; [assumption|]. split; [now apply existsb_slash|now apply is_prefix_skipn].
  - intros [Hne [Hs ->]]. rewrite is_prefix_app. cbv zeta. rewrite skipn_app_length.
    apply existsb_slash in Hs. rewrite Hs. destruct (beq_spec n []); [contradiction|reflexivity].
Qed.

Corollary file_name_in_some dir p n :
  file_name_in dir p = Some n -> n <> [] /\ ~ In slash n /\ p = dir_pre dir ++ n.
Proof. apply file_name_in_spec. Qed.

(* the listing: exactly the names of the fs keys that are direct children of [dir] *)
Theorem readdir_files_in fs dir n :
  In n (readdir_files fs dir) <-> exists p c, In (p, c) fs /\ file_name_in dir p = Some n.
Proof.
  unfold readdir_files. rewrite sort_bytes_in, in_flat_map. split.
  - intros [[p c] [Hin Hn]]. cbn [fst] in Hn. exists p, c. split; [assumption|].
    destruct (file_name_in dir p) as [m|]; [|destruct Hn]. destruct Hn as [->|[]]. reflexivity.
  - intros [p [c [Hin Hn]]]. exists (p, c). split; [assumption|]. cbn [fst]. rewrite Hn. now left.
Qed.

Corollary readdir_files_name fs dir n :
  In n (readdir_files fs dir) -> n <> [] /\ ~ In slash n /\ In (dir_pre dir ++ n) (map fst fs).
Proof.
  intros H. apply readdir_files_in in H as [p [c [Hin Hn]]].
  apply file_name_in_spec in Hn as [H1 [H2 ->]]. split; [assumption|]. split; [assumption|].
  apply in_map_iff. exists (dir_pre dir ++ n, c). split; [reflexivity|assumption].
Qed.

Corollary readdir_files_key fs dir n :
  n <> [] -> ~ In slash n -> In (dir_pre dir ++ n) (map fst fs) -> In n (readdir_files fs dir).
Proof.
  intros H1 H2 H. apply in_map_iff in H as [[p c] [Hp Hin]]. cbn [fst] in Hp. subst p.
  apply readdir_files_in. exists (dir_pre dir ++ n), c. split; [assumption|].
  apply file_name_in_spec. auto.
Qed.

(* a file in a sub-directory (dir/sub/x) is not a direct child, whatever sub and x are ... *)
Corollary file_name_in_subdir dir sub x : file_name_in dir (dir_pre dir ++ sub ++ slash :: x) = None.
Proof.
  destruct (file_name_in dir (dir_pre dir ++ sub ++ slash :: x)) as [n|] eqn:E; [|reflexivity].
  apply file_name_in_spec in E as [_ [Hs E]]. apply app_inv_head in E. subst n.
  exfalso. apply Hs. apply in_or_app. right. now left.
Qed.

(* ... so it contributes nothing to the listing: every listed name belongs to a key that is
   dir_pre dir ++ name with a slash-free name, never to dir/sub/x *)
Corollary readdir_files_not_subdir fs dir n sub x :
  In n (readdir_files fs dir) -> dir_pre dir ++ n <> dir_pre dir ++ sub ++ slash :: x.
Proof.
  intros H E. apply readdir_files_name in H as [_ [Hs _]]. apply app_inv_head in E. subst n.
  apply Hs. apply in_or_app. right. now left.
Qed.

(* with unique keys the listing has no duplicates *)
Lemma readdir_files_nodup fs dir : NoDup (map fst fs) -> NoDup (readdir_files fs dir).
Proof.
  intros Hk. unfold readdir_files. apply sort_bytes_nodup.
  rewrite (flat_map_fst (fun p => match file_name_in dir p with Some n => [n] | None => [] end)).
  apply flat_map_nodup; [assumption| |].
  - intros p _. destruct (file_name_in dir p); repeat constructor. intros [].
  - intros p q n _ _ Hp Hq.
    destruct (file_name_in dir p) as [n1|] eqn:E1; [|destruct Hp]. destruct Hp as [->|[]].
    destruct (file_name_in dir q) as [n2|] eqn:E2; [|destruct Hq]. destruct Hq as [->|[]].
    apply file_name_in_spec in E1 as [_ [_ ->]]. apply file_name_in_spec in E2 as [_ [_ ->]]. reflexivity.
Qed.

(* ====================================================================================== *)
(* 2. examine_files                                                                       *)
(* ====================================================================================== *)

(* generic: a fold whose step only appends to the two lists *)
Lemma fold_two_lists {A} (step : files_result -> A -> files_result) (fo fu : A -> list bytes) :
  (forall acc a, fr_obsolete (step acc a) = fr_obsolete acc ++ fo a /\
                 fr_used (step acc a) = fr_used acc ++ fu a) ->
  forall l acc,
    fr_obsolete (fold_left step l acc) = fr_obsolete acc ++ flat_map fo l /\
    fr_used (fold_left step l acc) = fr_used acc ++ flat_map fu l.
Proof.
  intros Hstep. induction l as [|a l IH]; intros acc; cbn [fold_left flat_map].
  - now rewrite !app_nil_r.
  - destruct (IH (step acc a)) as [-> ->]. destruct (Hstep acc a) as [-> ->].
    now rewrite !app_assoc.
Qed.

Section ExamineFiles.
  Variables (fs : list (bytes * bytes)) (paths standalone : list bytes).

  (* what one directory entry contributes *)
  Definition obs_of (dir name : bytes) : list bytes :=
    if contains snaps_ext name && negb (mem_bytes (join2 dir name) paths)
       && negb (mem_bytes (join2 dir name) standalone) then [join2 dir name] else [].
  Definition used_of (dir name : bytes) : list bytes :=
    if contains snaps_ext name && mem_bytes (join2 dir name) paths then [join2 dir name] else [].

  Definition file_step (dir : bytes) (acc : files_result) (name : bytes) : files_result :=
    if negb (contains snaps_ext name) then acc else
    let p := join2 dir name in
    if mem_bytes p paths then {| fr_obsolete := fr_obsolete acc; fr_used := fr_used acc ++ [p] |}
    else if mem_bytes p standalone then acc
    else {| fr_obsolete := fr_obsolete acc ++ [p]; fr_used := fr_used acc |}.

  Lemma file_step_spec dir acc name :
    fr_obsolete (file_step dir acc name) = fr_obsolete acc ++ obs_of dir name /\
    fr_used (file_step dir acc name) = fr_used acc ++ used_of dir name.
  Proof.
    unfold file_step, obs_of, used_of.
    destruct (contains snaps_ext name); cbn [negb andb]; [|now rewrite !app_nil_r].
    cbv zeta. destruct (mem_bytes (join2 dir name) paths); cbn [negb andb fr_obsolete fr_used];
      [now rewrite !app_nil_r|].
    destruct (mem_bytes (join2 dir name) standalone); cbn [negb fr_obsolete fr_used];
      now rewrite !app_nil_r.
  Qed.

  Definition dir_step (acc : files_result) (dir : bytes) : files_result :=
    fold_left (file_step dir) (readdir_files fs dir) acc.

  Lemma dir_step_spec acc dir :
    fr_obsolete (dir_step acc dir) = fr_obsolete acc ++ flat_map (obs_of dir) (readdir_files fs dir) /\
    fr_used (dir_step acc dir) = fr_used acc ++ flat_map (used_of dir) (readdir_files fs dir).
  Proof. apply (fold_two_lists (file_step dir)). intros acc' a. apply file_step_spec. Qed.

  Lemma walk_spec dirs :
    fr_obsolete (fold_left dir_step dirs {| fr_obsolete := []; fr_used := [] |}) =
      flat_map (fun dir => flat_map (obs_of dir) (readdir_files fs dir)) dirs /\
    fr_used (fold_left dir_step dirs {| fr_obsolete := []; fr_used := [] |}) =
      flat_map (fun dir => flat_map (used_of dir) (readdir_files fs dir)) dirs.
  Proof.
    apply (fold_two_lists dir_step
             (fun dir => flat_map (obs_of dir) (readdir_files fs dir))
             (fun dir => flat_map (used_of dir) (readdir_files fs dir))).
    intros acc dir. apply dir_step_spec.
  Qed.
End ExamineFiles.

(* the directories Clean visits *)
Definition visited_dirs (cleanup : list (key2 * nat)) (standalone : list bytes) : list bytes :=
  dedup (map dirname (registry_paths cleanup) ++ map dirname standalone).

Lemma examine_files_unfold fs cleanup standalone :
  examine_files fs cleanup standalone =
  fold_left (dir_step fs (registry_paths cleanup) standalone) (visited_dirs cleanup standalone)
            {| fr_obsolete := []; fr_used := [] |}.
Proof. reflexivity. Qed.

(* the two lists, in order *)
Theorem examine_files_obsolete_eq fs cleanup standalone :
  fr_obsolete (examine_files fs cleanup standalone) =
  flat_map (fun dir => flat_map (obs_of (registry_paths cleanup) standalone dir) (readdir_files fs dir))
           (visited_dirs cleanup standalone).
Proof. rewrite examine_files_unfold. apply walk_spec. Qed.

Theorem examine_files_used_eq fs cleanup standalone :
  fr_used (examine_files fs cleanup standalone) =
  flat_map (fun dir => flat_map (used_of (registry_paths cleanup) dir) (readdir_files fs dir))
           (visited_dirs cleanup standalone).
Proof. rewrite examine_files_unfold. apply walk_spec. Qed.

(* EXACT characterisation of the obsolete-file report (completeness and exactness) *)
Theorem examine_files_obsolete_iff fs cleanup standalone p :
  let paths := registry_paths cleanup in
  let dirs := dedup (map dirname paths ++ map dirname standalone) in
  In p (fr_obsolete (examine_files fs cleanup standalone)) <->
  exists dir name, In dir dirs /\ In name (readdir_files fs dir) /\ contains snaps_ext name = true /\
                   p = join2 dir name /\ mem_bytes p paths = false /\ mem_bytes p standalone = false.
Proof.
  cbv zeta. rewrite examine_files_obsolete_eq. fold (visited_dirs cleanup standalone).
  rewrite in_flat_map. split.
  - intros [dir [Hd H]]. apply in_flat_map in H as [name [Hn H]]. exists dir, name.
    unfold obs_of in H.
    destruct (contains snaps_ext name); cbn [andb] in H; [|destruct H].
    destruct (mem_bytes (join2 dir name) (registry_paths cleanup)) eqn:E1; cbn [negb andb] in H; [destruct H|].
    destruct (mem_bytes (join2 dir name) standalone) eqn:E2; cbn [negb] in H; [destruct H|].
    destruct H as [<-|[]]. auto 10.
  - intros [dir [name [Hd [Hn [Hc [-> [H1 H2]]]]]]]. exists dir. split; [assumption|].
    apply in_flat_map. exists name. split; [assumption|]. unfold obs_of. rewrite Hc, H1, H2. now left.
Qed.

Theorem examine_files_used_iff fs cleanup standalone p :
  let paths := registry_paths cleanup in
  let dirs := dedup (map dirname paths ++ map dirname standalone) in
  In p (fr_used (examine_files fs cleanup standalone)) <->
  exists dir name, In dir dirs /\ In name (readdir_files fs dir) /\ contains snaps_ext name = true /\
                   p = join2 dir name /\ mem_bytes p paths = true.
Proof.
  cbv zeta. rewrite examine_files_used_eq. fold (visited_dirs cleanup standalone).
  rewrite in_flat_map. split.
  - intros [dir [Hd H]]. apply in_flat_map in H as [name [Hn H]]. exists dir, name.
    unfold used_of in H.
    destruct (contains snaps_ext name); cbn [andb] in H; [|destruct H].
    destruct (mem_bytes (join2 dir name) (registry_paths cleanup)) eqn:E1; [|destruct H].
    destruct H as [<-|[]]. auto 10.
  - intros [dir [name [Hd [Hn [Hc [-> H1]]]]]]. exists dir. split; [assumption|].
    apply in_flat_map. exists name. split; [assumption|]. unfold used_of. rewrite Hc, H1. now left.
Qed.

(* a path is never both reported obsolete and used *)
Lemma obsolete_used_disjoint fs cleanup standalone p :
  In p (fr_obsolete (examine_files fs cleanup standalone)) ->
  In p (fr_used (examine_files fs cleanup standalone)) -> False.
Proof.
  intros H1 H2. apply examine_files_obsolete_iff in H1 as [? [? [_ [_ [_ [_ [H1 _]]]]]]].
  apply examine_files_used_iff in H2 as [? [? [_ [_ [_ [_ H2]]]]]]. congruence.
Qed.

(* ====================================================================================== *)
(* 2b. filepath.Clean normal forms: what join2 / dirname do on a visited directory        *)
(* ====================================================================================== *)

(* clean_comps, returning the stack instead of its reversal *)
Fixpoint cc_stack (rooted : bool) (comps : list bytes) (stack : list bytes) : list bytes :=
  match comps with
  | [] => stack
  | c :: r =>
      if beq c [] || beq c [dot] then cc_stack rooted r stack
      else if beq c dotdot then
        match stack with
        | top :: rest =>
            if beq top dotdot then cc_stack rooted r (c :: stack)
            else cc_stack rooted r rest
        | [] => if rooted then cc_stack rooted r [] else cc_stack rooted r [c]
        end
      else cc_stack rooted r (c :: stack)
  end.

Lemma clean_comps_stack rooted cs st : clean_comps rooted cs st = rev (cc_stack rooted cs st).
Proof.
  revert st. induction cs as [|c cs IH]; intros st; cbn [clean_comps cc_stack]; [reflexivity|].
  destruct (beq c [] || beq c [dot]); [apply IH|].
  destruct (beq c dotdot); [|apply IH].
  destruct st as [|top rest]; [destruct rooted; apply IH|].
  destruct (beq top dotdot); apply IH.
Qed.

Lemma cc_stack_app rooted a b st : cc_stack rooted (a ++ b) st = cc_stack rooted b (cc_stack rooted a st).
Proof.
  revert st. induction a as [|c a IH]; intros st; cbn [app cc_stack]; [reflexivity|].
  destruct (beq c [] || beq c [dot]); [apply IH|].
  destruct (beq c dotdot); [|apply IH].
  destruct st as [|top rest]; [destruct rooted; apply IH|].
  destruct (beq top dotdot); apply IH.
Qed.

Definition noslash (c : bytes) : Prop := ~ In slash c.
(* a proper path component *)
Definition okc (c : bytes) : Prop := c <> [] /\ c <> [dot] /\ noslash c.

(* normal stacks (top = last component): proper components, ".." only at the bottom of a
   relative path *)
Fixpoint nfst (rooted : bool) (st : list bytes) : Prop :=
  match st with
  | [] => True
  | c :: r => okc c /\ (c = dotdot -> rooted = false /\ Forall (fun x => x = dotdot) r) /\ nfst rooted r
  end.

Lemma nfst_app_r rooted a b : nfst rooted (a ++ b) -> nfst rooted b.
Proof. induction a as [|c a IH]; cbn [app nfst]; [auto|]. intros [_ [_ H]]. auto. Qed.

Lemma nfst_okc rooted st : nfst rooted st -> Forall okc st.
Proof. induction st as [|c st IH]; cbn [nfst]; [constructor|]. intros [H1 [_ H2]]. constructor; auto. Qed.

Lemma okc_dotdot : okc dotdot.
Proof. repeat split; try discriminate. intros [H|[H|[]]]; discriminate. Qed.

Lemma cc_stack_nf rooted cs : forall st,
  Forall noslash cs -> nfst rooted st -> nfst rooted (cc_stack rooted cs st).
Proof.
  induction cs as [|c cs IH]; intros st Hcs Hst; cbn [cc_stack]; [assumption|].
  inversion Hcs as [|? ? Hc Hcs']; subst.
  destruct (beq_spec c []) as [E0|E0]; cbn [orb]; [now apply IH|].
  destruct (beq_spec c [dot]) as [E1|E1]; [now apply IH|].
  destruct (beq_spec c dotdot) as [E2|E2].
  - subst c. destruct st as [|top rest].
    + destruct rooted; apply IH; auto. cbn [nfst]. split; [apply okc_dotdot|]. split; [|exact I].
      intros _. split; [reflexivity|constructor].
    + destruct (beq_spec top dotdot) as [E3|E3].
      * apply IH; [assumption|]. subst top. cbn [nfst] in Hst |- *. destruct Hst as [H1 [H2 H3]].
        destruct (H2 eq_refl) as [Hr Hall]. split; [apply okc_dotdot|]. split; [|auto].
        intros _. split; [assumption|]. constructor; auto.
      * apply IH; [assumption|]. cbn [nfst] in Hst. tauto.
  - apply IH; [assumption|]. cbn [nfst]. split; [repeat split; assumption|]. split; [|assumption].
    intros E. contradiction.
Qed.

(* feeding the components of a normal stack back reproduces it *)
Lemma cc_stack_replay rooted cs : forall st0,
  nfst rooted (rev cs ++ st0) -> cc_stack rooted cs st0 = rev cs ++ st0.
Proof.
  induction cs as [|c cs IH]; intros st0 H; [reflexivity|].
  cbn [rev] in H |- *. rewrite <- app_assoc in H |- *. cbn [app] in H |- *.
  pose proof (nfst_app_r _ _ _ H) as Hc. cbn [nfst] in Hc. destruct Hc as [[N0 [N1 N2]] [Hdd _]].
  cbn [cc_stack].
  destruct (beq_spec c []) as [E0|_]; [contradiction|]. cbn [orb].
  destruct (beq_spec c [dot]) as [E1|_]; [contradiction|].
  destruct (beq_spec c dotdot) as [E2|E2]; [|now apply IH].
  destruct (Hdd E2) as [Hr Hall]. destruct st0 as [|top rest].
  - subst rooted. now apply IH.
  - inversion Hall as [|? ? Ht _]; subst top. rewrite beq_refl. now apply IH.
Qed.

(* ---- split_slash / join_slash ---- *)

Lemma split_slash_nonempty s : split_slash s <> [].
Proof.
  destruct s as [|c s]; cbn [split_slash]; [discriminate|].
  destruct (N.eqb c slash); [discriminate|]. destruct (split_slash s); discriminate.
Qed.

Lemma split_slash_noslash n : noslash n -> split_slash n = [n].
Proof.
  induction n as [|c n IH]; intros H; [reflexivity|]. cbn [split_slash].
  destruct (N.eqb_spec c slash) as [E|E]; [exfalso; apply H; left; now symmetry|].
  rewrite IH; [reflexivity|]. intros Hin. apply H. now right.
Qed.

Lemma split_slash_app a b : split_slash (a ++ slash :: b) = split_slash a ++ split_slash b.
Proof.
  induction a as [|c a IH]; cbn [app split_slash].
  - now rewrite N.eqb_refl.
  - destruct (N.eqb c slash); [now rewrite IH|]. rewrite IH.
    pose proof (split_slash_nonempty a) as Hn. destruct (split_slash a) as [|l ls]; [contradiction|].
    reflexivity.
Qed.

Lemma split_slash_all_noslash s : Forall noslash (split_slash s).
Proof.
  induction s as [|c s IH]; cbn [split_slash]; [repeat constructor; intros []|].
  destruct (N.eqb_spec c slash) as [E|E]; [constructor; [intros []|assumption]|].
  destruct (split_slash s) as [|l ls]; [repeat constructor; intros [H|[]]; now apply E|].
  inversion IH as [|? ? Hl Hls]; subst. constructor; [|assumption].
  intros [H|H]; [now apply E|now apply Hl].
Qed.

Lemma join_slash_cons l ls : ls <> [] -> join_slash (l :: ls) = l ++ slash :: join_slash ls.
Proof. destruct ls; [contradiction|reflexivity]. Qed.

Lemma join_slash_snoc cs n : cs <> [] -> join_slash (cs ++ [n]) = join_slash cs ++ slash :: n.
Proof.
  induction cs as [|c cs IH]; intros H; [contradiction|].
  destruct cs as [|c' cs]; [reflexivity|].
  change (join_slash ((c :: c' :: cs) ++ [n])) with (c ++ slash :: join_slash ((c' :: cs) ++ [n])).
  rewrite IH by discriminate.
  rewrite (join_slash_cons c (c' :: cs)) by discriminate. now rewrite <- app_assoc.
Qed.

Lemma split_slash_join cs : cs <> [] -> Forall noslash cs -> split_slash (join_slash cs) = cs.
Proof.
  induction cs as [|c cs IH]; intros Hne H; [contradiction|].
  inversion H as [|? ? Hc Hcs]; subst. destruct cs as [|c' cs].
  - cbn [join_slash]. now apply split_slash_noslash.
  - rewrite join_slash_cons by discriminate. rewrite split_slash_app, split_slash_noslash by assumption.
    rewrite IH by (discriminate || assumption). reflexivity.
Qed.

(* ---- the shape of every result of filepath.Clean ---- *)

Definition assemble (rooted : bool) (cs : list bytes) : bytes :=
  if rooted then slash :: join_slash cs
  else match cs with [] => [dot] | _ => join_slash cs end.

Lemma assemble_snoc rooted cs n :
  assemble rooted (cs ++ [n]) =
  match cs with
  | [] => if rooted then [slash] else []
  | _ => assemble rooted cs ++ [slash]
  end ++ n.
Proof.
  destruct cs as [|c cs]; [destruct rooted; reflexivity|].
  unfold assemble. destruct rooted.
  - rewrite join_slash_snoc by discriminate. cbn [app]. now rewrite <- app_assoc.
  - cbn [app]. change (c :: cs ++ [n]) with ((c :: cs) ++ [n]).
    rewrite join_slash_snoc by discriminate. now rewrite <- app_assoc.
Qed.

Lemma clean_unfold p :
  clean p = match p with
            | [] => [dot]
            | _ => assemble (is_abs p) (rev (cc_stack (is_abs p) (split_slash p) []))
            end.
Proof. destruct p as [|c p]; [reflexivity|]. unfold clean, assemble. now rewrite clean_comps_stack. Qed.

(* [cleanform d]: d is a cleaned path *)
Definition cleanform (d : bytes) : Prop :=
  exists rooted st, nfst rooted st /\ d = assemble rooted (rev st).

Theorem clean_cleanform p : cleanform (clean p).
Proof.
  rewrite clean_unfold. destruct p as [|c p].
  - exists false, []. split; [exact I|reflexivity].
  - exists (is_abs (c :: p)), (cc_stack (is_abs (c :: p)) (split_slash (c :: p)) []).
    split; [|reflexivity]. apply cc_stack_nf; [apply split_slash_all_noslash|exact I].
Qed.

Lemma dirname_cleanform p : cleanform (dirname p).
Proof. apply clean_cleanform. Qed.

Lemma join_slash_head (c : bytes) (cs : list bytes) (x : N) (c' : bytes) :
  c = x :: c' -> exists r : bytes, join_slash (c :: cs) = x :: r.
Proof. intros ->. destruct cs; cbn [join_slash app]; eauto. Qed.

Lemma okc_head (c : bytes) : okc c -> exists (x : N) (c' : bytes), c = x :: c' /\ x <> slash.
Proof.
  intros [H0 [_ Hs]]. destruct c as [|x c']; [contradiction|]. exists x, c'. split; [reflexivity|].
  intros ->. apply Hs. now left.
Qed.

Section CleanForm.
  Variables (rooted : bool) (st : list bytes).
  Hypothesis Hst : nfst rooted st.
  Let d := assemble rooted (rev st).

  Lemma rev_st_okc : Forall okc (rev st).
  Proof. apply Forall_rev. now apply (nfst_okc rooted). Qed.

  Lemma rev_st_noslash : Forall noslash (rev st).
  Proof. eapply Forall_impl; [|apply rev_st_okc]. intros c [_ [_ H]]. exact H. Qed.

  Lemma cleanform_head : exists x r, d = x :: r /\ N.eqb x slash = rooted.
  Proof.
    pose proof rev_st_okc as Hok. unfold d, assemble. destruct rooted.
    - eexists _, _. split; [reflexivity|apply N.eqb_refl].
    - destruct (rev st) as [|c cs].
      + exists dot, []. split; reflexivity.
      + inversion Hok as [|? ? Hc _]; subst. apply okc_head in Hc as [x [c' [E Hx]]].
        destruct (join_slash_head c cs x c' E) as [r Hr]. exists x, r. split; [assumption|].
        now apply N.eqb_neq.
  Qed.

  Lemma cleanform_stack : cc_stack rooted (split_slash d) [] = st.
  Proof.
    assert (Hrep : cc_stack rooted (rev st) [] = st).
    { rewrite <- (app_nil_r st) at 2. rewrite <- (rev_involutive st) at 2.
      apply cc_stack_replay. now rewrite rev_involutive, app_nil_r. }
    pose proof rev_st_noslash as Hns.
    assert (Hnil : rev st = [] -> st = []).
    { intros E. apply (f_equal (@rev bytes)) in E. now rewrite rev_involutive in E. }
    unfold d, assemble. destruct rooted.
    - cbn [split_slash]. rewrite N.eqb_refl. destruct (rev st) as [|c cs] eqn:E.
      + rewrite (Hnil eq_refl). reflexivity.
      + rewrite split_slash_join; [|discriminate|assumption].
        cbn [cc_stack beq orb]. exact Hrep.
    - destruct (rev st) as [|c cs] eqn:E.
      + rewrite (Hnil eq_refl). reflexivity.
      + rewrite split_slash_join; [|discriminate|assumption]. exact Hrep.
  Qed.

  (* cleaning d/t continues the component walk from d's stack *)
  Lemma clean_extend t :
    clean (d ++ slash :: t) = assemble rooted (rev (cc_stack rooted (split_slash t) st)).
  Proof.
    destruct cleanform_head as [x [r [Ed Hx]]]. rewrite clean_unfold.
    assert (Habs : is_abs (d ++ slash :: t) = rooted) by (rewrite Ed; exact Hx).
    rewrite Habs. rewrite split_slash_app, cc_stack_app, cleanform_stack.
    rewrite Ed. reflexivity.
  Qed.

  Lemma clean_trailing_slash : clean (d ++ [slash]) = d.
  Proof. rewrite clean_extend. reflexivity. Qed.

  (* the prefix filepath.Join(d, name) puts before a proper name *)
  Definition join_prefix : bytes :=
    match rev st with
    | [] => if rooted then [slash] else []
    | _ => d ++ [slash]
    end.

  Lemma join2_cleanform n : okc n -> n <> dotdot -> join2 d n = join_prefix ++ n.
  Proof.
    intros Hn Hdd. destruct cleanform_head as [x [r [Ed Hx]]].
    assert (Hj : join2 d n = clean (d ++ slash :: n)).
    { unfold join2, join. cbn [filter]. rewrite Ed. cbn [beq negb].
      destruct Hn as [Hn0 _]. destruct n as [|y n]; [contradiction|]. reflexivity. }
    rewrite Hj, clean_extend. destruct Hn as [N0 [N1 N2]].
    rewrite split_slash_noslash by assumption. cbn [cc_stack].
    destruct (beq_spec n []); [contradiction|]. cbn [orb].
    destruct (beq_spec n [dot]); [contradiction|]. destruct (beq_spec n dotdot); [contradiction|].
    cbn [rev]. rewrite assemble_snoc. reflexivity.
  Qed.

  Lemma join_prefix_shape : join_prefix = [] \/ exists y, join_prefix = y ++ [slash].
  Proof.
    unfold join_prefix. destruct (rev st); [destruct rooted; [right; now exists []|now left]|].
    right. now exists d.
  Qed.

  Lemma clean_join_prefix : clean join_prefix = d.
  Proof.
    pose proof clean_trailing_slash as Hts.
    unfold join_prefix, d in *. destruct (rev st) as [|c cs] eqn:E.
    - unfold assemble. destruct rooted; reflexivity.
    - exact Hts.
  Qed.

  (* except for ".", the Join prefix is the prefix used by the directory listing *)
  Lemma join_prefix_dir_pre : d <> [dot] -> join_prefix = dir_pre d.
  Proof.
    intros Hd. unfold join_prefix. pose proof rev_st_okc as Hok.
    unfold d, assemble in *. destruct (rev st) as [|c cs] eqn:E.
    - destruct rooted; [reflexivity|contradiction].
    - inversion Hok as [|? ? Hc _]; subst. apply okc_head in Hc as [x [c' [Ec Hx]]].
      destruct (join_slash_head c cs x c' Ec) as [r Hr]. rewrite Hr. symmetry. apply dir_pre_other.
      destruct rooted; [discriminate|]. intros [= E1 _]. contradiction.
  Qed.
End CleanForm.

(* the same facts for any cleaned path *)
Lemma cleanform_nonempty d : cleanform d -> d <> [].
Proof.
  intros [rooted [st [Hst ->]]]. destruct (cleanform_head rooted st Hst) as [x [r [E _]]].
  rewrite E. discriminate.
Qed.

Lemma cleanform_join2 d n :
  cleanform d -> okc n -> n <> dotdot ->
  exists X, join2 d n = X ++ n /\ (X = [] \/ exists y, X = y ++ [slash]) /\ clean X = d /\
            (d <> [dot] -> X = dir_pre d).
Proof.
  intros [rooted [st [Hst ->]]] Hn Hdd. exists (join_prefix rooted st).
  split; [now apply join2_cleanform|]. split; [now apply join_prefix_shape|].
  split; [now apply clean_join_prefix|]. now apply join_prefix_dir_pre.
Qed.

(* ---- last-slash splitting ---- *)

Lemma take_drop_to_slash a b :
  noslash a -> (b = [] \/ exists b', b = slash :: b') ->
  take_to_slash (a ++ b) = a /\ drop_to_slash (a ++ b) = b.
Proof.
  intros Ha Hb. induction a as [|c a IH]; cbn [app].
  - destruct Hb as [->|[b' ->]]; [split; reflexivity|]. cbn [take_to_slash drop_to_slash].
    rewrite N.eqb_refl. split; reflexivity.
  - cbn [take_to_slash drop_to_slash].
    destruct (N.eqb_spec c slash) as [E|E]; [exfalso; apply Ha; left; now symmetry|].
    destruct IH as [-> ->]; [intros H; apply Ha; now right|]. split; reflexivity.
Qed.

Lemma noslash_rev n : noslash n -> noslash (rev n).
Proof. intros H Hin. apply H. now apply in_rev. Qed.

Lemma split_last_slash X n :
  noslash n -> (X = [] \/ exists y, X = y ++ [slash]) ->
  base_part (X ++ n) = n /\ dir_part (X ++ n) = X.
Proof.
  intros Hn HX. unfold base_part, dir_part. rewrite rev_app_distr.
  destruct (take_drop_to_slash (rev n) (rev X)) as [-> ->].
  - now apply noslash_rev.
  - destruct HX as [->|[y ->]]; [now left|]. right. exists (rev y). now rewrite rev_app_distr.
  - now rewrite !rev_involutive.
Qed.

(* for a cleaned directory d and a proper name n, Join(d, n) has n as last element and d as Dir *)
Theorem join2_base_dirname d n :
  cleanform d -> okc n -> n <> dotdot -> base_part (join2 d n) = n /\ dirname (join2 d n) = d.
Proof.
  intros Hd Hn Hdd. destruct (cleanform_join2 d n Hd Hn Hdd) as [X [-> [HX [Hc _]]]].
  destruct Hn as [_ [_ Hn]]. unfold dirname. destruct (split_last_slash X n Hn HX) as [-> ->].
  split; [reflexivity|assumption].
Qed.

Corollary join2_inj d n d' n' :
  cleanform d -> cleanform d' -> okc n -> n <> dotdot -> okc n' -> n' <> dotdot ->
  join2 d n = join2 d' n' -> d = d' /\ n = n'.
Proof.
  intros Hd Hd' Hn Hdd Hn' Hdd' E.
  destruct (join2_base_dirname d n Hd Hn Hdd) as [B1 D1].
  destruct (join2_base_dirname d' n' Hd' Hn' Hdd') as [B2 D2].
  rewrite E in B1, D1. split; congruence.
Qed.

(* ---- names that contain ".snap" are proper names ---- *)

Lemma is_prefix_length p s : is_prefix p s = true -> length p <= length s.
Proof.
  revert s; induction p as [|x p IH]; intros s H; cbn [length]; [lia|].
  destruct s as [|y s]; cbn [is_prefix] in H; [discriminate|].
  apply andb_true_iff in H as [_ H]. apply IH in H. cbn [length]. lia.
Qed.

Lemma index_of_length pat s i : index_of pat s = Some i -> length pat <= length s.
Proof.
  revert i; induction s as [|c s IH]; intros i; cbn [index_of].
  - destruct (is_prefix pat []) eqn:E; [|discriminate]. intros _. now apply is_prefix_length.
  - destruct (is_prefix pat (c :: s)) eqn:E; [intros _; now apply is_prefix_length|].
    destruct (index_of pat s) as [j|]; [|discriminate]. intros _. specialize (IH j eq_refl).
    cbn [length]. lia.
Qed.

Lemma snap_name_length n : contains snaps_ext n = true -> 5 <= length n.
Proof.
  unfold contains. destruct (index_of snaps_ext n) as [i|] eqn:E; [|discriminate].
  intros _. apply index_of_length in E. exact E.
Qed.

Lemma snap_name_okc n : contains snaps_ext n = true -> noslash n -> okc n /\ n <> dotdot.
Proof.
  intros Hc Hs. apply snap_name_length in Hc.
  repeat split; try assumption; intros ->; cbv in Hc; lia.
Qed.

(* ---- consequences for the walk ---- *)

Lemma visited_dirs_cleanform cleanup standalone dir :
  In dir (visited_dirs cleanup standalone) -> cleanform dir.
Proof.
  unfold visited_dirs. rewrite dedup_in. intros H.
  apply in_app_or in H as [H|H]; apply in_map_iff in H as [x [<- _]]; apply dirname_cleanform.
Qed.

Lemma visited_dirs_spec cleanup standalone dir :
  In dir (visited_dirs cleanup standalone) <->
  (exists p, In p (registry_paths cleanup) /\ dir = dirname p) \/
  (exists p, In p standalone /\ dir = dirname p).
Proof.
  unfold visited_dirs. rewrite dedup_in, in_app_iff, !in_map_iff.
  split; (intros [[p [H1 H2]]|[p [H1 H2]]]; [left|right]; exists p; auto).
Qed.

(* every path Clean reports (obsolete) or examines (used): shape and location *)
Theorem touched_path_shape fs cleanup standalone p :
  In p (fr_obsolete (examine_files fs cleanup standalone)) \/
  In p (fr_used (examine_files fs cleanup standalone)) ->
  exists dir name,
    In dir (visited_dirs cleanup standalone) /\ In name (readdir_files fs dir) /\
    contains snaps_ext name = true /\ p = join2 dir name /\
    base_part p = name /\ dirname p = dir /\
    (dir <> [dot] -> p = dir_pre dir ++ name /\ In p (map fst fs)).
Proof.
  intros H.
  assert (Hx : exists dir name, In dir (visited_dirs cleanup standalone) /\
             In name (readdir_files fs dir) /\ contains snaps_ext name = true /\ p = join2 dir name).
  { destruct H as [H|H].
    - apply examine_files_obsolete_iff in H as [dir [name [H1 [H2 [H3 [H4 _]]]]]]. exists dir, name. auto.
    - apply examine_files_used_iff in H as [dir [name [H1 [H2 [H3 [H4 _]]]]]]. exists dir, name. auto. }
  destruct Hx as [dir [name [Hd [Hn [Hc ->]]]]]. exists dir, name.
  pose proof (visited_dirs_cleanform _ _ _ Hd) as Hcf.
  destruct (readdir_files_name _ _ _ Hn) as [Hne [Hns Hkey]].
  destruct (snap_name_okc name Hc Hns) as [Hok Hdd].
  destruct (join2_base_dirname dir name Hcf Hok Hdd) as [HB HD].
  repeat (split; [assumption|]). split; [reflexivity|]. split; [assumption|]. split; [assumption|].
  intros Hdot. destruct (cleanform_join2 dir name Hcf Hok Hdd) as [X [E [_ [_ HX]]]].
  rewrite E, (HX Hdot). split; [reflexivity|assumption].
Qed.

(* with unique keys in the file system, no path is examined twice *)
Theorem fr_used_nodup fs cleanup standalone :
  NoDup (map fst fs) -> NoDup (fr_used (examine_files fs cleanup standalone)).
Proof.
  intros Hk. rewrite examine_files_used_eq.
  assert (Hpiece : forall dir name x, In dir (visited_dirs cleanup standalone) ->
            In name (readdir_files fs dir) -> In x (used_of (registry_paths cleanup) dir name) ->
            x = join2 dir name /\ cleanform dir /\ okc name /\ name <> dotdot).
  { intros dir name x Hd Hn Hx. unfold used_of in Hx.
    destruct (contains snaps_ext name) eqn:Hc; cbn [andb] in Hx; [|destruct Hx].
    destruct (mem_bytes _ _); [|destruct Hx]. destruct Hx as [<-|[]].
    destruct (readdir_files_name _ _ _ Hn) as [_ [Hns _]].
    destruct (snap_name_okc name Hc Hns). split; [reflexivity|].
    split; [now apply (visited_dirs_cleanform cleanup standalone)|]. auto. }
  apply flat_map_nodup.
  - apply dedup_nodup.
  - intros dir Hd. apply flat_map_nodup.
    + now apply readdir_files_nodup.
    + intros name _. unfold used_of. destruct (_ && _); repeat constructor. intros [].
    + intros n1 n2 x H1 H2 Hx1 Hx2.
      destruct (Hpiece dir n1 x Hd H1 Hx1) as [E1 [C1 [O1 D1]]].
      destruct (Hpiece dir n2 x Hd H2 Hx2) as [E2 [C2 [O2 D2]]].
      rewrite E1 in E2. now destruct (join2_inj _ _ _ _ C1 C2 O1 D1 O2 D2 E2).
  - intros d1 d2 x Hd1 Hd2 Hx1 Hx2.
    apply in_flat_map in Hx1 as [n1 [H1 Hx1]]. apply in_flat_map in Hx2 as [n2 [H2 Hx2]].
    destruct (Hpiece d1 n1 x Hd1 H1 Hx1) as [E1 [C1 [O1 D1]]].
    destruct (Hpiece d2 n2 x Hd2 H2 Hx2) as [E2 [C2 [O2 D2]]].
    rewrite E1 in E2. now destruct (join2_inj _ _ _ _ C1 C2 O1 D1 O2 D2 E2).
Qed.

(* ---- item 2, in the words of the property ---- *)

(* SOUNDNESS: a reported file has ".snap" in its name, lies directly inside a directory that some
   addressed file or registered standalone file lives in, and is neither addressed nor a registered
   standalone file *)
Corollary reported_file_sound fs cleanup standalone p :
  In p (fr_obsolete (examine_files fs cleanup standalone)) ->
  contains snaps_ext (base_part p) = true /\ noslash (base_part p) /\
  ((exists q, In q (registry_paths cleanup) /\ dirname p = dirname q) \/
   (exists q, In q standalone /\ dirname p = dirname q)) /\
  ~ In p (registry_paths cleanup) /\ ~ In p standalone /\
  (dirname p <> [dot] -> p = dir_pre (dirname p) ++ base_part p /\ In p (map fst fs)).
Proof.
  intros H.
  destruct (touched_path_shape fs cleanup standalone p (or_introl H))
    as [dir [name [Hd [Hn [Hc [_ [HB [HD Hkey]]]]]]]].
  apply examine_files_obsolete_iff in H as [_ [_ [_ [_ [_ [_ [H1 H2]]]]]]].
  rewrite HB, HD. split; [assumption|]. split; [apply (readdir_files_name _ _ _ Hn)|].
  split; [now apply visited_dirs_spec|]. split; [now apply mem_bytes_notin|].
  split; [now apply mem_bytes_notin|]. assumption.
Qed.

(* COMPLETENESS: every key of the file system that is a direct child of a visited directory, has
   ".snap" in its name and is neither addressed nor a registered standalone file IS reported.
   (dir = "." is excluded: there the model lists keys "./name" but Join gives "name".) *)
Corollary unaddressed_file_reported fs cleanup standalone dir p c name :
  In (p, c) fs -> In dir (visited_dirs cleanup standalone) -> dir <> [dot] ->
  file_name_in dir p = Some name -> contains snaps_ext name = true ->
  ~ In p (registry_paths cleanup) -> ~ In p standalone ->
  In p (fr_obsolete (examine_files fs cleanup standalone)).
Proof.
  intros Hin Hd Hdot Hf Hc H1 H2.
  pose proof (visited_dirs_cleanform _ _ _ Hd) as Hcf.
  assert (Hn : In name (readdir_files fs dir)) by (apply readdir_files_in; eauto).
  destruct (file_name_in_some _ _ _ Hf) as [_ [Hns Hp]].
  destruct (snap_name_okc name Hc Hns) as [Hok Hdd].
  destruct (cleanform_join2 dir name Hcf Hok Hdd) as [X [E [_ [_ HX]]]].
  assert (Ep : p = join2 dir name) by (rewrite E, (HX Hdot); exact Hp).
  apply examine_files_obsolete_iff. exists dir, name. fold (visited_dirs cleanup standalone).
  repeat (split; [assumption|]). split; now apply mem_bytes_notin.
Qed.

(* the same for addressed files: they are the used ones *)
Corollary addressed_file_used fs cleanup standalone dir p c name :
  In (p, c) fs -> In dir (visited_dirs cleanup standalone) -> dir <> [dot] ->
  file_name_in dir p = Some name -> contains snaps_ext name = true ->
  In p (registry_paths cleanup) ->
  In p (fr_used (examine_files fs cleanup standalone)).
Proof.
  intros Hin Hd Hdot Hf Hc H1.
  pose proof (visited_dirs_cleanform _ _ _ Hd) as Hcf.
  assert (Hn : In name (readdir_files fs dir)) by (apply readdir_files_in; eauto).
  destruct (file_name_in_some _ _ _ Hf) as [_ [Hns Hp]].
  destruct (snap_name_okc name Hc Hns) as [Hok Hdd].
  destruct (cleanform_join2 dir name Hcf Hok Hdd) as [X [E [_ [_ HX]]]].
  assert (Ep : p = join2 dir name) by (rewrite E, (HX Hdot); exact Hp).
  apply examine_files_used_iff. exists dir, name. fold (visited_dirs cleanup standalone).
  repeat (split; [assumption|]). now apply mem_bytes_in.
Qed.

(* a used file exists (unless its directory is ".") *)
Corollary used_file_exists fs cleanup standalone p :
  In p (fr_used (examine_files fs cleanup standalone)) -> dirname p <> [dot] -> In p (map fst fs).
Proof.
  intros H Hdot.
  destruct (touched_path_shape fs cleanup standalone p (or_intror H)) as [dir [name [_ [_ [_ [_ [_ [HD Hk]]]]]]]].
  rewrite HD in Hdot. now apply Hk.
Qed.

(* ====================================================================================== *)
(* 3. Association lists: aset / aremove and unique keys                                   *)
(* ====================================================================================== *)

Section AssocMore.
  Context {V : Type}.
  Implicit Types m : list (bytes * V).

  Lemma alookup_none_iff k m : alookup k m = None <-> ~ In k (map fst m).
  Proof.
    induction m as [|[k' v] m IH]; cbn [alookup map fst In]; [tauto|].
    destruct (beq_spec k k') as [E|E].
    - subst. split; [discriminate|]. intros H. exfalso. apply H. now left.
    - rewrite IH. split; [intros H [E'|E']; [congruence|auto]|]. intros H E'. apply H. now right.
  Qed.

  Lemma alookup_aremove_other k k' m : k' <> k -> alookup k' (aremove k m) = alookup k' m.
  Proof.
    intros Hne. induction m as [|[k2 v2] m IH]; cbn [aremove alookup]; [reflexivity|].
    destruct (beq_spec k k2) as [E|E].
    - subst k2. destruct (beq_spec k' k); [contradiction|reflexivity].
    - cbn [alookup]. destruct (beq k' k2); [reflexivity|apply IH].
  Qed.

  Lemma aremove_keys_incl k m x : In x (map fst (aremove k m)) -> In x (map fst m).
  Proof.
    induction m as [|[k2 v2] m IH]; cbn [aremove map fst]; [auto|].
    destruct (beq k k2); [intros H; now right|]. cbn [map fst In]. intros [H|H]; [now left|right; auto].
  Qed.

  Lemma aremove_keys_nodup k m : NoDup (map fst m) -> NoDup (map fst (aremove k m)).
  Proof.
    induction m as [|[k2 v2] m IH]; cbn [aremove map fst]; [auto|]. intros H.
    inversion H as [|? ? Hn Hm]; subst. destruct (beq k k2); [assumption|].
    cbn [map fst]. constructor; [|auto]. intros Hin. apply Hn. eapply aremove_keys_incl; eassumption.
  Qed.

  (* with unique keys, removing a key really removes it *)
  Lemma alookup_aremove_same k m : NoDup (map fst m) -> alookup k (aremove k m) = None.
  Proof.
    induction m as [|[k2 v2] m IH]; cbn [aremove map fst]; [reflexivity|]. intros H.
    inversion H as [|? ? Hn Hm]; subst. destruct (beq_spec k k2) as [E|E].
    - subst k2. now apply alookup_none_iff.
    - cbn [alookup]. destruct (beq_spec k k2); [contradiction|auto].
  Qed.

  Lemma aset_keys_in k v m x : In x (map fst (aset k v m)) <-> x = k \/ In x (map fst m).
  Proof.
    induction m as [|[k2 v2] m IH]; cbn [aset map fst In].
    - split; [intros [H|[]]; left; now symmetry|intros [H|[]]; left; now symmetry].
    - destruct (beq_spec k k2) as [E|E]; cbn [map fst In].
      + subst k2. split; [intros [H|H]; [left; now symmetry|right; now right]|].
        intros [H|[H|H]]; [left; now symmetry|now left|now right].
      + rewrite IH. tauto.
  Qed.

  Lemma aset_keys_nodup k v m : NoDup (map fst m) -> NoDup (map fst (aset k v m)).
  Proof.
    induction m as [|[k2 v2] m IH]; cbn [aset map fst]; intros H.
    - constructor; [intros []|constructor].
    - inversion H as [|? ? Hn Hm]; subst. destruct (beq_spec k k2) as [E|E]; cbn [map fst].
      + subst k2. now constructor.
      + constructor; [|auto]. rewrite aset_keys_in. intros [E'|E']; [congruence|contradiction].
  Qed.

  Lemma alookup_aset_none k v m q : alookup q (aset k v m) = None <-> q <> k /\ alookup q m = None.
  Proof.
    rewrite !alookup_none_iff, aset_keys_in. tauto.
  Qed.

  Definition remove_all (ps : list bytes) m : list (bytes * V) := fold_left (fun fs p => aremove p fs) ps m.

  Lemma remove_all_nodup ps : forall m, NoDup (map fst m) -> NoDup (map fst (remove_all ps m)).
  Proof.
    induction ps as [|p ps IH]; intros m H; [assumption|]. cbn [remove_all fold_left].
    apply IH. now apply aremove_keys_nodup.
  Qed.

  Lemma remove_all_other ps q : forall m, ~ In q ps -> alookup q (remove_all ps m) = alookup q m.
  Proof.
    induction ps as [|p ps IH]; intros m H; [reflexivity|]. cbn [remove_all fold_left].
    change (fold_left _ ps ?x) with (remove_all ps x). rewrite IH by (intros Hin; apply H; now right).
    apply alookup_aremove_other. intros ->. apply H. now left.
  Qed.

  Lemma remove_all_in ps q : forall m, NoDup (map fst m) -> In q ps -> alookup q (remove_all ps m) = None.
  Proof.
    induction ps as [|p ps IH]; intros m Hm H; [destruct H|]. cbn [remove_all fold_left].
    change (fold_left _ ps ?x) with (remove_all ps x).
    destruct (in_dec bytes_eq_dec q ps) as [Hin|Hnin].
    - apply IH; [now apply aremove_keys_nodup|assumption].
    - destruct H as [->|H]; [|contradiction]. rewrite remove_all_other by assumption.
      now apply alookup_aremove_same.
  Qed.

  Lemma remove_all_none ps q : forall m, alookup q m = None -> alookup q (remove_all ps m) = None.
  Proof.
    induction ps as [|p ps IH]; intros m H; [assumption|]. cbn [remove_all fold_left].
    apply IH. apply alookup_none_iff. intros Hin. apply aremove_keys_incl in Hin.
    now apply alookup_none_iff in H.
  Qed.
End AssocMore.

(* ====================================================================================== *)
(* 4. The walk over the used files                                                        *)
(* ====================================================================================== *)

Definition acc3 := (list (bytes * bytes) * list bytes * list (wkind * bytes))%type.

Section UsedFold.
  (* what examining file [p] with contents [f] yields: (obsolete ids, new contents if rewritten) *)
  Variable ex : bytes -> bytes -> list bytes * option bytes.

  Definition ustep (acc : acc3) (p : bytes) : acc3 :=
    let '(fs, obs, ws) := acc in
    match alookup p fs with
    | None => acc
    | Some f =>
        let '(o, nf) := ex p f in
        match nf with
        | Some f' => (aset p f' fs, obs ++ o, ws ++ [(WRewrite, p)])
        | None => (fs, obs ++ o, ws)
        end
    end.

  Definition newc (p f : bytes) : bytes := match snd (ex p f) with Some f' => f' | None => f end.

  Definition obs_at (fs : list (bytes * bytes)) (p : bytes) : list bytes :=
    match alookup p fs with Some f => fst (ex p f) | None => [] end.
  Definition ws_at (fs : list (bytes * bytes)) (p : bytes) : list (wkind * bytes) :=
    match alookup p fs with
    | Some f => match snd (ex p f) with Some _ => [(WRewrite, p)] | None => [] end
    | None => []
    end.
  Definition fs_at (fs : list (bytes * bytes)) (p : bytes) : list (bytes * bytes) :=
    match alookup p fs with
    | Some f => match snd (ex p f) with Some f' => aset p f' fs | None => fs end
    | None => fs
    end.

  Lemma ustep_eq fs obs ws p :
    ustep (fs, obs, ws) p = (fs_at fs p, obs ++ obs_at fs p, ws ++ ws_at fs p).
  Proof.
    unfold ustep, fs_at, obs_at, ws_at. destruct (alookup p fs) as [f|]; [|now rewrite !app_nil_r].
    destruct (ex p f) as [o [f'|]]; cbn [fst snd]; now rewrite ?app_nil_r.
  Qed.

  Lemma fs_at_other fs p q : q <> p -> alookup q (fs_at fs p) = alookup q fs.
  Proof.
    intros H. unfold fs_at. destruct (alookup p fs) as [f|]; [|reflexivity].
    destruct (snd (ex p f)); [|reflexivity]. now apply alookup_aset_other.
  Qed.

  Lemma fs_at_same fs p : alookup p (fs_at fs p) = option_map (newc p) (alookup p fs).
  Proof.
    unfold fs_at, newc. destruct (alookup p fs) as [f|] eqn:E; cbn [option_map]; [|assumption].
    destruct (snd (ex p f)); [apply alookup_aset_same|assumption].
  Qed.

  Lemma fs_at_none fs p q : alookup q (fs_at fs p) = None <-> alookup q fs = None.
  Proof.
    unfold fs_at. destruct (alookup p fs) as [f|] eqn:E; [|tauto].
    destruct (snd (ex p f)); [|tauto]. rewrite alookup_aset_none. split; [tauto|].
    intros H. split; [|assumption]. intros ->. congruence.
  Qed.

  Lemma fs_at_nodup fs p : NoDup (map fst fs) -> NoDup (map fst (fs_at fs p)).
  Proof.
    intros H. unfold fs_at. destruct (alookup p fs) as [f|]; [|assumption].
    destruct (snd (ex p f)); [now apply aset_keys_nodup|assumption].
  Qed.

  Lemma fold_ustep_fs used : forall fs obs ws,
    fst (fst (fold_left ustep used (fs, obs, ws))) = fold_left fs_at used fs.
  Proof.
    induction used as [|p used IH]; intros fs obs ws; [reflexivity|].
    cbn [fold_left]. rewrite ustep_eq. apply IH.
  Qed.

  Lemma fold_fs_at_other used q : forall fs, ~ In q used -> alookup q (fold_left fs_at used fs) = alookup q fs.
  Proof.
    induction used as [|p used IH]; intros fs H; [reflexivity|]. cbn [fold_left].
    rewrite IH by (intros Hin; apply H; now right). apply fs_at_other. intros ->. apply H. now left.
  Qed.

  Lemma fold_fs_at_none used q : forall fs, alookup q (fold_left fs_at used fs) = None <-> alookup q fs = None.
  Proof.
    induction used as [|p used IH]; intros fs; [tauto|]. cbn [fold_left]. rewrite IH. apply fs_at_none.
  Qed.

  Lemma fold_fs_at_nodup used : forall fs, NoDup (map fst fs) -> NoDup (map fst (fold_left fs_at used fs)).
  Proof.
    induction used as [|p used IH]; intros fs H; [assumption|]. cbn [fold_left]. apply IH. now apply fs_at_nodup.
  Qed.

  (* each used path is examined once, on the contents it had before the walk *)
  Lemma fold_fs_at_in used q : forall fs, NoDup used -> In q used ->
    alookup q (fold_left fs_at used fs) = option_map (newc q) (alookup q fs).
  Proof.
    induction used as [|p used IH]; intros fs Hnd Hin; [destruct Hin|].
    inversion Hnd as [|? ? Hp Hnd']; subst. cbn [fold_left]. destruct Hin as [->|Hin].
    - rewrite fold_fs_at_other by assumption. apply fs_at_same.
    - rewrite IH by assumption. rewrite fs_at_other; [reflexivity|]. intros ->. contradiction.
  Qed.

  Lemma fold_ustep_obs used : forall fs obs ws, NoDup used ->
    snd (fst (fold_left ustep used (fs, obs, ws))) = obs ++ flat_map (obs_at fs) used.
  Proof.
    induction used as [|p used IH]; intros fs obs ws Hnd; cbn [fold_left flat_map]; [now rewrite app_nil_r|].
    inversion Hnd as [|? ? Hp Hnd']; subst. rewrite ustep_eq, IH by assumption. rewrite <- app_assoc.
    f_equal. f_equal. apply flat_map_ext_in'. intros q Hq. unfold obs_at.
    rewrite fs_at_other; [reflexivity|]. intros ->. contradiction.
  Qed.

  Lemma fold_ustep_ws used : forall fs obs ws, NoDup used ->
    snd (fold_left ustep used (fs, obs, ws)) = ws ++ flat_map (ws_at fs) used.
  Proof.
    induction used as [|p used IH]; intros fs obs ws Hnd; cbn [fold_left flat_map]; [now rewrite app_nil_r|].
    inversion Hnd as [|? ? Hp Hnd']; subst. rewrite ustep_eq, IH by assumption. rewrite <- app_assoc.
    f_equal. f_equal. apply flat_map_ext_in'. intros q Hq. unfold ws_at.
    rewrite fs_at_other; [reflexivity|]. intros ->. contradiction.
  Qed.

  (* without any uniqueness assumption: the walk only ever adds (WRewrite, p) for used p *)
  Lemma fold_ustep_ws_weak used : forall fs obs ws k q,
    In (k, q) (snd (fold_left ustep used (fs, obs, ws))) -> In (k, q) ws \/ (k = WRewrite /\ In q used).
  Proof.
    induction used as [|p used IH]; intros fs obs ws k q H; [now left|].
    cbn [fold_left] in H. rewrite ustep_eq in H. apply IH in H as [H|[H1 H2]].
    - apply in_app_or in H as [H|H]; [now left|]. right. unfold ws_at in H.
      destruct (alookup p fs) as [f|]; [|destruct H]. destruct (snd (ex p f)); [|destruct H].
      destruct H as [[= <- <-]|[]]. split; [reflexivity|now left].
    - right. split; [assumption|now right].
  Qed.

  Lemma in_ws_at fs used k q :
    In (k, q) (flat_map (ws_at fs) used) <->
    k = WRewrite /\ In q used /\ exists f f', alookup q fs = Some f /\ snd (ex q f) = Some f'.
  Proof.
    rewrite in_flat_map. split.
    - intros [p [Hp H]]. unfold ws_at in H. destruct (alookup p fs) as [f|] eqn:E; [|destruct H].
      destruct (snd (ex p f)) as [f'|] eqn:E'; [|destruct H]. destruct H as [[= <- <-]|[]].
      split; [reflexivity|]. split; [assumption|]. exists f, f'. auto.
    - intros [-> [Hq [f [f' [E E']]]]]. exists q. split; [assumption|]. unfold ws_at. rewrite E, E'. now left.
  Qed.
End UsedFold.

(* ====================================================================================== *)
(* 5. clean_run                                                                           *)
(* ====================================================================================== *)

(* examine_file as clean_run calls it on file [p] *)
Definition run_exam (s : state) (sort_opt : bool) (count : nat) (p f : bytes) : list bytes * option bytes :=
  examine_file (registered_tests (s_cleanup s) p count) (s_skipped s)
               (clean_deletes (s_env s)) (clean_sorts (s_env s) sort_opt) f.

(* the result of examineFiles in this run *)
Definition run_files (s : state) (count : nat) : files_result :=
  examine_files (s_fs s) (s_cleanup s) (registered_standalone (s_scleanup s) count).

(* the directories this run visits *)
Definition run_dirs (s : state) (count : nat) : list bytes :=
  visited_dirs (s_cleanup s) (registered_standalone (s_scleanup s) count).

(* the file system after the deletions, before the used files are examined *)
Definition run_fs1 (s : state) (count : nat) : list (bytes * bytes) :=
  if clean_deletes (s_env s) then remove_all (fr_obsolete (run_files s count)) (s_fs s) else s_fs s.

Lemma clean_run_unfold s sort_opt count :
  clean_run s sort_opt count =
  let fr := run_files s count in
  let del := clean_deletes (s_env s) in
  let w1 := if del then map (fun p => (WRemove, p)) (fr_obsolete fr) else [] in
  let '(fs2, obs_tests, w2) :=
    fold_left (ustep (run_exam s sort_opt count)) (fr_used fr) (run_fs1 s count, [], []) in
  let c := s_events s in
  let nothing := match fr_obsolete fr, obs_tests with [], [] => true | _, _ => false end
                 && Nat.eqb (n_erred c + n_added c + n_updated c + n_passed c) 0
                 && Nat.eqb (length (s_skipped s)) 0 in
  (set_fs s fs2,
   {| cr_obsolete_files := fr_obsolete fr; cr_obsolete_tests := obs_tests; cr_writes := w1 ++ w2;
      cr_printed := negb nothing; cr_counts := c; cr_skipped := length (s_skipped s);
      cr_removed := del |}).
Proof. reflexivity. Qed.

Section CleanRun.
  Variables (s : state) (sort_opt : bool) (count : nat).
  Let fr := run_files s count.
  Let ex := run_exam s sort_opt count.
  Let r := snd (clean_run s sort_opt count).
  Let fs' := s_fs (fst (clean_run s sort_opt count)).
  Let walk := fold_left (ustep ex) (fr_used fr) (run_fs1 s count, [], []).

  Lemma clean_run_fs : fs' = fold_left (fs_at ex) (fr_used fr) (run_fs1 s count).
  Proof.
    unfold fs'. rewrite clean_run_unfold. cbv zeta. rewrite <- (fold_ustep_fs ex _ _ [] []).
    fold fr ex. destruct (fold_left _ _ _) as [[fs2 o] w]. reflexivity.
  Qed.

  Lemma clean_run_obsolete_files : cr_obsolete_files r = fr_obsolete fr.
  Proof.
    unfold r. rewrite clean_run_unfold. cbv zeta. destruct (fold_left _ _ _) as [[fs2 o] w]. reflexivity.
  Qed.

  Lemma clean_run_obs_walk : cr_obsolete_tests r = snd (fst walk).
  Proof.
    unfold r, walk. rewrite clean_run_unfold. cbv zeta. fold fr ex.
    destruct (fold_left _ _ _) as [[fs2 o] w]. reflexivity.
  Qed.

  Lemma clean_run_writes_walk :
    cr_writes r = (if clean_deletes (s_env s) then map (fun p => (WRemove, p)) (fr_obsolete fr) else [])
                  ++ snd walk.
  Proof.
    unfold r, walk. rewrite clean_run_unfold. cbv zeta. fold fr ex.
    destruct (fold_left _ _ _) as [[fs2 o] w]. reflexivity.
  Qed.

  Lemma clean_run_removed_flag : cr_removed r = clean_deletes (s_env s).
  Proof.
    unfold r. rewrite clean_run_unfold. cbv zeta. destruct (fold_left _ _ _) as [[fs2 o] w]. reflexivity.
  Qed.

  (* nothing but the file system changes in the state *)
  Lemma clean_run_state : fst (clean_run s sort_opt count) = set_fs s fs'.
  Proof.
    unfold fs'. rewrite clean_run_unfold. cbv zeta. destruct (fold_left _ _ _) as [[fs2 o] w]. reflexivity.
  Qed.

  (* used paths are not deleted: the walk sees their original contents *)
  Lemma run_fs1_used p : In p (fr_used fr) -> alookup p (run_fs1 s count) = alookup p (s_fs s).
  Proof.
    intros H. unfold run_fs1. destruct (clean_deletes (s_env s)); [|reflexivity].
    apply remove_all_other. intros Ho. exact (obsolete_used_disjoint _ _ _ _ Ho H).
  Qed.

  Lemma run_fs1_other p :
    clean_deletes (s_env s) = false \/ ~ In p (fr_obsolete fr) ->
    alookup p (run_fs1 s count) = alookup p (s_fs s).
  Proof.
    intros H. unfold run_fs1. destruct (clean_deletes (s_env s)); [|reflexivity].
    destruct H as [H|H]; [discriminate|]. now apply remove_all_other.
  Qed.

  (* ---------- frame on the file system ---------- *)

  (* a path that is neither reported obsolete nor used keeps its contents - in every mode *)
  Theorem clean_run_frame p :
    ~ In p (cr_obsolete_files r) -> ~ In p (fr_used fr) -> alookup p fs' = alookup p (s_fs s).
  Proof.
    rewrite clean_run_obsolete_files. intros Ho Hu. rewrite clean_run_fs.
    rewrite fold_fs_at_other by assumption. apply run_fs1_other. now right.
  Qed.

  (* when Clean does not delete, only addressed (used) files can change at all ... *)
  Theorem clean_run_report_only_changes p :
    clean_deletes (s_env s) = false -> alookup p fs' <> alookup p (s_fs s) -> In p (fr_used fr).
  Proof.
    intros Hd Hne. destruct (in_dec bytes_eq_dec p (fr_used fr)) as [H|H]; [assumption|].
    exfalso. apply Hne. rewrite clean_run_fs, fold_fs_at_other by assumption. apply run_fs1_other. now left.
  Qed.

  (* ... and no path disappears or appears *)
  Theorem clean_run_report_only_keeps_paths p :
    clean_deletes (s_env s) = false -> (alookup p fs' = None <-> alookup p (s_fs s) = None).
  Proof.
    intros Hd. rewrite clean_run_fs, fold_fs_at_none. unfold run_fs1. rewrite Hd. tauto.
  Qed.

  (* in every mode, no path appears *)
  Theorem clean_run_creates_nothing p : alookup p (s_fs s) = None -> alookup p fs' = None.
  Proof.
    intros H. rewrite clean_run_fs, fold_fs_at_none. unfold run_fs1.
    destruct (clean_deletes (s_env s)); [now apply remove_all_none|assumption].
  Qed.

  Hypothesis Hkeys : NoDup (map fst (s_fs s)).

  Lemma run_used_nodup : NoDup (fr_used fr).
  Proof. apply fr_used_nodup. exact Hkeys. Qed.

  (* a used file ends up with what examine_file returned for its ORIGINAL contents
     (or unchanged when that returned None) - in every mode *)
  Theorem clean_run_used_content p :
    In p (fr_used fr) -> alookup p fs' = option_map (newc ex p) (alookup p (s_fs s)).
  Proof.
    intros H. rewrite clean_run_fs, fold_fs_at_in by (apply run_used_nodup || assumption).
    now rewrite run_fs1_used.
  Qed.

  (* when Clean deletes, every reported file is gone afterwards *)
  Theorem clean_run_deletes_reported p :
    clean_deletes (s_env s) = true -> In p (cr_obsolete_files r) -> alookup p fs' = None.
  Proof.
    rewrite clean_run_obsolete_files. intros Hd H. rewrite clean_run_fs.
    rewrite fold_fs_at_other by (intros Hu; exact (obsolete_used_disjoint _ _ _ _ H Hu)).
    unfold run_fs1. rewrite Hd. now apply remove_all_in.
  Qed.

  (* unique keys are preserved *)
  Theorem clean_run_keys_nodup : NoDup (map fst fs').
  Proof.
    rewrite clean_run_fs. apply fold_fs_at_nodup. unfold run_fs1.
    destruct (clean_deletes (s_env s)); [now apply remove_all_nodup|assumption].
  Qed.

  (* ---------- item 4: the entry-level report of the whole run ---------- *)

  Theorem clean_run_obsolete_tests :
    cr_obsolete_tests r =
    flat_map (fun p => match alookup p (s_fs s) with
                       | Some f => fst (run_exam s sort_opt count p f)
                       | None => []
                       end) (fr_used fr).
  Proof.
    rewrite clean_run_obs_walk. unfold walk. rewrite fold_ustep_obs by apply run_used_nodup.
    cbn [app]. apply flat_map_ext_in'. intros p Hp. unfold obs_at. now rewrite run_fs1_used.
  Qed.

  (* ---------- the write list ---------- *)

  Theorem clean_run_writes :
    cr_writes r =
    (if clean_deletes (s_env s) then map (fun p => (WRemove, p)) (fr_obsolete fr) else []) ++
    flat_map (fun p => match alookup p (s_fs s) with
                       | Some f => match snd (run_exam s sort_opt count p f) with
                                   | Some _ => [(WRewrite, p)]
                                   | None => []
                                   end
                       | None => []
                       end) (fr_used fr).
  Proof.
    rewrite clean_run_writes_walk. f_equal. unfold walk. rewrite fold_ustep_ws by apply run_used_nodup.
    cbn [app]. apply flat_map_ext_in'. intros p Hp. unfold ws_at. now rewrite run_fs1_used.
  Qed.

  Corollary clean_run_writes_remove p :
    In (WRemove, p) (cr_writes r) <-> clean_deletes (s_env s) = true /\ In p (cr_obsolete_files r).
  Proof.
    rewrite clean_run_writes, clean_run_obsolete_files, in_app_iff. split.
    - intros [H|H].
      + destruct (clean_deletes (s_env s)); [|destruct H]. apply in_map_iff in H as [q [[= ->] Hq]]. auto.
      + apply (in_ws_at (run_exam s sort_opt count) (s_fs s)) in H as [H _]. discriminate.
    - intros [-> H]. left. apply in_map_iff. exists p. auto.
  Qed.

  Corollary clean_run_writes_rewrite p :
    In (WRewrite, p) (cr_writes r) <->
    In p (fr_used fr) /\ exists f f', alookup p (s_fs s) = Some f /\ snd (run_exam s sort_opt count p f) = Some f'.
  Proof.
    rewrite clean_run_writes, in_app_iff. split.
    - intros [H|H].
      + destruct (clean_deletes (s_env s)); [|destruct H]. apply in_map_iff in H as [q [[=] _]].
      + apply (in_ws_at (run_exam s sort_opt count) (s_fs s)) in H as [_ H]. exact H.
    - intros H. right. apply (in_ws_at (run_exam s sort_opt count) (s_fs s)). split; [reflexivity|exact H].
  Qed.

  Corollary clean_run_writes_kinds k p : In (k, p) (cr_writes r) -> k = WRemove \/ k = WRewrite.
  Proof.
    rewrite clean_run_writes, in_app_iff. intros [H|H].
    - destruct (clean_deletes (s_env s)); [|destruct H]. apply in_map_iff in H as [q [[= <- _] _]]. now left.
    - apply (in_ws_at (run_exam s sort_opt count) (s_fs s)) in H as [-> _]. now right.
  Qed.
End CleanRun.

(* ---------- what Clean never touches (every mode, no assumption on the state) ---------- *)

(* [p] is untouched by the run: same contents (or same absence), not reported, never written *)
Definition untouched (s : state) (sort_opt : bool) (count : nat) (p : bytes) : Prop :=
  alookup p (s_fs (fst (clean_run s sort_opt count))) = alookup p (s_fs s) /\
  ~ In p (cr_obsolete_files (snd (clean_run s sort_opt count))) /\
  forall k, ~ In (k, p) (cr_writes (snd (clean_run s sort_opt count))).

Theorem clean_run_untouched s sort_opt count p :
  ~ In p (fr_obsolete (run_files s count)) -> ~ In p (fr_used (run_files s count)) ->
  untouched s sort_opt count p.
Proof.
  intros Ho Hu. unfold untouched. rewrite clean_run_obsolete_files. split; [|split; [assumption|]].
  - apply clean_run_frame; [now rewrite clean_run_obsolete_files|assumption].
  - intros k H. rewrite clean_run_writes_walk in H. apply in_app_or in H as [H|H].
    + destruct (clean_deletes (s_env s)); [|destruct H]. apply in_map_iff in H as [q [[= _ ->] Hq]]. contradiction.
    + apply fold_ustep_ws_weak in H as [[]|[_ H]]. contradiction.
Qed.

(* (a) a file whose name does not contain ".snap" *)
Corollary untouched_no_snap_in_name s sort_opt count p :
  contains snaps_ext (base_part p) = false -> untouched s sort_opt count p.
Proof.
  intros Hc.
  assert (H : ~ (In p (fr_obsolete (run_files s count)) \/ In p (fr_used (run_files s count)))).
  { intros H. apply touched_path_shape in H as [dir [name [_ [_ [Hn [_ [HB _]]]]]]]. congruence. }
  apply clean_run_untouched; tauto.
Qed.

(* (c) any file in a directory that is not the Dir of an addressed / registered-standalone path *)
Corollary untouched_unvisited_dir s sort_opt count p :
  ~ In (dirname p) (run_dirs s count) -> untouched s sort_opt count p.
Proof.
  intros Hd.
  assert (H : ~ (In p (fr_obsolete (run_files s count)) \/ In p (fr_used (run_files s count)))).
  { intros H. apply touched_path_shape in H as [dir [name [Hv [_ [_ [_ [_ [HD _]]]]]]]].
    apply Hd. rewrite HD. exact Hv. }
  apply clean_run_untouched; tauto.
Qed.

Corollary untouched_unvisited_dir' s sort_opt count p :
  (forall q, In q (registry_paths (s_cleanup s)) -> dirname q <> dirname p) ->
  (forall q, In q (registered_standalone (s_scleanup s) count) -> dirname q <> dirname p) ->
  untouched s sort_opt count p.
Proof.
  intros H1 H2. apply untouched_unvisited_dir. unfold run_dirs. rewrite visited_dirs_spec.
  intros [[q [Hq E]]|[q [Hq E]]]; [apply (H1 q Hq)|apply (H2 q Hq)]; now symmetry.
Qed.

(* (b) a file in a sub-directory of a visited directory: the visit of [dir] never yields it ... *)
Lemma visit_skips_subdir fs dir name sub x :
  cleanform dir -> dir <> [dot] -> In name (readdir_files fs dir) -> contains snaps_ext name = true ->
  join2 dir name <> dir_pre dir ++ sub ++ slash :: x.
Proof.
  intros Hcf Hdot Hn Hc E. destruct (readdir_files_name _ _ _ Hn) as [_ [Hns _]].
  destruct (snap_name_okc name Hc Hns) as [Hok Hdd].
  destruct (cleanform_join2 dir name Hcf Hok Hdd) as [X [E' [_ [_ HX]]]].
  rewrite E', (HX Hdot) in E. apply app_inv_head in E. subst name.
  apply Hns. apply in_or_app. right. now left.
Qed.

(* ... so it is untouched unless the sub-directory is itself a visited directory *)
Corollary untouched_subdir s sort_opt count dir sub x :
  In dir (run_dirs s count) ->
  ~ In (dirname (dir_pre dir ++ sub ++ slash :: x)) (run_dirs s count) ->
  untouched s sort_opt count (dir_pre dir ++ sub ++ slash :: x).
Proof. intros _. apply untouched_unvisited_dir. Qed.

(* the same without mentioning Dir: a path that is not a direct child of any visited directory *)
Corollary untouched_not_direct_child s sort_opt count p :
  ~ In [dot] (run_dirs s count) ->
  (forall d, In d (run_dirs s count) -> file_name_in d p = None) ->
  untouched s sort_opt count p.
Proof.
  intros Hdot Hnc.
  assert (H : ~ (In p (fr_obsolete (run_files s count)) \/ In p (fr_used (run_files s count)))).
  { intros H. apply touched_path_shape in H as [dir [name [Hv [Hn [_ [_ [_ [_ Hk]]]]]]]].
    assert (Hd : dir <> [dot]) by (intros ->; contradiction).
    destruct (Hk Hd) as [Ep _]. destruct (readdir_files_name _ _ _ Hn) as [Hne [Hns _]].
    specialize (Hnc dir Hv). rewrite Ep in Hnc.
    assert (Hs : file_name_in dir (dir_pre dir ++ name) = Some name) by (apply file_name_in_spec; auto).
    congruence. }
  apply clean_run_untouched; tauto.
Qed.

Corollary untouched_subdir_not_child s sort_opt count dir sub x :
  In dir (run_dirs s count) -> ~ In [dot] (run_dirs s count) ->
  (forall d, In d (run_dirs s count) -> d <> dir -> file_name_in d (dir_pre dir ++ sub ++ slash :: x) = None) ->
  untouched s sort_opt count (dir_pre dir ++ sub ++ slash :: x).
Proof.
  intros Hd Hdot H. apply untouched_not_direct_child; [assumption|]. intros d Hv.
  destruct (bytes_eq_dec d dir) as [->|Hne]; [apply file_name_in_subdir|now apply H].
Qed.

(* ---------- reachable states have unique file-system keys ---------- *)

Lemma end_test_fs' s test : s_fs (end_test s test) = s_fs s.
Proof.
  unfold end_test.
  assert (H : forall (l : list (bytes * creset)) st,
            s_fs (fold_left (fun st p => apply_reset st (snd p)) l st) = s_fs st).
  { induction l as [|x l IH]; intros st; cbn [fold_left]; [reflexivity|].
    rewrite IH. destruct (snd x); reflexivity. }
  rewrite H. reflexivity.
Qed.

Definition fs_step_shape (fs fs2 : list (bytes * bytes)) : Prop :=
  fs2 = fs \/ exists p c, fs2 = aset p c fs.

Lemma multi_call_fs_shape s a c test p : fs_step_shape (s_fs s) (s_fs (fst (multi_call s a c test p))).
Proof.
  unfold multi_call, reg_multi, finish, fs_step_shape. cbv beta iota zeta.
  repeat match goal with
         | |- context [match ?x with _ => _ end] => destruct x
         end;
    cbn [fst set_events set_fs add_dir s_fs]; solve [left; reflexivity | right; eexists _, _; reflexivity].
Qed.

Lemma stand_call_fs_shape s a c test p : fs_step_shape (s_fs s) (s_fs (fst (stand_call s a c test p))).
Proof.
  unfold stand_call, reg_stand, finish, fs_step_shape. cbv beta iota zeta.
  repeat match goal with
         | |- context [match ?x with _ => _ end] => destruct x
         end;
    cbn [fst set_events set_fs add_dir s_fs]; solve [left; reflexivity | right; eexists _, _; reflexivity].
Qed.

Lemma step_fs_shape s o : fs_step_shape (s_fs s) (s_fs (fst (step s o))).
Proof.
  destruct o; cbn [step].
  - destruct (nth_error (s_cfgs s) h); [|left; reflexivity].
    destruct (is_standalone a); [apply stand_call_fs_shape|apply multi_call_fs_shape].
  - left. apply end_test_fs'.
  - left. reflexivity.
  - left. reflexivity.
  - left. reflexivity.
  - right. eexists _, _. reflexivity.
  - left. reflexivity.
  - left. reflexivity.
Qed.

Lemma step_keys_nodup s o : NoDup (map fst (s_fs s)) -> NoDup (map fst (s_fs (fst (step s o)))).
Proof.
  intros H. destruct (step_fs_shape s o) as [->|[p [c ->]]]; [assumption|now apply aset_keys_nodup].
Qed.

Lemma run_keys_nodup ops : forall s, NoDup (map fst (s_fs s)) -> NoDup (map fst (s_fs (fst (run s ops)))).
Proof.
  induction ops as [|o ops IH]; intros s H; [assumption|]. cbn [run].
  pose proof (step_keys_nodup s o H) as H1. destruct (step s o) as [s1 ob]. cbn [fst] in H1.
  specialize (IH s1 H1). destruct (run s1 ops) as [s2 obs]. exact IH.
Qed.

(* every state reachable from a fresh process satisfies the hypothesis of section 5 *)
Theorem reachable_keys_nodup e caller dir ops :
  NoDup (map fst (s_fs (fst (run (init_state e caller dir) ops)))).
Proof. apply run_keys_nodup. constructor. Qed.


(* items 2 for a run, stated with run_dirs / run_files *)
Corollary run_unaddressed_file_reported s count dir p c name :
  In (p, c) (s_fs s) -> In dir (run_dirs s count) -> dir <> [dot] ->
  file_name_in dir p = Some name -> contains snaps_ext name = true ->
  ~ In p (registry_paths (s_cleanup s)) -> ~ In p (registered_standalone (s_scleanup s) count) ->
  In p (fr_obsolete (run_files s count)).
Proof. apply unaddressed_file_reported. Qed.

Corollary run_addressed_file_used s count dir p c name :
  In (p, c) (s_fs s) -> In dir (run_dirs s count) -> dir <> [dot] ->
  file_name_in dir p = Some name -> contains snaps_ext name = true ->
  In p (registry_paths (s_cleanup s)) ->
  In p (fr_used (run_files s count)).
Proof. apply addressed_file_used. Qed.
(* ====================================================================================== *)
(* 6. Non-vacuity: a concrete run                                                         *)
(* ====================================================================================== *)

Module Example.
  Local Open Scope string_scope.

  Definition env_of (u : updvar) : env := {| ci := false; upd := u; colour := false |}.
  Definition snap := B "/p/__snapshots__/a_test.snap".        (* addressed, holds a stale entry *)
  Definition old := B "/p/__snapshots__/old_test.snap".       (* unaddressed *)
  Definition notes := B "/p/__snapshots__/notes.txt".         (* no ".snap" in the name *)
  Definition deep := B "/p/__snapshots__/sub/deep.snap".      (* in a sub-directory *)
  Definition far := B "/p/other/x.snap".                      (* in an unvisited directory *)
  Definition content := render (map to_entry [(B "TestA - 1", B "a"); (B "TestOld - 1", B "stale")]).
  Definition pruned := render (map to_entry [(B "TestA - 1", B "a")]).

  Definition ops : list op :=
    [OPutFile snap content; OPutFile old (B "o"); OPutFile notes (B "n");
     OPutFile deep (B "d"); OPutFile far (B "x");
     OMatch ASnap 0 (B "TestA") (POk (B "a")); OEndTest (B "TestA")].

  (* the state after the test binary ran TestA (which passed), with UPDATE_SNAPS = u, off CI *)
  Definition st (u : updvar) : state :=
    fst (run (init_state (env_of u) (B "/p/a_test.go") (B "__snapshots__")) ops).

  Lemma st_keys u : NoDup (map fst (s_fs (st u))).
  Proof. apply reachable_keys_nodup. Qed.

  (* UPDATE_SNAPS=clean: exactly the reported file and the reported entry are removed *)
  Example delete_mode :
    let s := st UClean in
    let res := clean_run s false 1 in
    map o_outcome (snd (run (init_state (env_of UClean) (B "/p/a_test.go") (B "__snapshots__")) ops))
      = [NoCall; NoCall; NoCall; NoCall; NoCall; Passed; NoCall] /\
    clean_deletes (s_env s) = true /\
    run_dirs s 1 = [B "/p/__snapshots__"] /\
    fr_used (run_files s 1) = [snap] /\
    cr_obsolete_files (snd res) = [old] /\
    cr_obsolete_tests (snd res) = [B "TestOld - 1"] /\
    cr_writes (snd res) = [(WRemove, old); (WRewrite, snap)] /\
    s_fs (fst res) = [(snap, pruned); (notes, B "n"); (deep, B "d"); (far, B "x")].
  Proof. vm_compute. repeat split; reflexivity. Qed.

  (* UPDATE_SNAPS unset: the same report, nothing written, the file system is unchanged *)
  Example report_mode :
    let s := st UUnset in
    let res := clean_run s false 1 in
    clean_deletes (s_env s) = false /\
    fr_used (run_files s 1) = [snap] /\
    cr_obsolete_files (snd res) = [old] /\
    cr_obsolete_tests (snd res) = [B "TestOld - 1"] /\
    cr_writes (snd res) = [] /\
    s_fs (fst res) = s_fs s /\
    s_fs s = [(snap, content); (old, B "o"); (notes, B "n"); (deep, B "d"); (far, B "x")].
  Proof. vm_compute. repeat split; reflexivity. Qed.

  (* the theorems apply to this run (their hypotheses hold) and predict the computed result *)
  Example theorems_apply u :
    let s := st u in
    (* item 2: [old] is reported because it is an unaddressed ".snap" child of the visited directory *)
    In old (fr_obsolete (run_files s 1)) /\
    In snap (fr_used (run_files s 1)) /\
    (* item 3: the three kinds of files Clean never touches *)
    untouched s false 1 notes /\ untouched s false 1 deep /\ untouched s false 1 far /\
    (* item 4: the entry report of the run is the entry report of the one used file *)
    cr_obsolete_tests (snd (clean_run s false 1)) =
      fst (run_exam s false 1 snap content).
  Proof.
    cbv zeta.
    assert (Hfs : s_fs (st u) = [(snap, content); (old, B "o"); (notes, B "n"); (deep, B "d"); (far, B "x")])
      by (destruct u; vm_compute; reflexivity).
    assert (Hdirs : run_dirs (st u) 1 = [B "/p/__snapshots__"]) by (destruct u; vm_compute; reflexivity).
    assert (Hpaths : registry_paths (s_cleanup (st u)) = [snap]) by (destruct u; vm_compute; reflexivity).
    assert (Hst : registered_standalone (s_scleanup (st u)) 1 = []) by (destruct u; vm_compute; reflexivity).
    split; [|split; [|split; [|split; [|split]]]].
    - apply (run_unaddressed_file_reported _ _ (B "/p/__snapshots__") old (B "o") (B "old_test.snap")).
      + rewrite Hfs. right. now left.
      + rewrite Hdirs. now left.
      + discriminate.
      + vm_compute. reflexivity.
      + vm_compute. reflexivity.
      + rewrite Hpaths. apply mem_bytes_notin. vm_compute. reflexivity.
      + rewrite Hst. intros [].
    - apply (run_addressed_file_used _ _ (B "/p/__snapshots__") snap content (B "a_test.snap")).
      + rewrite Hfs. now left.
      + rewrite Hdirs. now left.
      + discriminate.
      + vm_compute. reflexivity.
      + vm_compute. reflexivity.
      + rewrite Hpaths. now left.
    - apply untouched_no_snap_in_name. vm_compute. reflexivity.
    - apply untouched_unvisited_dir. rewrite Hdirs. apply mem_bytes_notin. vm_compute. reflexivity.
    - apply untouched_unvisited_dir. rewrite Hdirs. apply mem_bytes_notin. vm_compute. reflexivity.
    - rewrite (clean_run_obsolete_tests _ _ _ (st_keys u)).
      assert (Hu : fr_used (run_files (st u) 1) = [snap]) by (destruct u; vm_compute; reflexivity).
      rewrite Hu. cbn [flat_map]. rewrite app_nil_r, Hfs. unfold alookup. rewrite beq_refl. reflexivity.
  Qed.

  (* in delete mode the reported file is gone, by the theorem *)
  Example reported_file_gone : alookup old (s_fs (fst (clean_run (st UClean) false 1))) = None.
  Proof.
    apply clean_run_deletes_reported; [apply st_keys|vm_compute; reflexivity|].
    rewrite clean_run_obsolete_files. vm_compute. now left.
  Qed.

  (* Why the unique-keys hypothesis is needed for item 4: with a duplicated key the listing shows the
     file twice, it is examined twice, and in delete mode the second examination sees the already
     pruned contents - the report is NOT the flat_map over the original contents. (Such a file system
     is not reachable: reachable_keys_nodup.) *)
  Definition dup_state : state :=
    {| s_env := env_of UClean; s_caller := []; s_fs := [(snap, content); (snap, content)]; s_dirs := [];
       s_running := []; s_cleanup := [((snap, B "TestA"), 1)]; s_srunning := []; s_scleanup := [];
       s_cfgs := []; s_pending := [];
       s_events := {| n_erred := 0; n_added := 0; n_updated := 0; n_passed := 0 |}; s_skipped := [] |}.

  Example duplicate_keys_counterexample :
    fr_used (run_files dup_state 1) = [snap; snap] /\
    cr_obsolete_tests (snd (clean_run dup_state false 1)) = [B "TestOld - 1"] /\
    flat_map (fun p => match alookup p (s_fs dup_state) with
                       | Some f => fst (run_exam dup_state false 1 p f)
                       | None => []
                       end) (fr_used (run_files dup_state 1)) = [B "TestOld - 1"; B "TestOld - 1"].
  Proof. vm_compute. repeat split; reflexivity. Qed.

  (* The model lists directory "." through keys "./name" while Join(".", name) = name: for a
     relative registry path without directory the listed key and the reported path differ. This is
     why the key-level corollaries exclude dir = "."; the path-level theorems do not need it. *)
  Example dot_directory :
    join2 (B ".") (B "x.snap") = B "x.snap" /\ dir_pre (B ".") = B "./" /\
    dirname (B "x.snap") = B ".".
  Proof. vm_compute. repeat split; reflexivity. Qed.
End Example.

(* ====================================================================================== *)
(* Assumptions                                                                            *)
(* ====================================================================================== *)
Print Assumptions sort_bytes_perm.
Print Assumptions file_name_in_spec.
Print Assumptions readdir_files_in.
Print Assumptions file_name_in_subdir.
Print Assumptions readdir_files_not_subdir.
Print Assumptions examine_files_obsolete_eq.
Print Assumptions examine_files_used_eq.
Print Assumptions examine_files_obsolete_iff.
Print Assumptions examine_files_used_iff.
Print Assumptions clean_cleanform.
Print Assumptions join2_base_dirname.
Print Assumptions join2_inj.
Print Assumptions touched_path_shape.
Print Assumptions fr_used_nodup.
Print Assumptions reported_file_sound.
Print Assumptions unaddressed_file_reported.
Print Assumptions addressed_file_used.
Print Assumptions used_file_exists.
Print Assumptions aset_keys_nodup.
Print Assumptions aremove_keys_nodup.
Print Assumptions alookup_aremove_same.
Print Assumptions clean_run_frame.
Print Assumptions clean_run_report_only_changes.
Print Assumptions clean_run_report_only_keeps_paths.
Print Assumptions clean_run_creates_nothing.
Print Assumptions clean_run_used_content.
Print Assumptions clean_run_deletes_reported.
Print Assumptions clean_run_keys_nodup.
Print Assumptions clean_run_obsolete_tests.
Print Assumptions clean_run_writes.
Print Assumptions clean_run_writes_remove.
Print Assumptions clean_run_writes_rewrite.
Print Assumptions clean_run_writes_kinds.
Print Assumptions clean_run_untouched.
Print Assumptions untouched_no_snap_in_name.
Print Assumptions untouched_unvisited_dir.
Print Assumptions untouched_unvisited_dir'.
Print Assumptions visit_skips_subdir.
Print Assumptions untouched_subdir.
Print Assumptions untouched_not_direct_child.
Print Assumptions untouched_subdir_not_child.
Print Assumptions reachable_keys_nodup.
Print Assumptions Example.delete_mode.
Print Assumptions Example.report_mode.
Print Assumptions Example.theorems_apply.
Print Assumptions Example.reported_file_gone.
Print Assumptions Example.duplicate_keys_counterexample.
