(* getTestID recognises exactly-shaped headers of Go test names (no space, Test prefix). *)
From Coq Require Import String.
From Coq Require Import List NArith Arith Bool Lia.
Import ListNotations.
From Snaps Require Import Base.Bytes Base.Lines Base.Dec Base.Assoc.
From Snaps Require Import Model.Frame Model.PathModel Model.Mode Model.Api Model.Natural Model.Clean Model.RunFilter.
From Snaps Require Import Proofs.BytesP Proofs.DecP Proofs.RunFilterP Proofs.CleanEntriesP.

Lemma index_of_no_space (name rest : bytes) :
  no_space name -> index_of sep (name ++ sep ++ rest) = Some (length name).
Proof.
  intros Hn. induction name as [|c name IH].
  - cbn [app length]. unfold index_of. destruct (sep ++ rest) eqn:E; [discriminate|].
    rewrite <- E. now rewrite is_prefix_app.
  - cbn [app length index_of].
    destruct (is_prefix sep (c :: name ++ sep ++ rest)) eqn:E.
    + exfalso. change sep with (32%N :: [45%N; 32%N]) in E. cbn [is_prefix] in E.
      apply andb_prop in E as [E _]. apply N.eqb_eq in E. subst c. apply Hn. now left.
    + rewrite IH by (intros Hin; apply Hn; now right). reflexivity.
Qed.

Lemma last_byte_snoc l c : last_byte (l ++ [c]) = Some c.
Proof. unfold last_byte. rewrite rev_app_distr. reflexivity. Qed.

Lemma firstn_app_exact {A} (l1 l2 : list A) : firstn (length l1) (l1 ++ l2) = l1.
Proof. induction l1; cbn; [now destruct l2|now f_equal]. Qed.

Lemma skipn_app_exact {A} (l1 l2 : list A) : skipn (length l1) (l1 ++ l2) = l2.
Proof. induction l1; cbn; auto. Qed.

(* every id written for a Go test whose name starts with Test is recognised by Clean *)
Lemma recognised_go_name name k :
  is_prefix (B "Test") name = true -> no_space name ->
  recognised (snapshot_occ_fmt name k).
Proof.
  intros Hp Hs. unfold recognised, get_test_id, hdr, snapshot_occ_fmt.
  set (id := name ++ sep ++ dec k).
  assert (Hb : B "[" ++ id ++ B "]" = (91%N :: id) ++ [93%N]) by reflexivity.
  rewrite Hb.
  destruct ((91%N :: id) ++ [93%N]) as [|c0 r0] eqn:E0; [destruct id; discriminate|]. rewrite <- E0.
  assert (Hpre : is_prefix (B "[Test") ((91%N :: id) ++ [93%N]) = true).
  { change (B "[Test") with (91%N :: B "Test"). cbn [app is_prefix]. rewrite N.eqb_refl. cbn [andb].
    unfold id. rewrite <- app_assoc.
    apply is_prefix_spec in Hp as [r ->]. rewrite <- app_assoc. apply is_prefix_app. }
  rewrite Hpre, last_byte_snoc. cbn [andb].
  (* position of the separator *)
  assert (Hidx : index_of sep ((91%N :: id) ++ [93%N]) = Some (S (length name))).
  { unfold id. change (91%N :: name ++ sep ++ dec k) with ((91%N :: name) ++ sep ++ dec k).
    rewrite <- app_assoc. rewrite <- app_assoc.
    rewrite (index_of_no_space (91%N :: name) (dec k ++ [93%N])).
    - reflexivity.
    - intros [H|H]; [discriminate|now apply Hs]. }
  rewrite Hidx.
  assert (Hlen : length ((91%N :: id) ++ [93%N]) - 1 = length (91%N :: id))
    by (rewrite app_length; cbn [length]; lia).
  rewrite Hlen, firstn_app_exact.
  (* the number part *)
  assert (Hnum : skipn (S (length name) + 3) (91%N :: id) = dec k).
  { unfold id. cbn [skipn Nat.add]. rewrite app_assoc.
    replace (length name + 3) with (length (name ++ sep)) by (rewrite app_length; reflexivity).
    apply skipn_app_exact. }
  rewrite Hnum, dec_digits. reflexivity.
Qed.
