(* The ordinal registry over histories: the k-th Match* call of an execution of test N on a
   file addresses slot (N, k), whatever else happened before (C03). *)
From Coq Require Import String.
From Coq Require Import List NArith Arith Bool Lia.
Import ListNotations.
From Snaps Require Import Base.Bytes Base.Lines Base.Dec Base.Assoc.
From Snaps Require Import Model.Frame Model.PathModel Model.Mode Model.Api.
From Snaps Require Import Proofs.BytesP Proofs.ApiP Proofs.StandaloneP Proofs.StepP Proofs.HistoryP.

(* ---------- specification: calls since the last end of that test ---------- *)

Definition counts := key2 -> nat.

Definition bump_key (cnt : counts) (k : key2) : counts :=
  fun k' => if key2_eqb k' k then S (cnt k') else cnt k'.

Definition reset_test (cnt : counts) (t : bytes) : counts :=
  fun k' => if beq (snd k') t then 0 else cnt k'.

(* how one operation changes the per-(file, test) call counts, given the (constant) configs *)
Definition cnt_step (cfgs : list config) (caller : bytes) (cnt : counts) (o : op) : counts :=
  match o with
  | OMatch a hd t p =>
      match nth_error cfgs hd with
      | Some c =>
          if is_standalone a then cnt
          else match a, p with
               | ASnap, PNoValues => cnt
               | _, _ => bump_key cnt (snapshot_path c caller t false, t)
               end
      | None => cnt
      end
  | OEndTest t => reset_test cnt t
  | _ => cnt
  end.

(* ---------- invariant ---------- *)

Definition pending_ok (pend : list (bytes * creset)) : Prop :=
  forall t r, In (t, r) pend -> match r with RMulti _ t' => t' = t | RStand _ => True end.

Definition reg_inv (s : state) (cnt : counts) : Prop :=
  (forall k, get2 (s_running s) k = cnt k) /\
  (forall p t, 0 < cnt (p, t) -> In (t, RMulti p t) (s_pending s)) /\
  pending_ok (s_pending s).

Lemma get2_aset2_same m k v : get2 (aset2 k v m) k = v.
Proof. unfold get2. now rewrite alookup2_aset2_same. Qed.

Lemma get2_aset2_other m k k' v : k' <> k -> get2 (aset2 k v m) k' = get2 m k'.
Proof. intros H. unfold get2. now rewrite alookup2_aset2_other. Qed.

(* ---------- end of a test ---------- *)

Lemma fold_reset_running (l : list (bytes * creset)) : forall st k,
  get2 (s_running (fold_left (fun st p => apply_reset st (snd p)) l st)) k =
  if existsb (fun e => match snd e with RMulti p t => key2_eqb k (p, t) | RStand _ => false end) l
  then 0 else get2 (s_running st) k.
Proof.
  induction l as [|[t r] l IH]; intros st k; cbn [fold_left existsb]; [reflexivity|].
  rewrite IH. cbn [snd].
  destruct (existsb _ l) eqn:E; [now rewrite orb_true_r|]. rewrite orb_false_r.
  destruct r as [p t'|g]; cbn [apply_reset s_running]; [|reflexivity].
  destruct (key2_eqb_spec k (p, t')) as [->|Hne].
  - apply get2_aset2_same.
  - now apply get2_aset2_other.
Qed.

Lemma fold_reset_pending (l : list (bytes * creset)) : forall st,
  s_pending (fold_left (fun st p => apply_reset st (snd p)) l st) = s_pending st.
Proof.
  induction l as [|[t r] l IH]; intros st; cbn [fold_left]; [reflexivity|].
  rewrite IH. destruct r; reflexivity.
Qed.

Lemma end_test_inv s cnt t : reg_inv s cnt -> reg_inv (end_test s t) (reset_test cnt t).
Proof.
  intros [Hr [Hp Hok]]. unfold end_test.
  set (mine := filter (fun p => beq (fst p) t) (s_pending s)).
  set (rest := filter (fun p => negb (beq (fst p) t)) (s_pending s)).
  split; [|split].
  - intros [p t']. rewrite fold_reset_running. cbn [set_pending s_running].
    unfold reset_test. cbn [snd].
    destruct (beq_spec t' t) as [->|Hne].
    + destruct (existsb _ mine) eqn:E; [reflexivity|].
      rewrite Hr. destruct (cnt (p, t)) eqn:Ec; [reflexivity|exfalso].
      assert (Hin : In (t, RMulti p t) mine).
      { apply filter_In. split; [apply Hp; lia|cbn; apply beq_refl]. }
      assert (Hex : existsb (fun e => match snd e with RMulti p0 t0 => key2_eqb (p, t) (p0, t0) | RStand _ => false end) mine = true).
      { apply existsb_exists. exists (t, RMulti p t). split; [assumption|]. cbn.
        destruct (key2_eqb_spec (p, t) (p, t)); congruence. }
      congruence.
    + destruct (existsb _ mine) eqn:E.
      * exfalso. apply existsb_exists in E as [[t0 r] [Hin He]].
        apply filter_In in Hin as [Hin Hb]. cbn in Hb. apply beq_eq in Hb. subst t0.
        destruct r as [p0 t1|g]; cbn in He; [|discriminate].
        destruct (key2_eqb_spec (p, t') (p0, t1)) as [Ek|]; [|discriminate].
        injection Ek as -> ->. specialize (Hok _ _ Hin). cbn in Hok. congruence.
      * apply Hr.
  - intros p t' Hc. rewrite fold_reset_pending. cbn [set_pending s_pending].
    unfold reset_test in Hc. cbn [snd] in Hc.
    destruct (beq_spec t' t) as [E|Hne]; [lia|].
    apply filter_In. split; [now apply Hp|]. cbn. apply beq_neq in Hne. now rewrite Hne.
  - rewrite fold_reset_pending. cbn [set_pending s_pending].
    intros t0 r Hin. apply filter_In in Hin as [Hin _]. now apply Hok.
Qed.

(* ---------- Match* calls ---------- *)

Lemma reg_multi_inv s cnt path test :
  reg_inv s cnt -> reg_inv (fst (reg_multi s path test)) (bump_key cnt (path, test)).
Proof.
  intros [Hr [Hp Hok]]. unfold reg_multi. cbn [fst]. split; [|split]; cbn [s_running s_pending].
  - intros k. unfold bump_key. destruct (key2_eqb_spec k (path, test)) as [->|Hne].
    + rewrite get2_aset2_same. now rewrite Hr.
    + rewrite get2_aset2_other by assumption. apply Hr.
  - intros p t Hc. apply in_or_app. unfold bump_key in Hc.
    destruct (key2_eqb_spec (p, t) (path, test)) as [E|Hne].
    + injection E as -> ->. right. now left.
    + left. now apply Hp.
  - intros t r Hin. apply in_app_or in Hin as [Hin|[E|[]]]; [now apply Hok|].
    injection E as <- <-. reflexivity.
Qed.

Lemma reg_inv_view s t cnt :
  reg_view s = reg_view t -> reg_inv s cnt -> reg_inv t cnt.
Proof.
  unfold reg_view, reg_inv. intros [= H1 H2 H3 H4 H5]. now rewrite <- H2, <- H5.
Qed.

Lemma stand_call_reg s a c test p :
  s_running (fst (stand_call s a c test p)) = s_running s /\
  exists r, s_pending (fst (stand_call s a c test p)) = s_pending s ++ [(test, RStand r)].
Proof.
  unfold stand_call, finish, reg_stand.
  destruct p; cbn; try (split; [reflexivity|eexists; reflexivity]);
    repeat match goal with
           | |- context [match ?x with _ => _ end] => destruct x eqn:?
           end; cbn; (split; [reflexivity|eexists; reflexivity]).
Qed.

Lemma step_inv s cnt o :
  call_op o -> reg_inv s cnt -> reg_inv (fst (step s o)) (cnt_step (s_cfgs s) (s_caller s) cnt o).
Proof.
  intros Hc Hi.
  destruct o as [a hd t p|t|t|fn d ex u|e|pa co|pa|]; cbn [call_op] in Hc; try contradiction.
  - cbn [step cnt_step]. destruct (nth_error (s_cfgs s) hd) as [c|] eqn:Ec; [|exact Hi].
    destruct (is_standalone a) eqn:Hst.
    + destruct (stand_call_reg s (match a with AStandJson => a | _ => a end)
                  (match a with AStandJson => json_ext c | _ => c end) t p) as [Hr [g Hp]].
      assert (Ha : match a with AStandJson => a | _ => a end = a) by now destruct a.
      rewrite Ha in Hr, Hp.
      destruct Hi as [H1 [H2 H3]]. split; [|split].
      * intros k. rewrite Hr. apply H1.
      * intros p0 t0 H0. rewrite Hp. apply in_or_app. left. now apply H2.
      * rewrite Hp. intros t0 r Hin. apply in_app_or in Hin as [Hin|[E|[]]]; [now apply H3|].
        injection E as <- <-. exact I.
    + assert (Hv := multi_call_view s a c t p).
      destruct a, p; try discriminate Hst;
        try (eapply reg_inv_view; [symmetry; exact Hv|]; apply reg_multi_inv; exact Hi).
      eapply reg_inv_view; [symmetry; exact Hv|exact Hi].
  - cbn [step fst cnt_step]. now apply end_test_inv.
  - cbn [step fst cnt_step]. destruct Hi as [H1 [H2 H3]]. split; [|split]; assumption.
Qed.

Definition spec_counts (cfgs : list config) (caller : bytes) (ops : list op) (cnt0 : counts) : counts :=
  fold_left (cnt_step cfgs caller) ops cnt0.

Lemma run_inv ops : forall s cnt,
  Forall call_op ops -> reg_inv s cnt ->
  reg_inv (fst (run s ops)) (spec_counts (s_cfgs s) (s_caller s) ops cnt).
Proof.
  induction ops as [|o r IH]; intros s cnt Hok Hi; [exact Hi|].
  inversion Hok as [|? ? Ho Hr]; subst.
  rewrite run_cons. cbn [fst]. unfold spec_counts. cbn [fold_left].
  pose proof (step_inv s cnt o Ho Hi) as H1.
  pose proof (step_cfgs s o Ho) as Hc.
  assert (Hcal : s_caller (fst (step s o)) = s_caller s).
  { destruct o as [a hd t p|t|t|fn d ex u|e|pa co|pa|]; cbn [call_op] in Ho; try contradiction.
    - cbn [step]. destruct (nth_error (s_cfgs s) hd) as [c|]; [|reflexivity].
      destruct (is_standalone a).
      + destruct (stand_call_spec s a (match a with AStandJson => json_ext c | _ => c end) t [])
          as [_ _]. unfold stand_call, finish, reg_stand.
        destruct p; cbn; try reflexivity;
          repeat match goal with |- context [match ?x with _ => _ end] => destruct x eqn:? end; reflexivity.
      + apply multi_call_caller_cfgs.
    - cbn [step fst]. unfold end_test.
      assert (H : forall (l : list (bytes * creset)) st,
                 s_caller (fold_left (fun st p => apply_reset st (snd p)) l st) = s_caller st).
      { induction l as [|x l IHl]; intros st; cbn [fold_left]; [reflexivity|].
        rewrite IHl. destruct (snd x); reflexivity. }
      now rewrite H.
    - reflexivity. }
  specialize (IH (fst (step s o)) _ Hr H1). rewrite Hc, Hcal in IH. exact IH.
Qed.

Definition fresh_counts : counts := fun _ => 0.

Lemma fresh_inv s : s_running s = [] -> s_pending s = [] -> reg_inv s fresh_counts.
Proof.
  intros Hr Hp. split; [|split].
  - intros k. now rewrite Hr.
  - intros p t H. unfold fresh_counts in H. lia.
  - rewrite Hp. intros t r [].
Qed.

(* the slot addressed by a multi-entry call after ANY history of calls / ends of tests *)
Lemma slot_after_history s0 pre a hd t p c :
  s_running s0 = [] -> s_pending s0 = [] -> Forall call_op pre ->
  nth_error (s_cfgs s0) hd = Some c -> is_standalone a = false -> ~ (a = ASnap /\ p = PNoValues) ->
  let path := snapshot_path c (s_caller s0) t false in
  let k := spec_counts (s_cfgs s0) (s_caller s0) pre fresh_counts (path, t) in
  o_id (snd (step (fst (run s0 pre)) (OMatch a hd t p))) = header t (S k) /\
  o_path (snd (step (fst (run s0 pre)) (OMatch a hd t p))) = path.
Proof.
  intros Hr Hp Hpre Hc Hst Hnw path k.
  pose proof (run_inv pre s0 fresh_counts Hpre (fresh_inv s0 Hr Hp)) as [H1 _].
  pose proof (run_cfgs pre s0 Hpre) as Hcf.
  set (s1 := fst (run s0 pre)) in *.
  assert (Hcal : s_caller s1 = s_caller s0).
  { clear -Hpre. subst s1. revert s0. induction pre as [|o r IH]; intros s0; [reflexivity|].
    inversion Hpre as [|? ? Ho Hr]; subst. rewrite run_cons. cbn [fst]. rewrite IH by assumption.
    destruct o as [a hd t p|t|t|fn d ex u|e|pa co|pa|]; cbn [call_op] in Ho; try contradiction.
    - cbn [step]. destruct (nth_error (s_cfgs s0) hd) as [c|]; [|reflexivity].
      destruct (is_standalone a).
      + unfold stand_call, finish, reg_stand.
        destruct p; cbn; try reflexivity;
          repeat match goal with |- context [match ?x with _ => _ end] => destruct x eqn:? end; reflexivity.
      + apply multi_call_caller_cfgs.
    - cbn [step fst]. unfold end_test.
      assert (H : forall (l : list (bytes * creset)) st,
                 s_caller (fold_left (fun st p => apply_reset st (snd p)) l st) = s_caller st).
      { induction l as [|x l IHl]; intros st; cbn [fold_left]; [reflexivity|].
        rewrite IHl. destruct (snd x); reflexivity. }
      now rewrite H.
    - reflexivity. }
  cbn [step]. rewrite Hcf, Hc, Hst.
  destruct (multi_call s1 a c t p) as [s2 o] eqn:E. cbn [snd].
  assert (Hpath : o_path o = snapshot_path c (s_caller s1) t false)
    by (eapply multi_call_path; eauto).
  split; [|now rewrite Hpath, Hcal].
  destruct p as [| | |text].
  - destruct (multi_call_bad_spec s1 a c t PNoValues EInvalid Hst eq_refl Hnw)
      as [s3 [o3 [E3 [_ [_ [_ [_ [_ [Hid _]]]]]]]]]. rewrite E in E3. injection E3 as <- <-.
    rewrite Hid. unfold multi_id, multi_path. rewrite H1, Hcal. reflexivity.
  - assert (Hn : ~ (a = ASnap /\ PInvalid = PNoValues)) by (intros [_ H]; discriminate H).
    destruct (multi_call_bad_spec s1 a c t PInvalid EInvalid Hst eq_refl Hn)
      as [s3 [o3 [E3 [_ [_ [_ [_ [_ [Hid _]]]]]]]]]. rewrite E in E3. injection E3 as <- <-.
    rewrite Hid. unfold multi_id, multi_path. rewrite H1, Hcal. reflexivity.
  - assert (Hn : ~ (a = ASnap /\ PMatchErr = PNoValues)) by (intros [_ H]; discriminate H).
    destruct (multi_call_bad_spec s1 a c t PMatchErr EMatchers Hst eq_refl Hn)
      as [s3 [o3 [E3 [_ [_ [_ [_ [_ [Hid _]]]]]]]]]. rewrite E in E3. injection E3 as <- <-.
    rewrite Hid. unfold multi_id, multi_path. rewrite H1, Hcal. reflexivity.
  - destruct (multi_call_spec s1 a c t text Hst) as [s3 [o3 [E3 [_ [Hid _]]]]].
    rewrite E in E3. injection E3 as <- <-.
    rewrite Hid. unfold multi_id, multi_path. rewrite H1, Hcal. reflexivity.
Qed.
