(* Clean treats the files it examines independently of one another: what a used file holds after the run is determined by
   its own entries, its own part of the registry, the skip list and the mode - not by any other file or registry entry
   (the class of defects where examineSnaps carries a buffer, a map or an id list over from one file to the next). *)
From Coq Require Import String.
From Coq Require Import List NArith Arith Bool Lia Permutation.
Import ListNotations.
From Snaps Require Import Base.Bytes Base.Lines Base.Dec Base.Assoc.
From Snaps Require Import Model.Frame Model.PathModel Model.Mode Model.Api Model.Natural Model.Clean.
From Snaps Require Import Proofs.BytesP Proofs.FrameP Proofs.CleanP Proofs.CleanEntriesP Proofs.CleanFilesP Proofs.CleanRunP.

Theorem clean_file_independent s s' sort_opt count p es :
  NoDup (map fst (s_fs s)) -> NoDup (map fst (s_fs s')) ->
  In p (fr_used (run_files s count)) -> In p (fr_used (run_files s' count)) ->
  alookup p (s_fs s) = Some (render (map to_entry es)) ->
  alookup p (s_fs s') = Some (render (map to_entry es)) ->
  Forall centry_ok es -> NoDup (map fst es) ->
  s_env s = s_env s' -> s_skipped s = s_skipped s' ->
  registered_tests (s_cleanup s) p count = registered_tests (s_cleanup s') p count ->
  alookup p (s_fs (fst (clean_run s sort_opt count))) = alookup p (s_fs (fst (clean_run s' sort_opt count))).
Proof.
  intros K K' U U' C C' Hok Hnd Eenv Eskp Ereg.
  rewrite (run_file_content s sort_opt count p es K U C Hok Hnd).
  rewrite (run_file_content s' sort_opt count p es K' U' C' Hok Hnd).
  unfold run_entries, run_reg, run_del, run_srt. now rewrite Eenv, Eskp, Ereg.
Qed.

(* ... and whether it is written at all *)
Theorem clean_file_written_independent s s' sort_opt count p es :
  NoDup (map fst (s_fs s)) -> NoDup (map fst (s_fs s')) ->
  In p (fr_used (run_files s count)) -> In p (fr_used (run_files s' count)) ->
  alookup p (s_fs s) = Some (render (map to_entry es)) ->
  alookup p (s_fs s') = Some (render (map to_entry es)) ->
  Forall centry_ok es -> NoDup (map fst es) ->
  s_env s = s_env s' -> s_skipped s = s_skipped s' ->
  registered_tests (s_cleanup s) p count = registered_tests (s_cleanup s') p count ->
  (In (WRewrite, p) (cr_writes (snd (clean_run s sort_opt count))) <->
   In (WRewrite, p) (cr_writes (snd (clean_run s' sort_opt count)))).
Proof.
  intros K K' U U' C C' Hok Hnd Eenv Eskp Ereg.
  rewrite (run_file_written s sort_opt count p es K U C Hok Hnd).
  rewrite (run_file_written s' sort_opt count p es K' U' C' Hok Hnd).
  unfold run_reg, run_del, run_srt. now rewrite Eenv, Eskp, Ereg.
Qed.
