(* Per-call facts about the Match* state machine used by C02, C03, C05, C12, C17, C20. *)
From Coq Require Import String.
From Coq Require Import List NArith Arith Bool Lia.
Import ListNotations.
From Snaps Require Import Base.Bytes Base.Lines Base.Dec Base.Assoc.
From Snaps Require Import Model.Frame Model.PathModel Model.Mode Model.Api.
From Snaps Require Import Proofs.BytesP Proofs.LinesP Proofs.DecP Proofs.FrameP Proofs.DiffDecisionP
  Proofs.ApiP Proofs.StandaloneP.

(* ---------- complete description of a standalone call ---------- *)

Lemma stand_call_spec s a c test text :
  let generic := stand_generic s c test in
  let path := stand_path s c test in
  exists s' o, stand_call s a c test (POk text) = (s', o) /\
    o_path o = path /\ s_env s' = s_env s /\ s_cfgs s' = s_cfgs s /\ s_caller s' = s_caller s /\
    get1 (s_srunning s') generic = S (get1 (s_srunning s) generic) /\
    match alookup path (s_fs s) with
    | Some prev =>
        if diff_empty prev text then
          o_outcome o = Passed /\ o_writes o = [] /\ s_fs s' = s_fs s
        else if should_update (s_env s) (c_update c) then
          o_outcome o = Updated /\ o_writes o = [(WRewrite, path)] /\ s_fs s' = aset path text (s_fs s)
        else o_outcome o = Failed EDiff /\ o_writes o = [] /\ s_fs s' = s_fs s
    | None =>
        if should_create (s_env s) (c_update c) then
          o_outcome o = Added /\ o_writes o = [(WCreate, path)] /\ s_fs s' = aset path text (s_fs s)
        else o_outcome o = Failed ENotFound /\ o_writes o = [] /\ s_fs s' = s_fs s
    end /\
    s_events s' = bump (o_outcome o) (s_events s) /\
    o_errors o = (match o_outcome o with Failed _ => 1 | _ => 0 end) /\
    o_logs o = (match o_outcome o with Added => [LAdded] | Updated => [LUpdated] | _ => [] end).
Proof.
  intros generic path. subst generic path.
  unfold stand_call, stand_path, stand_generic, finish, reg_stand. cbn.
  match goal with |- context [alookup ?p ?m] => destruct (alookup p m) as [prev|] eqn:Ef end;
    repeat match goal with
           | |- context [if ?b then _ else _] => destruct b eqn:?
           end;
    eexists _, _; (split; [reflexivity|]); cbn; unfold get1; rewrite ?alookup_aset_same;
    repeat split; reflexivity.
Qed.

(* ---------- failing validation / matchers: one error, no write, ordinal consumed ---------- *)

Definition bad_pre (p : pre) : option errkind :=
  match p with PInvalid | PNoValues => Some EInvalid | PMatchErr => Some EMatchers | POk _ => None end.

Lemma multi_call_bad_spec s a c test p k :
  is_standalone a = false -> bad_pre p = Some k -> ~ (a = ASnap /\ p = PNoValues) ->
  exists s' o, multi_call s a c test p = (s', o) /\
    o_outcome o = Failed k /\ o_errors o = 1 /\ o_logs o = [] /\ o_writes o = [] /\
    s_fs s' = s_fs s /\ o_id o = multi_id s c test /\ o_path o = multi_path s c test /\
    get2 (s_running s') (multi_path s c test, test) = S (get2 (s_running s) (multi_path s c test, test)) /\
    s_events s' = bump (Failed k) (s_events s).
Proof.
  intros Hst Hb Hnw. unfold multi_call, finish, reg_multi, multi_id, multi_path.
  destruct a; try discriminate Hst; destruct p; try discriminate Hb;
    try (exfalso; apply Hnw; split; reflexivity);
    injection Hb as <-; cbn; eexists _, _; (split; [reflexivity|]); cbn;
    unfold get2; rewrite ?alookup2_aset2_same; repeat split; reflexivity.
Qed.

Lemma stand_call_bad_spec s a c test p k :
  bad_pre p = Some k ->
  exists s' o, stand_call s a c test p = (s', o) /\
    o_outcome o = Failed k /\ o_errors o = 1 /\ o_logs o = [] /\ o_writes o = [] /\
    s_fs s' = s_fs s /\ o_path o = stand_path s c test /\
    get1 (s_srunning s') (stand_generic s c test) = S (get1 (s_srunning s) (stand_generic s c test)) /\
    s_events s' = bump (Failed k) (s_events s).
Proof.
  intros Hb. unfold stand_call, finish, reg_stand, stand_path, stand_generic.
  destruct p; try discriminate Hb; injection Hb as <-; cbn;
    eexists _, _; (split; [reflexivity|]); cbn; unfold get1; rewrite ?alookup_aset_same;
    repeat split; reflexivity.
Qed.

(* ---------- where a call goes ---------- *)

Lemma multi_call_path s a c test p s' o :
  is_standalone a = false -> ~ (a = ASnap /\ p = PNoValues) ->
  multi_call s a c test p = (s', o) -> o_path o = snapshot_path c (s_caller s) test false.
Proof.
  intros Hst Hnw E.
  destruct p as [| | |text].
  - destruct (multi_call_bad_spec s a c test PNoValues EInvalid Hst eq_refl Hnw)
      as [s2 [o2 [E2 [_ [_ [_ [_ [_ [_ [Hp _]]]]]]]]]]. rewrite E in E2. injection E2 as <- <-. exact Hp.
  - destruct (multi_call_bad_spec s a c test PInvalid EInvalid Hst eq_refl Hnw)
      as [s2 [o2 [E2 [_ [_ [_ [_ [_ [_ [Hp _]]]]]]]]]]. rewrite E in E2. injection E2 as <- <-. exact Hp.
  - destruct (multi_call_bad_spec s a c test PMatchErr EMatchers Hst eq_refl Hnw)
      as [s2 [o2 [E2 [_ [_ [_ [_ [_ [_ [Hp _]]]]]]]]]]. rewrite E in E2. injection E2 as <- <-. exact Hp.
  - destruct (multi_call_spec s a c test text Hst) as [s2 [o2 [E2 [Hp _]]]].
    rewrite E in E2. injection E2 as <- <-. exact Hp.
Qed.

Lemma stand_call_path_full s a c test p s' o :
  stand_call s a c test p = (s', o) ->
  o_path o = subst_d (snapshot_path c (s_caller s) test true)
               (dec (S (get1 (s_srunning s) (snapshot_path c (s_caller s) test true)))).
Proof. intros H. exact (stand_call_path _ _ _ _ _ _ _ H). Qed.

Lemma new_config_keeps s fn d ex u h :
  h < length (s_cfgs s) ->
  nth_error (s_cfgs (fst (step s (ONewConfig fn d ex u)))) h = nth_error (s_cfgs s) h.
Proof. intros. cbn. now rewrite nth_error_app1. Qed.

(* ---------- configs are never changed by calls ---------- *)

Lemma multi_call_cfgs s a c test p : s_cfgs (fst (multi_call s a c test p)) = s_cfgs s.
Proof.
  unfold multi_call, finish, reg_multi.
  destruct a, p; cbn; try reflexivity;
    repeat match goal with
           | |- context [match ?x with _ => _ end] => destruct x eqn:?
           end; reflexivity.
Qed.

Lemma stand_call_cfgs s a c test p : s_cfgs (fst (stand_call s a c test p)) = s_cfgs s.
Proof.
  unfold stand_call, finish, reg_stand.
  destruct p; cbn; try reflexivity;
    repeat match goal with
           | |- context [match ?x with _ => _ end] => destruct x eqn:?
           end; reflexivity.
Qed.

Lemma end_test_cfgs s test : s_cfgs (end_test s test) = s_cfgs s.
Proof.
  unfold end_test.
  assert (H : forall (l : list (bytes * creset)) st,
             s_cfgs (fold_left (fun st p => apply_reset st (snd p)) l st) = s_cfgs st).
  { induction l as [|x l IH]; intros st; cbn [fold_left]; [reflexivity|].
    rewrite IH. destruct (snd x); reflexivity. }
  now rewrite H.
Qed.

Definition call_op (o : op) : Prop :=
  match o with OMatch _ _ _ _ | OEndTest _ | OSkip _ => True | _ => False end.

Lemma step_cfgs s o : call_op o -> s_cfgs (fst (step s o)) = s_cfgs s.
Proof.
  destruct o as [a hd test p|test|test|fn d ex u|e|pa co|pa|]; cbn [call_op]; try contradiction;
    intros _; cbn [step].
  - destruct (nth_error (s_cfgs s) hd) as [c|]; [|reflexivity].
    destruct (is_standalone a); [apply stand_call_cfgs|apply multi_call_cfgs].
  - apply end_test_cfgs.
  - reflexivity.
Qed.

Lemma run_cfgs ops : forall s, Forall call_op ops -> s_cfgs (fst (run s ops)) = s_cfgs s.
Proof.
  induction ops as [|o r IH]; intros s H; [reflexivity|].
  inversion H as [|? ? Ho Hr]; subst.
  cbn [run]. destruct (step s o) as [s1 ob] eqn:E. destruct (run s1 r) as [s2 obs] eqn:E2.
  cbn [fst]. pose proof (IH s1 Hr) as H1. rewrite E2 in H1. cbn in H1.
  pose proof (step_cfgs s o Ho) as H0. rewrite E in H0. cbn in H0. congruence.
Qed.

(* ---------- header injectivity ---------- *)

Lemma digits_split d1 d2 x1 x2 c1 c2 :
  forallb is_digit d1 = true -> forallb is_digit d2 = true ->
  is_digit c1 = false -> is_digit c2 = false ->
  d1 ++ c1 :: x1 = d2 ++ c2 :: x2 -> d1 = d2 /\ c1 :: x1 = c2 :: x2.
Proof.
  revert d2. induction d1 as [|a d1 IH]; intros d2 H1 H2 Hc1 Hc2 E.
  - destruct d2 as [|b d2]; [auto|]. cbn in E. injection E as -> _.
    cbn in H2. apply andb_prop in H2 as [H2 _]. congruence.
  - destruct d2 as [|b d2].
    + cbn in E. injection E as -> _. cbn in H1. apply andb_prop in H1 as [H1 _]. congruence.
    + cbn in E. injection E as -> E. cbn in H1, H2.
      apply andb_prop in H1 as [_ H1]. apply andb_prop in H2 as [_ H2].
      destruct (IH d2 H1 H2 Hc1 Hc2 E) as [-> E']. split; [reflexivity|assumption].
Qed.

Lemma rev_digits d : forallb is_digit d = true -> forallb is_digit (rev d) = true.
Proof.
  intros H. rewrite forallb_forall in *. intros x Hx. apply H. now apply in_rev.
Qed.

(* distinct (name, ordinal) pairs give distinct headers - for ALL names, including names
   that are prefixes of each other, contain " - " or end in digits *)
Lemma header_inj n1 k1 n2 k2 : header n1 k1 = header n2 k2 -> n1 = n2 /\ k1 = k2.
Proof.
  unfold header. intros H.
  apply (f_equal (@rev N)) in H.
  rewrite !rev_app_distr in H. cbn [B rev map String.list_ascii_of_string app] in H.
  cbn in H. injection H as H.
  rewrite <- !app_assoc in H. cbn [app] in H.
  apply digits_split in H; try reflexivity; try (apply rev_digits, dec_digits).
  destruct H as [Hd Hr]. injection Hr as Hr.
  apply (f_equal (@rev N)) in Hd. rewrite !rev_involutive in Hd. apply dec_inj in Hd.
  apply app_inv_tail in Hr. apply (f_equal (@rev N)) in Hr. rewrite !rev_involutive in Hr.
  auto.
Qed.
