(* SummaryP: the "Snapshot Summary" text shows exactly the totals and lists exactly the items.
   Main theorem: the independent reader [read_summary] recovers [sumread_of d] from what Clean prints,
   in both colour modes. *)
From Coq Require Import String.
From Coq Require Import List NArith Arith Bool Lia Decimal DecimalNat DecimalFacts.
Import ListNotations.
From Snaps Require Import Base.Bytes Base.Lines Base.Dec.
From Snaps Require Import Model.Api Model.Clean Model.Summary.
From Snaps Require Import Proofs.BytesP Proofs.LinesP Proofs.DecP.

(* ====================================================================== *)
(* Numerals                                                                *)
(* ====================================================================== *)

Lemma parse_digits_uint u acc : parse_digits acc (uint_bytes u) = Some (Nat.of_uint_acc u acc).
Proof.
  revert acc. induction u as [|u IH|u IH|u IH|u IH|u IH|u IH|u IH|u IH|u IH|u IH]; intros acc;
    cbn [uint_bytes parse_digits Nat.of_uint_acc]; [reflexivity|..].
  all: match goal with |- context [digit_val ?c] =>
         let v := eval vm_compute in (digit_val c) in change (digit_val c) with v end.
  all: cbv iota beta; rewrite IH; f_equal; f_equal; rewrite Nat.tail_mul_spec; lia.
Qed.

Lemma unorm_D0 u r : unorm u = D0 r -> r = Nil.
Proof.
  induction u; cbn; intros H; try discriminate; auto.
  now injection H as <-.
Qed.

Lemma to_uint_norm n : unorm (Nat.to_uint n) = Nat.to_uint n.
Proof. rewrite <- (Unsigned.to_of (Nat.to_uint n)). now rewrite Unsigned.of_to. Qed.

Theorem parse_dec_dec n : parse_dec (dec n) = Some n.
Proof.
  unfold dec. pose proof (to_uint_norm n) as Hn. pose proof (Unsigned.of_to n) as Hv.
  destruct (Nat.to_uint n) as [|u|u|u|u|u|u|u|u|u|u] eqn:E.
  - discriminate Hn.
  - assert (u = Nil) by (apply (unorm_D0 (D0 u)); exact Hn). subst u.
    cbn in Hv. subst n. reflexivity.
  - rewrite <- Hv. unfold parse_dec, Nat.of_uint. rewrite <- parse_digits_uint. reflexivity.
  - rewrite <- Hv. unfold parse_dec, Nat.of_uint. rewrite <- parse_digits_uint. reflexivity.
  - rewrite <- Hv. unfold parse_dec, Nat.of_uint. rewrite <- parse_digits_uint. reflexivity.
  - rewrite <- Hv. unfold parse_dec, Nat.of_uint. rewrite <- parse_digits_uint. reflexivity.
  - rewrite <- Hv. unfold parse_dec, Nat.of_uint. rewrite <- parse_digits_uint. reflexivity.
  - rewrite <- Hv. unfold parse_dec, Nat.of_uint. rewrite <- parse_digits_uint. reflexivity.
  - rewrite <- Hv. unfold parse_dec, Nat.of_uint. rewrite <- parse_digits_uint. reflexivity.
  - rewrite <- Hv. unfold parse_dec, Nat.of_uint. rewrite <- parse_digits_uint. reflexivity.
  - rewrite <- Hv. unfold parse_dec, Nat.of_uint. rewrite <- parse_digits_uint. reflexivity.
Qed.

(* the numeral reader rejects what it must *)
Example parse_dec_rejects :
  parse_dec [] = None /\ parse_dec (B "007") = None /\ parse_dec (B "1x") = None /\ parse_dec (B "-1") = None
  /\ parse_dec (B "0") = Some 0 /\ parse_dec (B "120") = Some 120.
Proof. vm_compute. repeat split. Qed.

Definition hd_nondigit (s : bytes) : bool :=
  match s with [] => true | c :: _ => negb (is_digit c) end.

Lemma span_digits_app a rest :
  forallb is_digit a = true -> hd_nondigit rest = true -> span_digits (a ++ rest) = (a, rest).
Proof.
  intros Ha Hr. induction a as [|c a IH].
  - change ([] ++ rest) with rest.
    destruct rest as [|c r]; [reflexivity|]. cbn [hd_nondigit] in Hr. cbn [span_digits].
    destruct (is_digit c); [discriminate|reflexivity].
  - cbn [forallb] in Ha. apply andb_true_iff in Ha as [Hc Ha].
    change ((c :: a) ++ rest) with (c :: (a ++ rest)). cbn [span_digits]. rewrite Hc, (IH Ha). reflexivity.
Qed.

Lemma read_number_dec n rest : hd_nondigit rest = true -> read_number (dec n ++ rest) = Some (n, rest).
Proof.
  intros H. unfold read_number. rewrite span_digits_app by (auto using dec_digits).
  now rewrite parse_dec_dec.
Qed.

Lemma strip_prefix_app p r : strip_prefix p (p ++ r) = Some r.
Proof. induction p as [|x p IH]; cbn; [reflexivity|]. now rewrite N.eqb_refl. Qed.

Lemma plural_r_s n : plural n = r_s n.
Proof. reflexivity. Qed.

Lemma hint_r_hint n : hint_text n = r_hint n.
Proof. reflexivity. Qed.

Lemma r_hint_lead_ok n :
  strip_prefix r_hint_lead (r_hint n)
  = Some ((if Nat.leb 2 n then B "them" else B "it") ++ B ", re-run tests with `UPDATE_SNAPS=clean go test ./...`").
Proof. unfold r_hint, r_hint_lead. apply strip_prefix_app. Qed.

(* ====================================================================== *)
(* Hypothesis on items                                                     *)
(* ====================================================================== *)

(* an item (a file path or a test id) contains neither a newline nor an ESC byte *)
Definition item_ok (it : bytes) : Prop := ~ In 10%N it /\ ~ In 27%N it.
Definition items_ok (d : sumdata) : Prop := Forall item_ok (sd_files d) /\ Forall item_ok (sd_tests d).

Definition nonl (l : bytes) : bool := forallb (fun c => negb (N.eqb c 10)) l.
Definition noesc (l : bytes) : bool := forallb (fun c => negb (N.eqb c 27)) l.

Lemma notin_forallb x l : ~ In x l -> forallb (fun c => negb (N.eqb c x)) l = true.
Proof.
  induction l as [|c l IH]; intros H; [reflexivity|]. cbn [forallb].
  rewrite IH by (intros H1; apply H; now right).
  destruct (N.eqb_spec c x) as [->|]; [exfalso; apply H; now left|reflexivity].
Qed.

Lemma forallb_notin x l : forallb (fun c => negb (N.eqb c x)) l = true -> ~ In x l.
Proof.
  intros H Hin. rewrite forallb_forall in H. specialize (H x Hin). now rewrite N.eqb_refl in H.
Qed.

Lemma item_ok_nonl it : item_ok it -> nonl it = true.
Proof. intros [H _]. now apply notin_forallb. Qed.
Lemma item_ok_noesc it : item_ok it -> noesc it = true.
Proof. intros [_ H]. now apply notin_forallb. Qed.

(* a boolean test for the hypothesis *)
Lemma items_ok_b d :
  forallb (fun it => nonl it && noesc it) (sd_files d ++ sd_tests d) = true -> items_ok d.
Proof.
  rewrite forallb_app, andb_true_iff, !forallb_forall. intros [Hf Ht].
  split; apply Forall_forall; intros it Hin; [specialize (Hf it Hin)|specialize (Ht it Hin)];
    apply andb_true_iff in Hf || apply andb_true_iff in Ht.
  - destruct Hf. split; now apply forallb_notin.
  - destruct Ht. split; now apply forallb_notin.
Qed.

Lemma nonl_no_nl l : nonl l = true -> no_nl l.
Proof. apply forallb_notin. Qed.

Lemma nonl_app a b : nonl (a ++ b) = nonl a && nonl b.
Proof. apply forallb_app. Qed.
Lemma noesc_app a b : noesc (a ++ b) = noesc a && noesc b.
Proof. apply forallb_app. Qed.

Lemma digits_nonl l : forallb is_digit l = true -> nonl l = true.
Proof.
  intros H. unfold nonl. rewrite forallb_forall in *. intros c Hc. specialize (H c Hc).
  unfold is_digit in H. apply andb_true_iff in H as [H1 _]. apply N.leb_le in H1.
  destruct (N.eqb_spec c 10); [lia|reflexivity].
Qed.
Lemma digits_noesc l : forallb is_digit l = true -> noesc l = true.
Proof.
  intros H. unfold noesc. rewrite forallb_forall in *. intros c Hc. specialize (H c Hc).
  unfold is_digit in H. apply andb_true_iff in H as [H1 _]. apply N.leb_le in H1.
  destruct (N.eqb_spec c 27); [lia|reflexivity].
Qed.
Lemma dec_nonl n : nonl (dec n) = true. Proof. apply digits_nonl, dec_digits. Qed.
Lemma dec_noesc n : noesc (dec n) = true. Proof. apply digits_noesc, dec_digits. Qed.
Lemma plural_nonl n : nonl (plural n) = true. Proof. unfold plural. now destruct (Nat.ltb 1 n). Qed.
Lemma plural_noesc n : noesc (plural n) = true. Proof. unfold plural. now destruct (Nat.ltb 1 n). Qed.

(* ====================================================================== *)
(* The text as a list of lines                                             *)
(* ====================================================================== *)

Definition ev_line (sym verb : bytes) (n : nat) : bytes :=
  sym ++ dec n ++ B " snapshot" ++ plural n ++ B " " ++ verb.
Definition ev_lines (sym verb : bytes) (n : nat) : list bytes :=
  match n with O => [] | _ => [ev_line sym verb n] end.
Definition hdr_line (upd : bool) (name : bytes) (n : nat) : bytes :=
  sym_arrow ++ dec n ++ B " snapshot " ++ (name ++ plural n) ++ B " " ++ (if upd then B "removed" else B "obsolete").
Definition item_line (o : bytes) : bytes := B "  " ++ sym_enter ++ B " " ++ sym_bullet ++ o.
Definition sect_lines (upd : bool) (name : bytes) (objs : list bytes) : list bytes :=
  if Nat.ltb 0 (length objs) then [ []; hdr_line upd name (length objs) ] ++ map item_line objs else [].
Definition hint_lines (upd : bool) (total : nat) : list bytes :=
  if negb upd && Nat.ltb 0 total then [ []; hint_text total ] else [].
(* everything after the counter lines, up to and including Println's empty line *)
Definition tail_lines (upd : bool) (files tests : list bytes) : list bytes :=
  sect_lines upd (B "file") files ++ sect_lines upd (B "test") tests
  ++ hint_lines upd (length files + length tests) ++ [ [] ].
Definition events_lines (c : counters) (sk : nat) : list bytes :=
  ev_lines sym_success (B "passed") (n_passed c) ++ ev_lines sym_error (B "failed") (n_erred c)
  ++ ev_lines sym_update (B "added") (n_added c) ++ ev_lines sym_update (B "updated") (n_updated c)
  ++ ev_lines sym_skip (B "skipped") sk.
Definition body_lines (d : sumdata) : list bytes :=
  [] :: B "Snapshot Summary" :: [] ::
  (events_lines (sd_counts d) (sd_skipped d) ++ tail_lines (sd_update d) (sd_files d) (sd_tests d)).

Lemma unlines_one l : unlines [l] = l ++ [nl].
Proof. unfold unlines. cbn [map concat]. apply List.app_nil_r. Qed.

Lemma print_event_lines color sym verb n :
  print_event true color sym verb n = unlines (ev_lines sym verb n).
Proof.
  destruct n as [|n]; [reflexivity|]. unfold print_event, ev_lines, paint. rewrite unlines_one.
  unfold ev_line. rewrite <- !List.app_assoc. reflexivity.
Qed.

Lemma items_lines objs : concat (map (object_item true) objs) = unlines (map item_line objs).
Proof.
  induction objs as [|o objs IH]; [reflexivity|].
  cbn [map concat]. rewrite unlines_cons, IH. unfold object_item, paint, item_line.
  rewrite <- !List.app_assoc. reflexivity.
Qed.

Lemma object_list_lines upd objs name :
  (if Nat.ltb 0 (length objs) then object_list true upd objs name else []) = unlines (sect_lines upd name objs).
Proof.
  unfold sect_lines. destruct (Nat.ltb 0 (length objs)); [|reflexivity].
  unfold object_list. rewrite items_lines, unlines_app. f_equal.
  unfold paint, hdr_line, unlines. cbn [map concat]. rewrite List.app_nil_r.
  destruct upd; rewrite <- !List.app_assoc; reflexivity.
Qed.

Lemma hint_lines_text upd total :
  (if negb upd && Nat.ltb 0 total then paint true c_dim ([nl] ++ hint_text total ++ [nl]) else [])
  = unlines (hint_lines upd total).
Proof.
  unfold hint_lines. destruct (negb upd && Nat.ltb 0 total); [|reflexivity].
  unfold paint, unlines. cbn [map concat]. rewrite List.app_nil_r, <- !List.app_assoc. reflexivity.
Qed.

Lemma summary_lines d :
  sum_nothing d = false -> summary true d ++ [nl] = unlines (body_lines d).
Proof.
  intros H. unfold summary. rewrite H. rewrite !print_event_lines, !object_list_lines, hint_lines_text.
  unfold body_lines, events_lines, tail_lines.
  rewrite !unlines_cons, !unlines_app, unlines_one. unfold paint.
  rewrite <- !List.app_assoc. reflexivity.
Qed.

(* ---- no line contains a newline ---- *)

Lemma ev_line_nonl sym verb n : nonl sym = true -> nonl verb = true -> nonl (ev_line sym verb n) = true.
Proof.
  intros Hs Hv. unfold ev_line. rewrite !nonl_app, Hs, Hv, dec_nonl, plural_nonl. reflexivity.
Qed.

Lemma ev_lines_no_nl sym verb n :
  nonl sym = true -> nonl verb = true -> Forall no_nl (ev_lines sym verb n).
Proof.
  intros Hs Hv. destruct n; cbn [ev_lines]; constructor; [|constructor].
  now apply nonl_no_nl, ev_line_nonl.
Qed.

Lemma item_lines_no_nl objs : Forall item_ok objs -> Forall no_nl (map item_line objs).
Proof.
  induction 1 as [|o objs Ho _ IH]; cbn [map]; constructor; [|exact IH].
  apply nonl_no_nl. unfold item_line. rewrite !nonl_app, (item_ok_nonl _ Ho). reflexivity.
Qed.

Lemma sect_lines_no_nl upd name objs :
  nonl name = true -> Forall item_ok objs -> Forall no_nl (sect_lines upd name objs).
Proof.
  intros Hn Ho. unfold sect_lines. destruct (Nat.ltb 0 (length objs)); [|constructor].
  apply Forall_app. split; [|now apply item_lines_no_nl].
  constructor; [apply no_nl_nil|]. constructor; [|constructor].
  apply nonl_no_nl. unfold hdr_line. rewrite !nonl_app, Hn, dec_nonl, plural_nonl. now destruct upd.
Qed.

Lemma hint_lines_no_nl upd total : Forall no_nl (hint_lines upd total).
Proof.
  unfold hint_lines. destruct (negb upd && Nat.ltb 0 total); [|constructor].
  constructor; [apply no_nl_nil|]. constructor; [|constructor].
  apply nonl_no_nl. unfold hint_text. now destruct (Nat.ltb 1 total).
Qed.

Lemma body_lines_no_nl d : items_ok d -> Forall no_nl (body_lines d).
Proof.
  intros [Hf Ht]. unfold body_lines.
  constructor; [apply no_nl_nil|]. constructor; [now apply nonl_no_nl|]. constructor; [apply no_nl_nil|].
  unfold events_lines, tail_lines. rewrite !Forall_app. repeat split;
    try (apply ev_lines_no_nl; reflexivity); try (apply sect_lines_no_nl; [reflexivity|assumption]).
  - apply hint_lines_no_nl.
  - constructor; [apply no_nl_nil|constructor].
Qed.

Lemma split_body d :
  sum_nothing d = false -> items_ok d ->
  split_nl (summary true d ++ [nl]) = body_lines d ++ [ [] ].
Proof.
  intros H Hi. rewrite summary_lines by exact H. apply split_nl_unlines, body_lines_no_nl, Hi.
Qed.

(* ====================================================================== *)
(* Stripping the colours                                                   *)
(* ====================================================================== *)

Lemma strip_noesc s rest :
  noesc s = true -> strip_ansi_aux SNorm (s ++ rest) = s ++ strip_ansi_aux SNorm rest.
Proof.
  induction s as [|c s IH]; intros H; [reflexivity|].
  cbn [noesc forallb] in H. apply andb_true_iff in H as [Hc Hs].
  change ((c :: s) ++ rest) with (c :: (s ++ rest)). cbn [strip_ansi_aux].
  apply negb_true_iff in Hc. rewrite Hc, (IH Hs). reflexivity.
Qed.

(* [c] is a complete "ESC [ ... m" sequence *)
Definition sgr (c : bytes) : Prop :=
  forall rest, strip_ansi_aux SNorm (c ++ rest) = strip_ansi_aux SNorm rest.

Lemma sgr_reset : sgr c_reset. Proof. intros rest. reflexivity. Qed.
Lemma sgr_boldwhite : sgr c_boldwhite. Proof. intros rest. reflexivity. Qed.
Lemma sgr_dim : sgr c_dim. Proof. intros rest. reflexivity. Qed.
Lemma sgr_yellow : sgr c_yellow. Proof. intros rest. reflexivity. Qed.
Lemma sgr_green : sgr c_green. Proof. intros rest. reflexivity. Qed.
Lemma sgr_red : sgr c_red. Proof. intros rest. reflexivity. Qed.

Lemma strip_paint nocolor c s rest :
  sgr c -> noesc s = true ->
  strip_ansi_aux SNorm (paint nocolor c s ++ rest) = paint true c s ++ strip_ansi_aux SNorm rest.
Proof.
  intros Hc Hs. unfold paint. destruct nocolor.
  - now apply strip_noesc.
  - rewrite <- !List.app_assoc. rewrite Hc, strip_noesc by exact Hs. now rewrite sgr_reset.
Qed.

Lemma strip_print_event nocolor c sym verb n rest :
  sgr c -> noesc sym = true -> noesc verb = true ->
  strip_ansi_aux SNorm (print_event nocolor c sym verb n ++ rest)
  = print_event true c sym verb n ++ strip_ansi_aux SNorm rest.
Proof.
  intros Hc Hs Hv. destruct n as [|n]; [reflexivity|]. unfold print_event.
  apply strip_paint; [exact Hc|].
  rewrite !noesc_app, Hs, Hv, dec_noesc, plural_noesc. reflexivity.
Qed.

Lemma strip_items nocolor objs rest :
  Forall (fun it => ~ In 27%N it) objs ->
  strip_ansi_aux SNorm (concat (map (object_item nocolor) objs) ++ rest)
  = concat (map (object_item true) objs) ++ strip_ansi_aux SNorm rest.
Proof.
  induction 1 as [|o objs Ho _ IH]; [reflexivity|].
  cbn [map concat]. rewrite <- !List.app_assoc. unfold object_item at 1 3.
  rewrite strip_paint; [now rewrite IH|apply sgr_dim|].
  rewrite !noesc_app. unfold noesc at 5. rewrite (notin_forallb _ _ Ho). reflexivity.
Qed.

Lemma strip_object_list nocolor upd objs name rest :
  noesc name = true -> Forall (fun it => ~ In 27%N it) objs ->
  strip_ansi_aux SNorm (object_list nocolor upd objs name ++ rest)
  = object_list true upd objs name ++ strip_ansi_aux SNorm rest.
Proof.
  intros Hn Ho. unfold object_list. rewrite <- !List.app_assoc.
  rewrite strip_paint; [now rewrite strip_items|destruct upd; [apply sgr_green|apply sgr_yellow]|].
  rewrite !noesc_app, Hn, dec_noesc, plural_noesc. now destruct upd.
Qed.

Lemma strip_summary nocolor d rest :
  Forall (fun it => ~ In 27%N it) (sd_files d ++ sd_tests d) ->
  strip_ansi_aux SNorm (summary nocolor d ++ rest) = summary true d ++ strip_ansi_aux SNorm rest.
Proof.
  intros H. apply Forall_app in H as [Hf Ht]. unfold summary. destruct (sum_nothing d); [reflexivity|].
  rewrite <- !List.app_assoc.
  rewrite (strip_noesc [nl]) by reflexivity.
  rewrite strip_paint by (reflexivity || apply sgr_boldwhite).
  rewrite (strip_noesc [nl; nl]) by reflexivity.
  rewrite strip_print_event by (reflexivity || apply sgr_green).
  rewrite strip_print_event by (reflexivity || apply sgr_red).
  rewrite strip_print_event by (reflexivity || apply sgr_green).
  rewrite strip_print_event by (reflexivity || apply sgr_green).
  rewrite strip_print_event by (reflexivity || apply sgr_yellow).
  do 8 apply f_equal.
  destruct (Nat.ltb 0 (length (sd_files d))).
  - rewrite strip_object_list by (reflexivity || assumption). apply f_equal.
    destruct (Nat.ltb 0 (length (sd_tests d))).
    + rewrite strip_object_list by (reflexivity || assumption). apply f_equal.
      destruct (negb (sd_update d) && _); [|reflexivity].
      apply strip_paint; [apply sgr_dim|]. unfold hint_text. now destruct (Nat.ltb 1 _).
    + cbn [List.app]. destruct (negb (sd_update d) && _); [|reflexivity].
      apply strip_paint; [apply sgr_dim|]. unfold hint_text. now destruct (Nat.ltb 1 _).
  - cbn [List.app]. destruct (Nat.ltb 0 (length (sd_tests d))).
    + rewrite strip_object_list by (reflexivity || assumption). apply f_equal.
      destruct (negb (sd_update d) && _); [|reflexivity].
      apply strip_paint; [apply sgr_dim|]. unfold hint_text. now destruct (Nat.ltb 1 _).
    + cbn [List.app]. destruct (negb (sd_update d) && _); [|reflexivity].
      apply strip_paint; [apply sgr_dim|]. unfold hint_text. now destruct (Nat.ltb 1 _).
Qed.

(* 4. stripping the ANSI sequences of the coloured text gives the NO_COLOR text *)
Theorem summary_color_strip d :
  Forall (fun it => ~ In 27%N it) (sd_files d ++ sd_tests d) ->
  strip_ansi (summary false d) = summary true d.
Proof.
  intros H. unfold strip_ansi. rewrite <- (List.app_nil_r (summary false d)).
  rewrite strip_summary by exact H. apply List.app_nil_r.
Qed.

Lemma items_ok_noesc d : items_ok d -> Forall (fun it => ~ In 27%N it) (sd_files d ++ sd_tests d).
Proof.
  intros [Hf Ht]. apply Forall_app. split; eapply Forall_impl; try eassumption; now intros ? [].
Qed.

Lemma strip_stdout nocolor d :
  items_ok d -> strip_ansi (summary nocolor d ++ [nl]) = summary true d ++ [nl].
Proof.
  intros H. unfold strip_ansi. rewrite strip_summary by now apply items_ok_noesc. reflexivity.
Qed.

(* ====================================================================== *)
(* The reader on the genuine lines                                         *)
(* ====================================================================== *)

(* ---- counter lines ---- *)

Lemma match_event_miss l e : strip_prefix (fst (fst e)) l = None -> match_event l e = None.
Proof. destruct e as [[sym verb] k]. cbn [fst]. unfold match_event. now intros ->. Qed.

Lemma match_event_hit sym verb k n :
  1 <= n -> match_event (ev_line sym verb n) (sym, verb, k) = Some (k, n).
Proof.
  intros Hn. unfold match_event, ev_line. rewrite strip_prefix_app, read_number_dec by reflexivity.
  rewrite plural_r_s, beq_refl. apply Nat.leb_le in Hn. now rewrite Hn.
Qed.

Lemma match_event_updated_added n :
  match_event (ev_line sym_update (B "updated") n) (sym_update, B "added", EAdded) = None.
Proof.
  unfold match_event, ev_line. rewrite strip_prefix_app, read_number_dec by reflexivity.
  rewrite plural_r_s. unfold r_s. destruct (Nat.leb 1 n), (Nat.leb 2 n); reflexivity.
Qed.

Lemma classify_passed n : 1 <= n -> classify_event (ev_line sym_success (B "passed") n) = Some (EPassed, n).
Proof.
  intros Hn. unfold classify_event, event_table. cbn [first_some].
  change [226; 156; 147; 32]%N with sym_success. now rewrite match_event_hit.
Qed.

Lemma classify_failed n : 1 <= n -> classify_event (ev_line sym_error (B "failed") n) = Some (EFailed, n).
Proof.
  intros Hn. unfold classify_event, event_table. cbn [first_some].
  rewrite (match_event_miss _ ([226; 156; 147; 32]%N, _, _)) by reflexivity.
  change [226; 156; 149; 32]%N with sym_error. now rewrite match_event_hit.
Qed.

Lemma classify_added n : 1 <= n -> classify_event (ev_line sym_update (B "added") n) = Some (EAdded, n).
Proof.
  intros Hn. unfold classify_event, event_table. cbn [first_some].
  rewrite (match_event_miss _ ([226; 156; 147; 32]%N, _, _)) by reflexivity.
  rewrite (match_event_miss _ ([226; 156; 149; 32]%N, _, _)) by reflexivity.
  change [226; 156; 142; 32]%N with sym_update. now rewrite match_event_hit.
Qed.

Lemma classify_updated n : 1 <= n -> classify_event (ev_line sym_update (B "updated") n) = Some (EUpdated, n).
Proof.
  intros Hn. unfold classify_event, event_table. cbn [first_some].
  rewrite (match_event_miss _ ([226; 156; 147; 32]%N, _, _)) by reflexivity.
  rewrite (match_event_miss _ ([226; 156; 149; 32]%N, _, _)) by reflexivity.
  change [226; 156; 142; 32]%N with sym_update. rewrite match_event_updated_added.
  now rewrite match_event_hit.
Qed.

Lemma classify_skipped n : 1 <= n -> classify_event (ev_line sym_skip (B "skipped") n) = Some (ESkipped, n).
Proof.
  intros Hn. unfold classify_event, event_table. cbn [first_some].
  rewrite (match_event_miss _ ([226; 156; 147; 32]%N, _, _)) by reflexivity.
  rewrite (match_event_miss _ ([226; 156; 149; 32]%N, _, _)) by reflexivity.
  rewrite (match_event_miss _ ([226; 156; 142; 32]%N, B "added", _)) by reflexivity.
  rewrite (match_event_miss _ ([226; 156; 142; 32]%N, B "updated", _)) by reflexivity.
  change [226; 159; 179; 32]%N with sym_skip. now rewrite match_event_hit.
Qed.

Lemma ev_set_0 k a : ev_get k a = 0 -> ev_set k 0 a = a.
Proof.
  destruct a as [[e ad u p] s]. destruct k; cbn; intros ->; reflexivity.
Qed.

Lemma read_events_ev sym verb k n a rest :
  (forall m, 1 <= m -> classify_event (ev_line sym verb m) = Some (k, m)) ->
  ev_get k a = 0 ->
  read_events a (ev_lines sym verb n ++ rest) = read_events (ev_set k n a) rest.
Proof.
  intros Hc Hg. destruct n as [|n].
  - now rewrite ev_set_0.
  - cbn [ev_lines List.app read_events]. rewrite Hc by lia. now rewrite Hg.
Qed.

Lemma read_events_stop a rest : read_events a ([] :: rest) = Some (a, [] :: rest).
Proof. reflexivity. Qed.

Lemma read_events_ok e ad u p sk rest :
  read_events evacc_zero
    (events_lines {| n_erred := e; n_added := ad; n_updated := u; n_passed := p |} sk ++ [] :: rest)
  = Some (({| n_erred := e; n_added := ad; n_updated := u; n_passed := p |}, sk), [] :: rest).
Proof.
  unfold events_lines. cbn [n_erred n_added n_updated n_passed]. rewrite <- !List.app_assoc.
  rewrite (read_events_ev _ _ EPassed) by (exact classify_passed || reflexivity).
  rewrite (read_events_ev _ _ EFailed) by (exact classify_failed || reflexivity).
  rewrite (read_events_ev _ _ EAdded) by (exact classify_added || reflexivity).
  rewrite (read_events_ev _ _ EUpdated) by (exact classify_updated || reflexivity).
  rewrite (read_events_ev _ _ ESkipped) by (exact classify_skipped || reflexivity).
  reflexivity.
Qed.

(* ---- list sections ---- *)

Lemma parse_hdr_file upd n :
  1 <= n -> parse_list_header (hdr_line upd (B "file") n) = Some (LFile, n, upd).
Proof.
  intros Hn. unfold parse_list_header, hdr_line.
  change [226; 128; 186; 32]%N with sym_arrow.
  rewrite strip_prefix_app, read_number_dec by reflexivity.
  apply Nat.leb_le in Hn. rewrite Hn. rewrite plural_r_s. unfold r_s.
  destruct upd, (Nat.leb 2 n); reflexivity.
Qed.

Lemma parse_hdr_test upd n :
  1 <= n -> parse_list_header (hdr_line upd (B "test") n) = Some (LTest, n, upd).
Proof.
  intros Hn. unfold parse_list_header, hdr_line.
  change [226; 128; 186; 32]%N with sym_arrow.
  rewrite strip_prefix_app, read_number_dec by reflexivity.
  apply Nat.leb_le in Hn. rewrite Hn. rewrite plural_r_s. unfold r_s.
  destruct upd, (Nat.leb 2 n); reflexivity.
Qed.

Lemma take_items_lines objs rest :
  take_items (map item_line objs ++ [] :: rest) = (objs, [] :: rest).
Proof.
  induction objs as [|o objs IH]; [reflexivity|].
  cbn [map List.app take_items].
  replace (strip_prefix item_prefix (item_line o)) with (Some o) by reflexivity.
  now rewrite IH.
Qed.

Lemma read_list_cons k h r :
  read_list k ([] :: h :: r) =
  match parse_list_header h with
  | Some (k', n, w) =>
      if lkind_eqb k k' then
        let '(its, rest) := take_items r in
        if Nat.eqb (length its) n then Some (Some (its, w), rest) else None
      else Some (None, [] :: h :: r)
  | None => Some (None, [] :: h :: r)
  end.
Proof. reflexivity. Qed.

(* a present section is read back, whatever follows (what follows starts with an empty line) *)
Lemma read_list_present k upd name objs rest :
  (forall n, 1 <= n -> parse_list_header (hdr_line upd name n) = Some (k, n, upd)) ->
  Nat.ltb 0 (length objs) = true ->
  read_list k (sect_lines upd name objs ++ [] :: rest) = Some (Some (objs, upd), [] :: rest).
Proof.
  intros Hp Hl. unfold sect_lines. rewrite Hl. cbn [List.app]. rewrite read_list_cons.
  apply Nat.ltb_lt in Hl. rewrite Hp by lia.
  replace (lkind_eqb k k) with true by now destruct k.
  rewrite take_items_lines, Nat.eqb_refl. reflexivity.
Qed.

Lemma sect_lines_empty upd name objs : Nat.ltb 0 (length objs) = false -> sect_lines upd name objs = [] /\ objs = [].
Proof.
  intros H. unfold sect_lines. rewrite H. split; [reflexivity|].
  destruct objs; [reflexivity|discriminate].
Qed.

(* the end: optional hint, Println's empty line, the empty piece after the last newline *)
Definition end_lines (upd : bool) (total : nat) : list bytes := hint_lines upd total ++ [ []; [] ].

Lemma end_lines_shape upd total :
  exists h r, end_lines upd total = [] :: h :: r /\ parse_list_header h = None.
Proof.
  unfold end_lines, hint_lines. destruct (negb upd && Nat.ltb 0 total).
  - eexists _, _. split; [reflexivity|]. unfold hint_text. now destruct (Nat.ltb 1 total).
  - eexists _, _. split; reflexivity.
Qed.

(* the test section followed by the end never looks like a file section *)
Lemma test_end_shape upd tests total :
  exists h r, sect_lines upd (B "test") tests ++ end_lines upd total = [] :: h :: r /\
              (parse_list_header h = None \/ exists n w, parse_list_header h = Some (LTest, n, w)).
Proof.
  destruct (Nat.ltb 0 (length tests)) eqn:E.
  - unfold sect_lines. rewrite E. eexists _, _. split; [reflexivity|]. right.
    eexists _, _. apply parse_hdr_test. now apply Nat.ltb_lt in E.
  - destruct (sect_lines_empty upd (B "test") tests E) as [-> _].
    destruct (end_lines_shape upd total) as [h [r [-> Hh]]]. eexists _, _. split; [reflexivity|now left].
Qed.

Lemma read_list_absent_none k h r :
  parse_list_header h = None -> read_list k ([] :: h :: r) = Some (None, [] :: h :: r).
Proof. intros H. now rewrite read_list_cons, H. Qed.

Lemma read_list_file_absent h r :
  (parse_list_header h = None \/ exists n w, parse_list_header h = Some (LTest, n, w)) ->
  read_list LFile ([] :: h :: r) = Some (None, [] :: h :: r).
Proof. intros [H|[n [w H]]]; rewrite read_list_cons, H; reflexivity. Qed.

Definition wording_of (upd : bool) (files tests : list bytes) : option bool :=
  match files, tests with [], [] => None | _, _ => Some upd end.

Lemma end_lines_true total : end_lines true total = [ []; [] ].
Proof. reflexivity. Qed.
Lemma end_lines_zero upd : end_lines upd 0 = [ []; [] ].
Proof. unfold end_lines, hint_lines. now rewrite andb_false_r. Qed.
Lemma end_lines_false total : 1 <= total -> end_lines false total = [ []; hint_text total; []; [] ].
Proof.
  intros H. unfold end_lines, hint_lines. apply Nat.ltb_lt in H. now rewrite H.
Qed.

Lemma read_tail_ok upd files tests :
  read_tail (tail_lines upd files tests ++ [ [] ]) = Some (files, tests, wording_of upd files tests).
Proof.
  unfold tail_lines. rewrite <- !List.app_assoc.
  change ([ [] ] ++ [ [] ]) with ([ []; [] ] : list bytes).
  fold (end_lines upd (length files + length tests)).
  unfold read_tail.
  destruct (test_end_shape upd tests (length files + length tests)) as [hT [rT [ET HT]]].
  destruct (end_lines_shape upd (length files + length tests)) as [hE [rE [EE HE]]].
  (* the file section *)
  assert (Hf : read_list LFile (sect_lines upd (B "file") files ++ sect_lines upd (B "test") tests
                                ++ end_lines upd (length files + length tests))
               = Some (if Nat.ltb 0 (length files) then Some (files, upd) else None,
                       sect_lines upd (B "test") tests ++ end_lines upd (length files + length tests))).
  { destruct (Nat.ltb 0 (length files)) eqn:Ef.
    - rewrite ET. rewrite (read_list_present LFile) by (exact (parse_hdr_file upd) || exact Ef). reflexivity.
    - destruct (sect_lines_empty upd (B "file") files Ef) as [-> _]. cbn [List.app].
      rewrite ET. now apply read_list_file_absent. }
  rewrite Hf. clear Hf.
  (* the test section *)
  assert (Ht : read_list LTest (sect_lines upd (B "test") tests ++ end_lines upd (length files + length tests))
               = Some (if Nat.ltb 0 (length tests) then Some (tests, upd) else None,
                       end_lines upd (length files + length tests))).
  { destruct (Nat.ltb 0 (length tests)) eqn:Et.
    - rewrite EE. rewrite (read_list_present LTest) by (exact (parse_hdr_test upd) || exact Et). reflexivity.
    - destruct (sect_lines_empty upd (B "test") tests Et) as [-> _]. cbn [List.app].
      rewrite EE. now apply read_list_absent_none. }
  rewrite Ht. clear Ht ET HT EE HE hT rT hE rE.
  destruct files as [|f files]; destruct tests as [|t tests]; cbn [length Nat.ltb Nat.leb].
  - cbn [join_wording sec_items wording_of]. rewrite end_lines_zero. reflexivity.
  - cbn [join_wording sec_items wording_of]. destruct upd.
    + rewrite end_lines_true. reflexivity.
    + rewrite end_lines_false by (cbn [length]; lia). rewrite hint_r_hint, r_hint_lead_ok. reflexivity.
  - cbn [join_wording sec_items wording_of]. destruct upd.
    + rewrite end_lines_true. reflexivity.
    + rewrite end_lines_false by (cbn [length]; lia). rewrite hint_r_hint, r_hint_lead_ok. reflexivity.
  - cbn [join_wording sec_items wording_of]. rewrite eqb_reflx. destruct upd.
    + rewrite end_lines_true. reflexivity.
    + rewrite end_lines_false by (cbn [length]; lia). rewrite hint_r_hint, r_hint_lead_ok. reflexivity.
Qed.

Lemma tail_lines_shape upd files tests : exists r, tail_lines upd files tests ++ [ [] ] = [] :: r.
Proof.
  unfold tail_lines. rewrite <- !List.app_assoc.
  change ([ [] ] ++ [ [] ]) with ([ []; [] ] : list bytes).
  fold (end_lines upd (length files + length tests)).
  destruct (test_end_shape upd tests (length files + length tests)) as [hT [rT [ET _]]].
  rewrite ET. unfold sect_lines. destruct (Nat.ltb 0 (length files)); eexists; reflexivity.
Qed.

(* ====================================================================== *)
(* 2. The text is empty exactly when there is nothing to show               *)
(* ====================================================================== *)

Lemma summary_cons nocolor d : sum_nothing d = false -> exists t, summary nocolor d = nl :: t.
Proof. intros H. unfold summary. rewrite H. eexists. reflexivity. Qed.

Lemma summary_nil_b nocolor d :
  (match summary nocolor d with [] => true | _ :: _ => false end) = sum_nothing d.
Proof.
  destruct (sum_nothing d) eqn:E.
  - unfold summary. now rewrite E.
  - destruct (summary_cons nocolor d E) as [t ->]. reflexivity.
Qed.

Lemma sum_nothing_true d :
  sum_nothing d = true <->
  sd_files d = [] /\ sd_tests d = [] /\
  n_erred (sd_counts d) = 0 /\ n_added (sd_counts d) = 0 /\ n_updated (sd_counts d) = 0 /\
  n_passed (sd_counts d) = 0 /\ sd_skipped d = 0.
Proof.
  unfold sum_nothing, counters_zero. rewrite !andb_true_iff, !Nat.eqb_eq, !length_zero_iff_nil. tauto.
Qed.

Theorem summary_empty_iff nocolor d :
  summary nocolor d = [] <->
  sd_files d = [] /\ sd_tests d = [] /\
  n_erred (sd_counts d) = 0 /\ n_added (sd_counts d) = 0 /\ n_updated (sd_counts d) = 0 /\
  n_passed (sd_counts d) = 0 /\ sd_skipped d = 0.
Proof.
  rewrite <- sum_nothing_true. pose proof (summary_nil_b nocolor d) as H.
  destruct (summary nocolor d); split; intros H1; try reflexivity; try discriminate; congruence.
Qed.

Lemma clean_stdout_nonempty nocolor d :
  sum_nothing d = false -> clean_stdout nocolor d = summary nocolor d ++ [nl].
Proof.
  intros H. unfold clean_stdout. destruct (summary_cons nocolor d H) as [t ->]. reflexivity.
Qed.

(* ====================================================================== *)
(* 1. The reader recovers exactly the totals and the lists                  *)
(* ====================================================================== *)

Theorem read_summary_correct nocolor d :
  items_ok d -> read_summary (clean_stdout nocolor d) = Some (sumread_of d).
Proof.
  intros Hok. destruct (sum_nothing d) eqn:En.
  - (* nothing printed *)
    unfold clean_stdout. pose proof (summary_nil_b nocolor d) as Hb. rewrite En in Hb.
    destruct (summary nocolor d); [|discriminate]. cbn [read_summary].
    apply sum_nothing_true in En. destruct En as (Hf & Ht & He & Ha & Hu & Hp & Hs).
    destruct d as [files tests sk [e ad u p] upd]. cbn in *. subst. reflexivity.
  - rewrite clean_stdout_nonempty by exact En.
    destruct (summary_cons nocolor d En) as [t Et].
    assert (Hrb : read_summary (summary nocolor d ++ [nl]) = read_body (summary nocolor d ++ [nl]))
      by (rewrite Et; reflexivity).
    rewrite Hrb. clear Hrb t Et. unfold read_body.
    rewrite strip_stdout by exact Hok. rewrite split_body by assumption.
    unfold body_lines. cbn [List.app]. rewrite beq_refl. rewrite <- List.app_assoc.
    destruct d as [files tests sk [e ad u p] upd]. cbn [sd_files sd_tests sd_skipped sd_counts sd_update].
    destruct (tail_lines_shape upd files tests) as [r Er].
    rewrite Er, read_events_ok, <- Er, read_tail_ok.
    (* the all-zero guard *)
    assert (Hg : counters_zero {| n_erred := e; n_added := ad; n_updated := u; n_passed := p |}
                 && Nat.eqb sk 0 && (match files, tests with [], [] => true | _, _ => false end) = false).
    { unfold sum_nothing in En. cbn [sd_files sd_tests sd_skipped sd_counts] in En.
      destruct files, tests; cbn [length Nat.eqb andb] in En |- *;
        rewrite ?andb_false_r; try reflexivity.
      rewrite andb_true_r. exact En. }
    rewrite Hg. reflexivity.
Qed.

(* 3. the printed text determines what a reader sees (even across colour modes) *)
Corollary summary_injective_partial nc1 nc2 d1 d2 :
  items_ok d1 -> items_ok d2 ->
  clean_stdout nc1 d1 = clean_stdout nc2 d2 -> sumread_of d1 = sumread_of d2.
Proof.
  intros H1 H2 E. pose proof (read_summary_correct nc1 d1 H1) as R1.
  rewrite E, (read_summary_correct nc2 d2 H2) in R1. congruence.
Qed.

Corollary summary_injective nc1 nc2 d1 d2 :
  items_ok d1 -> items_ok d2 ->
  summary nc1 d1 = summary nc2 d2 ->
  sd_files d1 = sd_files d2 /\ sd_tests d1 = sd_tests d2 /\ sd_skipped d1 = sd_skipped d2 /\
  sd_counts d1 = sd_counts d2 /\
  (sd_files d1 ++ sd_tests d1 <> [] -> sd_update d1 = sd_update d2).
Proof.
  intros H1 H2 E.
  assert (Es : clean_stdout nc1 d1 = clean_stdout nc2 d2) by (unfold clean_stdout; now rewrite E).
  pose proof (summary_injective_partial nc1 nc2 d1 d2 H1 H2 Es) as Hr.
  unfold sumread_of in Hr. injection Hr as Hf Ht Hs Hc Hw.
  repeat split; try assumption.
  intros Hne. rewrite <- Hf, <- Ht in Hw.
  destruct (sd_files d1), (sd_tests d1); cbn in Hne; try congruence.
Qed.

(* 5. the Clean model's "printed" flag is exactly non-emptiness of the text *)
Theorem clean_run_summary nocolor s sort_opt count :
  let r := snd (clean_run s sort_opt count) in
  cr_printed r = negb (match summary nocolor (sumdata_of_result r) with [] => true | _ :: _ => false end).
Proof.
  intros r. rewrite summary_nil_b. subst r. unfold clean_run.
  set (fr := examine_files _ _ _).
  destruct (fold_left _ (fr_used fr) _) as [[fs2 obs] w2].
  unfold sumdata_of_result, sum_nothing, counters_zero. cbn. f_equal.
  destruct (fr_obsolete fr), obs; cbn; try reflexivity.
  f_equal.
  destruct (n_erred (s_events s)), (n_added (s_events s)), (n_updated (s_events s)), (n_passed (s_events s));
    reflexivity.
Qed.

(* ====================================================================== *)
(* 6. Non-vacuity                                                          *)
(* ====================================================================== *)

Definition mk_counts (e a u p : nat) : counters := {| n_erred := e; n_added := a; n_updated := u; n_passed := p |}.

(* 2 obsolete files, 1 obsolete test, 3 failed / 1 added / 0 updated / 12 passed, 2 skipped, report mode *)
Definition ex_d : sumdata :=
  {| sd_files := [B "a/__snapshots__/x.snap"; B "b/y.snap"]; sd_tests := [B "TestA/sub - 1"];
     sd_skipped := 2; sd_counts := mk_counts 3 1 0 12; sd_update := false |}.

Definition u_check : bytes := [226; 156; 147]%N.   (* U+2713 *)
Definition u_cross : bytes := [226; 156; 149]%N.   (* U+2715 *)
Definition u_pencil : bytes := [226; 156; 142]%N.  (* U+270E *)
Definition u_cycle : bytes := [226; 159; 179]%N.   (* U+27F3 *)
Definition u_arrow : bytes := [226; 128; 186]%N.   (* U+203A *)
Definition u_enter : bytes := [226; 134; 179]%N.   (* U+21B3 *)
Definition u_bullet : bytes := [226; 128; 162]%N.  (* U+2022 *)
Definition ex_item (s : bytes) : bytes := B "  " ++ u_enter ++ B "  " ++ u_bullet ++ B " " ++ s.

Definition ex_lines : list bytes :=
  [ [];
    B "Snapshot Summary";
    [];
    u_check ++ B " 12 snapshots passed";
    u_cross ++ B " 3 snapshots failed";
    u_pencil ++ B " 1 snapshot added";
    u_cycle ++ B " 2 snapshots skipped";
    [];
    u_arrow ++ B " 2 snapshot files obsolete";
    ex_item (B "a/__snapshots__/x.snap");
    ex_item (B "b/y.snap");
    [];
    u_arrow ++ B " 1 snapshot test obsolete";
    ex_item (B "TestA/sub - 1");
    [];
    B "To remove them, re-run tests with `UPDATE_SNAPS=clean go test ./...`" ].

(* the exact NO_COLOR text returned by summary, and what Clean writes (one more newline) *)
Example ex_text : summary true ex_d = unlines ex_lines.
Proof. vm_compute. reflexivity. Qed.
Example ex_stdout : clean_stdout true ex_d = unlines (ex_lines ++ [ [] ]).
Proof. vm_compute. reflexivity. Qed.

Definition ex_read : sumread :=
  {| sr_files := [B "a/__snapshots__/x.snap"; B "b/y.snap"]; sr_tests := [B "TestA/sub - 1"];
     sr_skipped := 2; sr_counts := mk_counts 3 1 0 12; sr_wording := Some false |}.

Example ex_read_nocolor : read_summary (clean_stdout true ex_d) = Some ex_read.
Proof. vm_compute. reflexivity. Qed.
Example ex_read_color : read_summary (clean_stdout false ex_d) = Some ex_read.
Proof. vm_compute. reflexivity. Qed.
Example ex_color_differs : clean_stdout false ex_d <> clean_stdout true ex_d.
Proof. vm_compute. discriminate. Qed.
Example ex_items_ok : items_ok ex_d.
Proof. apply items_ok_b. reflexivity. Qed.

(* malformed texts are rejected.  [ex_edit f] = the genuine NO_COLOR output with its lines edited by f *)
Definition ex_edit (f : list bytes -> list bytes) : bytes := unlines (f (ex_lines ++ [ [] ])).
Definition set_nth (i : nat) (l : bytes) (ls : list bytes) : list bytes := firstn i ls ++ l :: skipn (S i) ls.
Definition del_nth (i : nat) (ls : list bytes) : list bytes := firstn i ls ++ skipn (S i) ls.
Definition ins_nth (i : nat) (l : bytes) (ls : list bytes) : list bytes := firstn i ls ++ l :: skipn i ls.

Example ex_edit_id : read_summary (ex_edit (fun ls => ls)) = Some ex_read.
Proof. vm_compute. reflexivity. Qed.
(* the list header announces 3 files, 2 items follow *)
Example bad_count : read_summary (ex_edit (set_nth 8 (u_arrow ++ B " 3 snapshot files obsolete"))) = None.
Proof. vm_compute. reflexivity. Qed.
(* an item line removed: header says 2, one item follows *)
Example bad_missing_item : read_summary (ex_edit (del_nth 10)) = None.
Proof. vm_compute. reflexivity. Qed.
(* an extra item line: header says 1 test, two follow *)
Example bad_extra_item : read_summary (ex_edit (ins_nth 14 (ex_item (B "TestZ - 1")))) = None.
Proof. vm_compute. reflexivity. Qed.
(* a counter line twice *)
Example bad_twice : read_summary (ex_edit (ins_nth 4 (u_check ++ B " 12 snapshots passed"))) = None.
Proof. vm_compute. reflexivity. Qed.
(* singular/plural not matching the number *)
Example bad_plural : read_summary (ex_edit (set_nth 5 (u_pencil ++ B " 1 snapshots added"))) = None.
Proof. vm_compute. reflexivity. Qed.
Example bad_plural_list : read_summary (ex_edit (set_nth 12 (u_arrow ++ B " 1 snapshot tests obsolete"))) = None.
Proof. vm_compute. reflexivity. Qed.
(* a leading zero / a zero counter *)
Example bad_leading_zero : read_summary (ex_edit (set_nth 4 (u_cross ++ B " 03 snapshots failed"))) = None.
Proof. vm_compute. reflexivity. Qed.
Example bad_zero_counter : read_summary (ex_edit (set_nth 4 (u_cross ++ B " 0 snapshot failed"))) = None.
Proof. vm_compute. reflexivity. Qed.
(* an unknown line *)
Example bad_unknown : read_summary (ex_edit (ins_nth 7 (B "5 snapshots lost"))) = None.
Proof. vm_compute. reflexivity. Qed.
(* the hint is missing in report mode *)
Example bad_no_hint : read_summary (ex_edit (fun ls => del_nth 14 (del_nth 14 ls))) = None.
Proof. vm_compute. reflexivity. Qed.
(* how the advice is worded is presentation: a reworded hint reads to the same data; a line that is no hint does not *)
Example reworded_hint_same_data :
  read_summary (ex_edit (set_nth 15 (B "To remove it, re-run your tests with `UPDATE_SNAPS=clean go test -count=1 ./...`")))
  = read_summary (ex_edit (fun ls => ls)).
Proof. vm_compute. reflexivity. Qed.
Example bad_hint_other_line :
  read_summary (ex_edit (set_nth 15 (B "Remove them with `UPDATE_SNAPS=clean go test ./...`"))) = None.
Proof. vm_compute. reflexivity. Qed.
(* the hint is present although the lists say "removed" *)
Example bad_hint_removed :
  read_summary (ex_edit (fun ls => set_nth 8 (u_arrow ++ B " 2 snapshot files removed")
                                     (set_nth 12 (u_arrow ++ B " 1 snapshot test removed") ls))) = None.
Proof. vm_compute. reflexivity. Qed.
(* ... and without the hint that text is fine *)
Example good_removed :
  read_summary (ex_edit (fun ls => del_nth 14 (del_nth 14
                                     (set_nth 8 (u_arrow ++ B " 2 snapshot files removed")
                                     (set_nth 12 (u_arrow ++ B " 1 snapshot test removed") ls)))))
  = Some {| sr_files := sr_files ex_read; sr_tests := sr_tests ex_read; sr_skipped := 2;
            sr_counts := mk_counts 3 1 0 12; sr_wording := Some true |}.
Proof. vm_compute. reflexivity. Qed.
(* the two lists disagree on the wording *)
Example bad_mixed_wording :
  read_summary (ex_edit (set_nth 8 (u_arrow ++ B " 2 snapshot files removed"))) = None.
Proof. vm_compute. reflexivity. Qed.
(* a title alone *)
Example bad_title_only : read_summary (unlines [ []; B "Snapshot Summary"; []; [] ]) = None.
Proof. vm_compute. reflexivity. Qed.
(* Println's newline missing *)
Example bad_truncated : read_summary (summary true ex_d) = None.
Proof. vm_compute. reflexivity. Qed.

(* the hypotheses on the items are needed: with a newline or an ESC sequence inside an item the
   reader does not get the item back *)
Definition ex_nl_item : sumdata :=
  {| sd_files := [B "a" ++ [10%N] ++ B "b"]; sd_tests := []; sd_skipped := 0; sd_counts := mk_counts 0 0 0 0;
     sd_update := true |}.
Example newline_item_breaks :
  read_summary (clean_stdout true ex_nl_item) <> Some (sumread_of ex_nl_item).
Proof. vm_compute. discriminate. Qed.
(* newlines followed by a forged section even yield a well-formed text with a different reading *)
Definition ex_forged : sumdata :=
  {| sd_files := [B "a" ++ [10; 10]%N ++ u_arrow ++ B " 1 snapshot test removed" ++ [10%N] ++ ex_item (B "T")];
     sd_tests := []; sd_skipped := 0; sd_counts := mk_counts 0 0 0 0; sd_update := true |}.
Example forged_section_misread :
  read_summary (clean_stdout true ex_forged)
  = Some {| sr_files := [B "a"]; sr_tests := [B "T"]; sr_skipped := 0; sr_counts := mk_counts 0 0 0 0;
            sr_wording := Some true |}.
Proof. vm_compute. reflexivity. Qed.
Definition ex_esc_item : sumdata :=
  {| sd_files := [B "a" ++ c_red ++ B "b"]; sd_tests := []; sd_skipped := 0; sd_counts := mk_counts 0 0 0 0;
     sd_update := true |}.
Example esc_item_breaks :
  read_summary (clean_stdout false ex_esc_item)
  = Some {| sr_files := [B "ab"]; sr_tests := []; sr_skipped := 0; sr_counts := mk_counts 0 0 0 0;
            sr_wording := Some true |}.
Proof. vm_compute. reflexivity. Qed.

(* ---- reference vectors: the bytes returned by the Go function summary() (go test, go1.23.5),
        see go_ref.txt ---- *)
Definition go_d3 : sumdata :=
  {| sd_files := []; sd_tests := [B "TestB - 2"]; sd_skipped := 0; sd_counts := mk_counts 0 0 0 0; sd_update := false |}.
Definition go_d4 : sumdata :=
  {| sd_files := [B "f.snap"]; sd_tests := [B "TestA - 1"; B "TestB - 10"]; sd_skipped := 1;
     sd_counts := mk_counts 1 0 2 1; sd_update := true |}.
Definition go_d5 : sumdata :=
  {| sd_files := []; sd_tests := []; sd_skipped := 11; sd_counts := mk_counts 0 0 1 0; sd_update := true |}.
Definition go_d6 : sumdata :=
  {| sd_files := []; sd_tests := []; sd_skipped := 0; sd_counts := mk_counts 0 0 0 0; sd_update := false |}.

Definition go_c1 : bytes :=
  [10; 83; 110; 97; 112; 115; 104; 111; 116; 32; 83; 117; 109; 109; 97; 114; 121; 10; 10; 226; 156;
   147; 32; 49; 50; 32; 115; 110; 97; 112; 115; 104; 111; 116; 115; 32; 112; 97; 115; 115; 101;
   100; 10; 226; 156; 149; 32; 51; 32; 115; 110; 97; 112; 115; 104; 111; 116; 115; 32; 102; 97;
   105; 108; 101; 100; 10; 226; 156; 142; 32; 49; 32; 115; 110; 97; 112; 115; 104; 111; 116; 32;
   97; 100; 100; 101; 100; 10; 226; 159; 179; 32; 50; 32; 115; 110; 97; 112; 115; 104; 111; 116;
   115; 32; 115; 107; 105; 112; 112; 101; 100; 10; 10; 226; 128; 186; 32; 50; 32; 115; 110; 97;
   112; 115; 104; 111; 116; 32; 102; 105; 108; 101; 115; 32; 111; 98; 115; 111; 108; 101; 116; 101;
   10; 32; 32; 226; 134; 179; 32; 32; 226; 128; 162; 32; 97; 47; 95; 95; 115; 110; 97; 112; 115;
   104; 111; 116; 115; 95; 95; 47; 120; 46; 115; 110; 97; 112; 10; 32; 32; 226; 134; 179; 32; 32;
   226; 128; 162; 32; 98; 47; 121; 46; 115; 110; 97; 112; 10; 10; 226; 128; 186; 32; 49; 32; 115;
   110; 97; 112; 115; 104; 111; 116; 32; 116; 101; 115; 116; 32; 111; 98; 115; 111; 108; 101; 116;
   101; 10; 32; 32; 226; 134; 179; 32; 32; 226; 128; 162; 32; 84; 101; 115; 116; 65; 47; 115; 117;
   98; 32; 45; 32; 49; 10; 10; 84; 111; 32; 114; 101; 109; 111; 118; 101; 32; 116; 104; 101; 109;
   44; 32; 114; 101; 45; 114; 117; 110; 32; 116; 101; 115; 116; 115; 32; 119; 105; 116; 104; 32;
   96; 85; 80; 68; 65; 84; 69; 95; 83; 78; 65; 80; 83; 61; 99; 108; 101; 97; 110; 32; 103; 111; 32;
   116; 101; 115; 116; 32; 46; 47; 46; 46; 46; 96; 10]%N.
Example go_agree_c1 : summary true ex_d = go_c1.
Proof. vm_compute. reflexivity. Qed.

Definition go_c2 : bytes :=
  [10; 27; 91; 49; 59; 51; 56; 59; 53; 59; 50; 53; 53; 109; 83; 110; 97; 112; 115; 104; 111; 116;
   32; 83; 117; 109; 109; 97; 114; 121; 27; 91; 48; 109; 10; 10; 27; 91; 51; 50; 59; 49; 109; 226;
   156; 147; 32; 49; 50; 32; 115; 110; 97; 112; 115; 104; 111; 116; 115; 32; 112; 97; 115; 115;
   101; 100; 10; 27; 91; 48; 109; 27; 91; 51; 49; 59; 49; 109; 226; 156; 149; 32; 51; 32; 115; 110;
   97; 112; 115; 104; 111; 116; 115; 32; 102; 97; 105; 108; 101; 100; 10; 27; 91; 48; 109; 27; 91;
   51; 50; 59; 49; 109; 226; 156; 142; 32; 49; 32; 115; 110; 97; 112; 115; 104; 111; 116; 32; 97;
   100; 100; 101; 100; 10; 27; 91; 48; 109; 27; 91; 51; 51; 59; 49; 109; 226; 159; 179; 32; 50; 32;
   115; 110; 97; 112; 115; 104; 111; 116; 115; 32; 115; 107; 105; 112; 112; 101; 100; 10; 27; 91;
   48; 109; 27; 91; 51; 51; 59; 49; 109; 10; 226; 128; 186; 32; 50; 32; 115; 110; 97; 112; 115;
   104; 111; 116; 32; 102; 105; 108; 101; 115; 32; 111; 98; 115; 111; 108; 101; 116; 101; 10; 27;
   91; 48; 109; 27; 91; 50; 109; 32; 32; 226; 134; 179; 32; 32; 226; 128; 162; 32; 97; 47; 95; 95;
   115; 110; 97; 112; 115; 104; 111; 116; 115; 95; 95; 47; 120; 46; 115; 110; 97; 112; 10; 27; 91;
   48; 109; 27; 91; 50; 109; 32; 32; 226; 134; 179; 32; 32; 226; 128; 162; 32; 98; 47; 121; 46;
   115; 110; 97; 112; 10; 27; 91; 48; 109; 27; 91; 51; 51; 59; 49; 109; 10; 226; 128; 186; 32; 49;
   32; 115; 110; 97; 112; 115; 104; 111; 116; 32; 116; 101; 115; 116; 32; 111; 98; 115; 111; 108;
   101; 116; 101; 10; 27; 91; 48; 109; 27; 91; 50; 109; 32; 32; 226; 134; 179; 32; 32; 226; 128;
   162; 32; 84; 101; 115; 116; 65; 47; 115; 117; 98; 32; 45; 32; 49; 10; 27; 91; 48; 109; 27; 91;
   50; 109; 10; 84; 111; 32; 114; 101; 109; 111; 118; 101; 32; 116; 104; 101; 109; 44; 32; 114;
   101; 45; 114; 117; 110; 32; 116; 101; 115; 116; 115; 32; 119; 105; 116; 104; 32; 96; 85; 80; 68;
   65; 84; 69; 95; 83; 78; 65; 80; 83; 61; 99; 108; 101; 97; 110; 32; 103; 111; 32; 116; 101; 115;
   116; 32; 46; 47; 46; 46; 46; 96; 10; 27; 91; 48; 109]%N.
Example go_agree_c2 : summary false ex_d = go_c2.
Proof. vm_compute. reflexivity. Qed.

Definition go_c3 : bytes :=
  [10; 83; 110; 97; 112; 115; 104; 111; 116; 32; 83; 117; 109; 109; 97; 114; 121; 10; 10; 10; 226;
   128; 186; 32; 49; 32; 115; 110; 97; 112; 115; 104; 111; 116; 32; 116; 101; 115; 116; 32; 111;
   98; 115; 111; 108; 101; 116; 101; 10; 32; 32; 226; 134; 179; 32; 32; 226; 128; 162; 32; 84; 101;
   115; 116; 66; 32; 45; 32; 50; 10; 10; 84; 111; 32; 114; 101; 109; 111; 118; 101; 32; 105; 116;
   44; 32; 114; 101; 45; 114; 117; 110; 32; 116; 101; 115; 116; 115; 32; 119; 105; 116; 104; 32;
   96; 85; 80; 68; 65; 84; 69; 95; 83; 78; 65; 80; 83; 61; 99; 108; 101; 97; 110; 32; 103; 111; 32;
   116; 101; 115; 116; 32; 46; 47; 46; 46; 46; 96; 10]%N.
Example go_agree_c3 : summary true go_d3 = go_c3.
Proof. vm_compute. reflexivity. Qed.

Definition go_c4 : bytes :=
  [10; 27; 91; 49; 59; 51; 56; 59; 53; 59; 50; 53; 53; 109; 83; 110; 97; 112; 115; 104; 111; 116;
   32; 83; 117; 109; 109; 97; 114; 121; 27; 91; 48; 109; 10; 10; 27; 91; 51; 50; 59; 49; 109; 226;
   156; 147; 32; 49; 32; 115; 110; 97; 112; 115; 104; 111; 116; 32; 112; 97; 115; 115; 101; 100;
   10; 27; 91; 48; 109; 27; 91; 51; 49; 59; 49; 109; 226; 156; 149; 32; 49; 32; 115; 110; 97; 112;
   115; 104; 111; 116; 32; 102; 97; 105; 108; 101; 100; 10; 27; 91; 48; 109; 27; 91; 51; 50; 59;
   49; 109; 226; 156; 142; 32; 50; 32; 115; 110; 97; 112; 115; 104; 111; 116; 115; 32; 117; 112;
   100; 97; 116; 101; 100; 10; 27; 91; 48; 109; 27; 91; 51; 51; 59; 49; 109; 226; 159; 179; 32; 49;
   32; 115; 110; 97; 112; 115; 104; 111; 116; 32; 115; 107; 105; 112; 112; 101; 100; 10; 27; 91;
   48; 109; 27; 91; 51; 50; 59; 49; 109; 10; 226; 128; 186; 32; 49; 32; 115; 110; 97; 112; 115;
   104; 111; 116; 32; 102; 105; 108; 101; 32; 114; 101; 109; 111; 118; 101; 100; 10; 27; 91; 48;
   109; 27; 91; 50; 109; 32; 32; 226; 134; 179; 32; 32; 226; 128; 162; 32; 102; 46; 115; 110; 97;
   112; 10; 27; 91; 48; 109; 27; 91; 51; 50; 59; 49; 109; 10; 226; 128; 186; 32; 50; 32; 115; 110;
   97; 112; 115; 104; 111; 116; 32; 116; 101; 115; 116; 115; 32; 114; 101; 109; 111; 118; 101; 100;
   10; 27; 91; 48; 109; 27; 91; 50; 109; 32; 32; 226; 134; 179; 32; 32; 226; 128; 162; 32; 84; 101;
   115; 116; 65; 32; 45; 32; 49; 10; 27; 91; 48; 109; 27; 91; 50; 109; 32; 32; 226; 134; 179; 32;
   32; 226; 128; 162; 32; 84; 101; 115; 116; 66; 32; 45; 32; 49; 48; 10; 27; 91; 48; 109]%N.
Example go_agree_c4 : summary false go_d4 = go_c4.
Proof. vm_compute. reflexivity. Qed.

Definition go_c5 : bytes :=
  [10; 83; 110; 97; 112; 115; 104; 111; 116; 32; 83; 117; 109; 109; 97; 114; 121; 10; 10; 226; 156;
   142; 32; 49; 32; 115; 110; 97; 112; 115; 104; 111; 116; 32; 117; 112; 100; 97; 116; 101; 100;
   10; 226; 159; 179; 32; 49; 49; 32; 115; 110; 97; 112; 115; 104; 111; 116; 115; 32; 115; 107;
   105; 112; 112; 101; 100; 10]%N.
Example go_agree_c5 : summary true go_d5 = go_c5.
Proof. vm_compute. reflexivity. Qed.

Definition go_c6 : bytes :=
[].
Example go_agree_c6 : summary false go_d6 = go_c6.
Proof. vm_compute. reflexivity. Qed.

(* ====================================================================== *)
Print Assumptions parse_dec_dec.
Print Assumptions read_summary_correct.
Print Assumptions summary_empty_iff.
Print Assumptions summary_injective_partial.
Print Assumptions summary_injective.
Print Assumptions summary_color_strip.
Print Assumptions clean_run_summary.
Print Assumptions ex_text.
Print Assumptions ex_read_color.
